(** Proofs about [Model/Poly.v]: the outer loop of [_spfs] / [_uspfs] over the binary
    refinement pairs returns the optimum over all the pairs (end-to-end clause of C08).

    part 1  a MIN entry updated with a concatenation of batches: [update_concat_value],
            [update_concat_tags_all], [update_concat_tags_any]
    part 2  the loop is one update with all the candidates: [poly_loop_concat]
    part 3  a family of binary inputs whose solver is exact (abstract solver):
            [family_value], [family_all_exact], [gopt_local], [family_any]
    part 4  instance: the ordered solver ([spfs_family_*], from [Proofs/SpfsFinal.v])
    part 5  instance: the unordered solver ([uspfs_family_*], from [Proofs/UspfsFinal.v])
    part 6  rose trees + leaf table -> family of binary inputs: every refinement pair converts
            and is well formed ([poly_inputs_ok]); [refinement_input], [refinement_pairs_complete]
    part 7  the end-to-end theorems [ext_optimum_refinements] (ordered) and
            [ext_optimum_refinements_unordered], ANY variants, what a returned tag refers to,
            [refinement_pairs_nodup]; the statement left open ([child_order_invariance_statement])
            and a worked instance ([poly_example]). *)
From Coq Require Import List Bool Arith ZArith NArith Lia Permutation.
From SR Require Import Base.PathB Base.Ext Model.Entry Model.Recon Model.LcaRec Model.Spfs Model.Uspfs
  Model.Binarize Model.Poly
  Proofs.PathFacts Proofs.ReconProofs Proofs.EntryProofs Proofs.ThlProofs Proofs.SpfsProofs Proofs.SpfsFinal
  Proofs.UspfsProofs Proofs.UspfsFinal Proofs.BinarizeProofs.
Import ListNotations.

(** * part 1: a MIN entry updated with a concatenation of batches *)

(* minimum of a list of extended integers; [PInf] for the empty list *)
Definition ext_minl (l : list ext) : ext := fold_right ext_min PInf l.

Lemma ele_PInf_eq a : ele PInf a -> a = PInf.
Proof. destruct a; unfold ele; cbn; congruence. Qed.

Lemma ext_min_cases a b : (ext_min a b = a /\ ele a b) \/ (ext_min a b = b /\ ele b a).
Proof.
  unfold ext_min, ele. destruct (ext_ltb b a) eqn:E; [right|left]; split; auto.
  now apply ext_ltb_asym.
Qed.

Lemma ext_minl_le l x : In x l -> ele (ext_minl l) x.
Proof.
  induction l as [|a l IH]; [intros []|]. cbn [ext_minl fold_right]. fold (ext_minl l).
  intros [<-|H]; destruct (ext_min_cases a (ext_minl l)) as [[-> L]|[-> L]].
  - apply ele_refl.
  - exact L.
  - eapply ele_trans; [exact L|now apply IH].
  - now apply IH.
Qed.

Lemma ext_minl_in l : In (ext_minl l) (PInf :: l).
Proof.
  induction l as [|a l IH]; [now left|]. cbn [ext_minl fold_right]. fold (ext_minl l).
  destruct (ext_min_cases a (ext_minl l)) as [[-> _]|[-> _]]; [right; now left|].
  destruct IH as [E|I]; [left; exact E|right; right; exact I].
Qed.

(* the minimum is the lower bound that is attained (or [PInf]) *)
Lemma ext_minl_char l v : (forall x, In x l -> ele v x) -> In v (PInf :: l) -> v = ext_minl l.
Proof.
  intros LB I. apply ele_antisym.
  - destruct (ext_minl_in l) as [<-|J]; [apply ele_PInf|now apply LB].
  - destruct I as [<-|J]; [apply ele_PInf|now apply ext_minl_le].
Qed.

Section Concat.
  Context {T : Type} (T_eqb : T -> T -> bool).
  Hypothesis T_eqb_spec : forall x y, reflect (x = y) (T_eqb x y).
  Notation E rp l := (Entry.update T_eqb MIN rp (default_entry MIN) l).

  Lemma upd_in rp cs : In (val (E rp cs)) (PInf :: map fst cs).
  Proof. exact (proj1 (entry_value T_eqb MIN rp cs (default_entry MIN))). Qed.

  (* the value only depends on the values offered *)
  Lemma upd_value rp cs : val (E rp cs) = ext_minl (map fst cs).
  Proof.
    apply ext_minl_char; [|apply upd_in].
    intros x H. apply in_map_iff in H as [[v ot] [<- I]]. exact (upd_le T_eqb rp cs v ot I).
  Qed.

  Lemma upd_value_policy rp rp' cs : val (E rp cs) = val (E rp' cs).
  Proof. now rewrite !upd_value. Qed.

  (* a sub-batch has a value that is no better *)
  Lemma upd_incl_le rp cs cs' : incl cs cs' -> ele (val (E rp cs')) (val (E rp cs)).
  Proof.
    intros I. destruct (upd_in rp cs) as [<-|H]; [apply ele_PInf|].
    apply in_map_iff in H as [[v ot] [Ev Hc]]. cbn [fst] in Ev. rewrite <- Ev.
    exact (upd_le T_eqb rp cs' v ot (I _ Hc)).
  Qed.

  Lemma upd_concat_le rp ls l : In l ls -> ele (val (E rp (concat ls))) (val (E rp l)).
  Proof. intros H. apply upd_incl_le. intros x Hx. apply in_concat. eauto. Qed.

  (* a candidate of batch [l] that achieves the overall value achieves the value of [l] *)
  Lemma upd_concat_local rp ls l ot : In l ls -> In (val (E rp (concat ls)), ot) l ->
    val (E rp l) = val (E rp (concat ls)).
  Proof.
    intros Il Ic. apply ele_antisym; [exact (upd_le T_eqb rp l _ ot Ic)|now apply upd_concat_le].
  Qed.

  (** the value after all batches is the minimum of the values of the batches *)
  Theorem update_concat_value rp ls :
    val (E rp (concat ls)) = ext_minl (map (fun l => val (E rp l)) ls).
  Proof.
    apply ext_minl_char.
    - intros x H. apply in_map_iff in H as [l [<- Il]]. now apply upd_concat_le.
    - destruct (upd_in rp (concat ls)) as [<-|H]; [now left|]. right.
      apply in_map_iff in H as [[v ot] [Ev Hc]]. cbn [fst] in Ev. subst v.
      apply in_concat in Hc as [l [Il Hl]]. apply in_map_iff. exists l. split; auto.
      now apply (upd_concat_local rp ls l ot).
  Qed.

  (** ALL: the tags after all batches are the tags of the batches whose value is the overall minimum *)
  Theorem update_concat_tags_all ls t :
    In t (tags (E RALL (concat ls))) <->
    exists l, In l ls /\ val (E RALL l) = val (E RALL (concat ls)) /\ In t (tags (E RALL l)).
  Proof.
    rewrite (entry_tags_all T_eqb T_eqb_spec MIN (concat ls) t). cbv zeta. split.
    - intros H. apply in_concat in H as [l [Il Hl]]. exists l. split; auto.
      pose proof (upd_concat_local RALL ls l _ Il Hl) as Ev. split; auto.
      apply (entry_tags_all T_eqb T_eqb_spec MIN l t). cbv zeta. now rewrite Ev.
    - intros [l [Il [Ev Ht]]]. apply (entry_tags_all T_eqb T_eqb_spec MIN l t) in Ht. cbv zeta in Ht.
      rewrite Ev in Ht. apply in_concat. eauto.
  Qed.

  (** ANY: no tag, or the tag of an optimal candidate of a batch whose value is the overall minimum *)
  Theorem update_concat_tags_any ls :
    (tags (E RANY (concat ls)) = [] /\
     forall l t, In l ls -> ~ In (val (E RANY (concat ls)), Some t) l) \/
    (exists t l, tags (E RANY (concat ls)) = [t] /\ In l ls /\
       val (E RANY l) = val (E RANY (concat ls)) /\ In (val (E RANY l), Some t) l).
  Proof.
    destruct (entry_tags_any T_eqb MIN (concat ls)) as [[Et No]|[t [Et It]]]; cbv zeta in *.
    - left. split; auto. intros l t Il H. apply (No t). apply in_concat. eauto.
    - right. apply in_concat in It as [l [Il Hl]]. exists t, l. split; auto. split; auto.
      pose proof (upd_concat_local RANY ls l _ Il Hl) as Ev. split; auto. now rewrite Ev.
  Qed.
End Concat.

(** * part 2: the loop is one update with the concatenation of the retagged batches *)

(* batch number [j] of the list is offered with the tags [(i + j, _)] *)
Fixpoint retag_all (i : nat) (ls : list (list (ext * option ltree))) : list (list (ext * option ptag)) :=
  match ls with
  | [] => []
  | l :: r => map (retag i) l :: retag_all (S i) r
  end.

Lemma ptag_eqb_spec a b : reflect (a = b) (ptag_eqb a b).
Proof.
  destruct a as [i x], b as [j y]. unfold ptag_eqb. cbn [fst snd].
  destruct (Nat.eqb_spec i j) as [->|N]; cbn [andb]; [|constructor; congruence].
  destruct (SpfsProofs.ltree_eqb_spec x y) as [->|N]; constructor; congruence.
Qed.

Lemma in_retag_all ls : forall i l', In l' (retag_all i ls) <->
  exists j l, nth_error ls j = Some l /\ l' = map (retag (i + j)) l.
Proof.
  induction ls as [|l0 ls IH]; intros i l'; cbn [retag_all In].
  - split; [intros []|]. intros [[|j] [l [H _]]]; discriminate.
  - rewrite IH. split.
    + intros [<-|[j [l [H ->]]]].
      * exists 0, l0. split; [reflexivity|]. now rewrite Nat.add_0_r.
      * exists (S j), l. split; [exact H|]. now rewrite Nat.add_succ_r.
    + intros [[|j] [l [H ->]]].
      * left. cbn [nth_error] in H. inversion H. now rewrite Nat.add_0_r.
      * right. exists j, l. split; [exact H|]. now rewrite Nat.add_succ_r.
Qed.

Lemma in_retag i l v j u : In (v, Some (j, u)) (map (retag i) l) <-> j = i /\ In (v, Some u) l.
Proof.
  rewrite in_map_iff. split.
  - intros [[w [x|]] [E I]]; unfold retag in E; cbn [fst snd option_map] in E; inversion E; subst. auto.
  - intros [-> I]. exists (v, Some u). auto.
Qed.

Lemma retag_tagged i l v ot : In (v, ot) (map (retag i) l) ->
  (forall w o, In (w, o) l -> exists t, o = Some t) -> exists t, ot = Some (i, t).
Proof.
  intros H A. apply in_map_iff in H as [[w o] [E I]]. destruct (A w o I) as [t ->].
  unfold retag in E. cbn [fst snd option_map] in E. inversion E. eauto.
Qed.

Lemma map_fst_retag i l : map fst (map (retag i) l) = map fst l.
Proof. rewrite map_map. apply map_ext. intros [v ot]. reflexivity. Qed.

Lemma val_retag (leqb : ltree -> ltree -> bool) rp i l :
  val (Entry.update ptag_eqb MIN rp (default_entry MIN) (map (retag i) l)) =
  val (Entry.update leqb MIN rp (default_entry MIN) l).
Proof. now rewrite !upd_value, map_fst_retag. Qed.

Lemma map_val_retag_all (leqb : ltree -> ltree -> bool) rp ls : forall i,
  map (fun l => val (Entry.update ptag_eqb MIN rp (default_entry MIN) l)) (retag_all i ls) =
  map (fun l => val (Entry.update leqb MIN rp (default_entry MIN) l)) ls.
Proof.
  induction ls as [|l r IH]; intros i; [reflexivity|].
  cbn [map retag_all]. now rewrite IH, (val_retag leqb).
Qed.

Lemma all_some_cons {A} (x : option A) l :
  Spfs.all_some (x :: l) = match x with Some y => option_map (cons y) (Spfs.all_some l) | None => None end.
Proof. destruct x; reflexivity. Qed.

(** the loop of [Model/Poly.v] (one entry, updated once per binary input) is a single update
    with all the candidates; it raises exactly when some binary input raises *)
Theorem poly_loop_concat {P} (solve : P -> list (option (ext * option ltree))) rp : forall inputs i e,
  poly_loop solve rp i inputs e =
  option_map (fun ls => Entry.update ptag_eqb MIN rp e (concat (retag_all i ls)))
             (Spfs.all_some (map (fun p => Spfs.all_some (solve p)) inputs)).
Proof.
  induction inputs as [|p rest IH]; intros i e; [reflexivity|].
  cbn [poly_loop map]. rewrite all_some_cons. destruct (Spfs.all_some (solve p)) as [l|]; [|reflexivity].
  rewrite IH. destruct (Spfs.all_some _) as [ls|]; [|reflexivity].
  cbn [option_map retag_all concat]. now rewrite update_app.
Qed.

Definition the_list {A} (o : option (list A)) : list A := match o with Some l => l | None => [] end.

Lemma all_some_map_the {P A} (f : P -> option (list A)) inputs :
  (forall p, In p inputs -> exists l, f p = Some l) ->
  Spfs.all_some (map f inputs) = Some (map (fun p => the_list (f p)) inputs).
Proof.
  induction inputs as [|p rest IH]; intros H; [reflexivity|].
  cbn [map]. rewrite all_some_cons. destruct (H p (or_introl eq_refl)) as [l ->].
  rewrite IH by (intros q Hq; apply H; now right). reflexivity.
Qed.

(** * part 3: a family of binary inputs whose solver is exact *)
Section Family.
  Context {P : Type}.
  Variable leqb : ltree -> ltree -> bool.
  Hypothesis leqb_spec : forall x y, reflect (x = y) (leqb x y).
  (* candidates of one binary input, its solutions and their costs *)
  Variable cands : P -> list (ext * option ltree).
  Variables (solp : P -> ltree -> Prop) (costp : P -> ltree -> ext).
  Variable rp : ret.
  Variable inputs : list P.

  Notation E l := (Entry.update leqb MIN rp (default_entry MIN) l).
  Notation EP l := (Entry.update ptag_eqb MIN rp (default_entry MIN) l).
  (* the binary optimum of one input: the value of the entry the binary solver returns *)
  Definition binopt (p : P) : ext := val (E (cands p)).
  Definition family_cands : list (ext * option ptag) := concat (retag_all 0 (map cands inputs)).
  Definition family_entry : entry ptag := EP family_cands.

  (* solutions of the family, optimal ones for one input, and optimal ones over the whole family *)
  Definition gsol (i : nat) (t : ltree) : Prop := exists p, nth_error inputs i = Some p /\ solp p t.
  Definition popt (p : P) (t : ltree) : Prop :=
    solp p t /\ forall t', solp p t' -> ele (costp p t) (costp p t').
  Definition gopt (i : nat) (t : ltree) : Prop :=
    exists p, nth_error inputs i = Some p /\ solp p t /\
      forall j q t', nth_error inputs j = Some q -> solp q t' -> ele (costp p t) (costp q t').

  Hypothesis Hrp : rp <> RNONE.
  Hypothesis HA : forall p w ot, In p inputs -> In (w, ot) (cands p) -> exists t, ot = Some t.
  Hypothesis HB : forall p v t, In p inputs -> In (v, Some t) (cands p) -> solp p t /\ costp p t = v.
  Hypothesis HLB : forall p t, In p inputs -> solp p t -> ele (binopt p) (costp p t).
  Hypothesis HS : forall p t, In p inputs -> solp p t -> cands p <> [].

  Lemma nth_map_cands j l : nth_error (map cands inputs) j = Some l <->
    exists p, nth_error inputs j = Some p /\ l = cands p.
  Proof.
    rewrite nth_error_map. destruct (nth_error inputs j) as [p|]; cbn [option_map].
    - split; [intros [= <-]; eauto|intros [q [[= <-] ->]]; reflexivity].
    - split; [discriminate|intros [q [X _]]; discriminate].
  Qed.

  Lemma in_family_cands v i t : In (v, Some (i, t)) family_cands <->
    exists p, nth_error inputs i = Some p /\ In (v, Some t) (cands p).
  Proof.
    unfold family_cands. rewrite in_concat. split.
    - intros [l' [Il H]]. apply in_retag_all in Il as [j [l [Hn ->]]]. apply in_retag in H as [-> H].
      apply nth_map_cands in Hn as [p [Hp ->]]. eauto.
    - intros [p [Hp H]]. exists (map (retag i) (cands p)). split.
      + apply in_retag_all. exists i, (cands p). split; [apply nth_map_cands; eauto|reflexivity].
      + apply in_retag. auto.
  Qed.

  Lemma family_cands_tagged v ot : In (v, ot) family_cands -> exists i t, ot = Some (i, t).
  Proof.
    unfold family_cands. rewrite in_concat. intros [l' [Il H]].
    apply in_retag_all in Il as [j [l [Hn ->]]]. apply nth_map_cands in Hn as [p [Hp ->]].
    destruct (retag_tagged _ _ _ _ H) as [t ->]; [|eauto].
    intros w o. apply HA. eapply nth_error_In; eauto.
  Qed.

  (** the value: the minimum over the inputs of the binary optimum *)
  Theorem family_value : val family_entry = ext_minl (map binopt inputs).
  Proof.
    unfold family_entry, family_cands. rewrite update_concat_value, (map_val_retag_all leqb), map_map.
    reflexivity.
  Qed.

  Lemma family_le p : In p inputs -> ele (val family_entry) (binopt p).
  Proof. intros H. rewrite family_value. apply ext_minl_le. now apply in_map. Qed.

  (* a candidate achieving the value of the outer entry is optimal over the whole family *)
  Lemma family_best_gopt i t : In (val family_entry, Some (i, t)) family_cands -> gopt i t.
  Proof.
    intros H. apply in_family_cands in H as [p [Hp H]].
    pose proof (nth_error_In _ _ Hp) as Ip. destruct (HB p _ t Ip H) as [Sp Cp].
    exists p. split; auto. split; auto. intros j q t' Hq Sq. rewrite Cp.
    pose proof (nth_error_In _ _ Hq) as Iq.
    eapply ele_trans; [apply (family_le q Iq)|now apply HLB].
  Qed.

  (* conversely an optimum over the family costs exactly the value of the outer entry *)
  Lemma gopt_cost i t : gopt i t -> exists p, nth_error inputs i = Some p /\ solp p t /\
    costp p t = val family_entry /\ binopt p = val family_entry.
  Proof.
    intros [p [Hp [Sp Opt]]]. exists p. split; auto. split; auto.
    pose proof (nth_error_In _ _ Hp) as Ip.
    assert (ele (costp p t) (val family_entry)) as L1.
    { pose proof (upd_in ptag_eqb rp family_cands) as H0. fold family_entry in H0.
      destruct H0 as [H0|H]; [rewrite <- H0; apply ele_PInf|].
      apply in_map_iff in H as [[v ot] [Ev H]]. cbn [fst] in Ev. subst v.
      destruct (family_cands_tagged _ _ H) as [j [x ->]].
      apply in_family_cands in H as [q [Hq H]].
      destruct (HB q _ x (nth_error_In _ _ Hq) H) as [Sq <-]. now apply (Opt j q x). }
    pose proof (family_le p Ip) as L2. pose proof (HLB p t Ip Sp) as L3.
    split; apply ele_antisym; auto; eauto using ele_trans.
  Qed.

  (** ANY: one solution, optimal over the whole family; none only when no input has a solution *)
  Theorem family_any : rp = RANY ->
    (tags family_entry = [] /\ forall i t, ~ gsol i t) \/
    (exists i t, tags family_entry = [(i, t)] /\ gopt i t).
  Proof.
    intros R. pose proof (entry_tags_any ptag_eqb MIN family_cands) as H. cbv zeta in H.
    rewrite <- R in H. fold family_entry in H. destruct H as [[Et No]|[[i t] [Et It]]].
    - left. split; [exact Et|]. intros i t [p [Hp Sp]].
      pose proof (nth_error_In _ _ Hp) as Ip.
      apply (upd_nonempty_tags ptag_eqb ptag_eqb_spec rp family_cands Hrp); auto.
      + intros X. destruct (cands p) as [|[v ot] l] eqn:Ec; [exact (HS p t Ip Sp Ec)|].
        destruct (HA p v ot Ip) as [x ->]; [rewrite Ec; now left|].
        assert (In (v, Some (i, x)) family_cands) as H
          by (apply in_family_cands; exists p; split; auto; rewrite Ec; now left).
        rewrite X in H. destruct H.
      + intros w ot H. destruct (family_cands_tagged _ _ H) as [j [x ->]]. eauto.
    - right. exists i, t. split; [exact Et|]. now apply family_best_gopt.
  Qed.

  (** ALL *)
  Hypothesis HD : forall p t, In p inputs -> solp p t -> costp p t = binopt p -> In (binopt p, Some t) (cands p).

  Theorem family_all_exact : rp = RALL -> forall i t, In (i, t) (tags family_entry) <-> gopt i t.
  Proof.
    intros R i t. unfold family_entry at 1. rewrite R.
    rewrite (entry_tags_all ptag_eqb ptag_eqb_spec MIN family_cands (i, t)). cbv zeta. rewrite <- R.
    fold family_entry. split; [apply family_best_gopt|].
    intros G. destruct (gopt_cost i t G) as [p [Hp [Sp [Ec Eb]]]].
    apply in_family_cands. exists p. split; auto. rewrite <- Eb. apply HD; auto.
    - eapply nth_error_In; eauto.
    - now rewrite Eb.
  Qed.

  (* the same set, described input by input *)
  Theorem gopt_local i t : gopt i t <->
    exists p, nth_error inputs i = Some p /\ popt p t /\ costp p t = ext_minl (map binopt inputs).
  Proof.
    rewrite <- family_value. split.
    - intros G. destruct (gopt_cost i t G) as [p [Hp [Sp [Ec Eb]]]]. exists p. split; auto. split; auto.
      split; auto. intros t' S'. rewrite Ec, <- Eb. apply HLB; auto. eapply nth_error_In; eauto.
    - intros [p [Hp [[Sp _] Ec]]]. exists p. split; auto. split; auto. intros j q t' Hq Sq.
      pose proof (nth_error_In _ _ Hq) as Iq. rewrite Ec.
      eapply ele_trans; [apply (family_le q Iq)|now apply HLB].
  Qed.

  Theorem family_all_nodup : rp = RALL -> NoDup (tags family_entry).
  Proof. intros R. unfold family_entry. rewrite R. apply (entry_tags_all_nodup ptag_eqb ptag_eqb_spec). Qed.
End Family.

(** * part 4: the ordered solver on a family of binary inputs *)

(* the root orders the solver enumerates for one binary input, the candidates it offers *)
Definition orders_of (O : otree) : list (list Recon.fam) := the_list (Spfs.root_orders O).
Definition spfs_cands (c : costs) (rp : ret) (extended : bool) (p : stree * otree) : list (ext * option ltree) :=
  the_list (Spfs.all_some (spfs_solve c rp extended p)).
(* solutions of one binary input and their cost, as in [Proofs/SpfsFinal.v] *)
Definition spfs_solp (extended : bool) (p : stree * otree) (lt : ltree) : Prop :=
  sol (fst p) extended (orders_of (snd p)) (snd p) lt.
Definition spfs_costp (c : costs) (p : stree * otree) (lt : ltree) : ext := cost_of c (snd p) lt.
(* the binary optimum: the value of the entry [spfs] returns on that input *)
Definition spfs_binopt (c : costs) (rp : ret) (extended : bool) (p : stree * otree) : ext :=
  match spfs (fst p) c rp extended (orders_of (snd p)) (snd p) with Some e => val e | None => PInf end.

(* every binary input of the family satisfies the hypothesis of the binary theorems *)
Definition family_wf (inputs : list (stree * otree)) : Prop :=
  forall p, In p inputs -> leaves_wf (fst p) (snd p).

Section SpfsPair.
  Variables (c : costs) (extended : bool) (p : stree * otree).
  Hypothesis Hh : nn (c_hgt c).
  Hypothesis W : leaves_wf (fst p) (snd p).
  Notation Sp := (fst p).
  Notation Op := (snd p).
  Notation EL rp l := (Entry.update Spfs.ltree_eqb MIN rp (default_entry MIN) l).

  Lemma pair_orders : Spfs.root_orders Op = Some (orders_of Op).
  Proof. destruct (root_orders_total Sp Op W) as [orders E]. unfold orders_of. now rewrite E. Qed.

  Lemma pair_orders_ok : orders_ok Sp Op (orders_of Op).
  Proof. exact (proj1 (root_orders_ok Sp Op _ W pair_orders)). Qed.

  Lemma spfs_solve_eq rp : spfs_solve c rp extended p = spfs_candidates Sp c rp extended (orders_of Op) Op.
  Proof. unfold spfs_solve. now rewrite pair_orders. Qed.

  Lemma spfs_cands_spec rp :
    Spfs.all_some (spfs_solve c rp extended p) = Some (spfs_cands c rp extended p) /\
    forall y, In y (spfs_cands c rp extended p) <->
              In (Some y) (spfs_candidates Sp c rp extended (orders_of Op) Op).
  Proof.
    unfold spfs_cands. rewrite spfs_solve_eq.
    destruct (spfs_some Sp c rp extended (orders_of Op) Op Hh pair_orders_ok) as [l [-> Il]]. split; auto.
  Qed.

  (* the entry the binary solver returns on this input *)
  Lemma spfs_binary rp :
    spfs Sp c rp extended (orders_of Op) Op = Some (EL rp (spfs_cands c rp extended p)).
  Proof. unfold spfs. rewrite <- spfs_solve_eq. now rewrite (proj1 (spfs_cands_spec rp)). Qed.

  Lemma spfs_binopt_eq rp :
    spfs_binopt c rp extended p = binopt Spfs.ltree_eqb (spfs_cands c rp extended) rp p.
  Proof. unfold spfs_binopt, binopt. now rewrite spfs_binary. Qed.

  Lemma spfs_HA rp w ot : In (w, ot) (spfs_cands c rp extended p) -> exists t, ot = Some t.
  Proof.
    exact (l_tagged Sp c extended (orders_of Op) Op Hh pair_orders_ok rp _ (proj2 (spfs_cands_spec rp)) w ot).
  Qed.

  Lemma spfs_HB rp v t : In (v, Some t) (spfs_cands c rp extended p) ->
    spfs_solp extended p t /\ spfs_costp c p t = v.
  Proof.
    intros H. apply (proj2 (spfs_cands_spec rp)) in H.
    exact (candidate_sol Sp c extended (orders_of Op) Op Hh pair_orders_ok rp v t H).
  Qed.

  Lemma spfs_HS rp t : rp <> RNONE -> spfs_solp extended p t -> spfs_cands c rp extended p <> [].
  Proof.
    intros Hrp H. destruct (sol_candidate Sp c extended (orders_of Op) Op Hh pair_orders_ok rp Hrp t H) as [x [v I]].
    apply (proj2 (spfs_cands_spec rp)) in I. intros X. rewrite X in I. destruct I.
  Qed.

  Hypothesis Hc : coherent_ord c.

  (* the value the binary solver returns is a lower bound on the cost of every solution *)
  Lemma spfs_HLB rp t : rp <> RNONE -> spfs_solp extended p t ->
    ele (binopt Spfs.ltree_eqb (spfs_cands c rp extended) rp p) (spfs_costp c p t).
  Proof.
    intros Hrp H. unfold spfs_costp. destruct (ext_eqb (cost_of c Op t) PInf) eqn:Ep.
    - apply ext_eqb_eq in Ep. rewrite Ep. apply ele_PInf.
    - assert (cost_of c Op t <> PInf) as NE by (intros X; rewrite X in Ep; discriminate).
      destruct (candidate_below Sp c extended (orders_of Op) Op Hh pair_orders_ok rp Hrp Hc t H NE)
        as [x [Ix [Lx _]]].
      apply (proj2 (spfs_cands_spec rp)) in Ix. eapply ele_trans; [|exact Lx].
      exact (upd_le Spfs.ltree_eqb rp _ _ _ Ix).
  Qed.

  (* ALL: a solution that costs the binary optimum is among the optimal candidates *)
  Lemma spfs_HD t : spfs_solp extended p t ->
    spfs_costp c p t = binopt Spfs.ltree_eqb (spfs_cands c RALL extended) RALL p ->
    In (binopt Spfs.ltree_eqb (spfs_cands c RALL extended) RALL p, Some t) (spfs_cands c RALL extended p).
  Proof.
    intros H Ec. unfold binopt. apply (upd_tags_sound Spfs.ltree_eqb SpfsProofs.ltree_eqb_spec).
    apply (spfs_all_exact Sp c extended (orders_of Op) Op Hh pair_orders_ok Hc _ (spfs_binary RALL) t).
    split; [exact H|]. intros t' H'. fold (spfs_costp c p t). rewrite Ec.
    apply spfs_HLB; [discriminate|exact H'].
  Qed.
End SpfsPair.

Lemma family_run {P} (solve : P -> list (option (ext * option ltree))) rp inputs :
  (forall p, In p inputs -> exists l, Spfs.all_some (solve p) = Some l) ->
  poly_run solve rp inputs = Some (family_entry (fun p => the_list (Spfs.all_some (solve p))) rp inputs).
Proof.
  intros H. unfold poly_run. rewrite poly_loop_concat, (all_some_map_the _ inputs H). reflexivity.
Qed.

Section SpfsFamily.
  Variables (c : costs) (extended : bool) (inputs : list (stree * otree)).
  Hypothesis Hh : nn (c_hgt c).
  Hypothesis Hc : coherent_ord c.
  Hypothesis W : family_wf inputs.

  (* the run does not raise; it returns the entry updated with all the candidates *)
  Theorem spfs_family_run rp :
    spfs_family c rp extended inputs = Some (family_entry (spfs_cands c rp extended) rp inputs).
  Proof.
    unfold spfs_family. apply (family_run (spfs_solve c rp extended) rp inputs).
    intros p Ip. eexists. exact (proj1 (spfs_cands_spec c extended p Hh (W p Ip) rp)).
  Qed.

  Lemma spfs_binopt_map rp :
    map (binopt Spfs.ltree_eqb (spfs_cands c rp extended) rp) inputs = map (spfs_binopt c rp extended) inputs.
  Proof. apply map_ext_in. intros p Ip. symmetry. apply spfs_binopt_eq; auto. Qed.

  (** the value: the minimum over the binary inputs of the value the binary solver returns *)
  Theorem spfs_family_value rp e : spfs_family c rp extended inputs = Some e ->
    val e = ext_minl (map (spfs_binopt c rp extended) inputs).
  Proof.
    rewrite spfs_family_run. intros [= <-]. rewrite <- spfs_binopt_map. apply family_value.
  Qed.

  (** ALL: exactly the pairs (input, solution) of minimum cost over all inputs and all their solutions *)
  Theorem spfs_family_all_exact e : spfs_family c RALL extended inputs = Some e ->
    NoDup (tags e) /\
    forall i lt, In (i, lt) (tags e) <-> gopt (spfs_solp extended) (spfs_costp c) inputs i lt.
  Proof.
    rewrite spfs_family_run. intros [= <-]. split; [now apply family_all_nodup|]. intros i lt.
    apply (family_all_exact Spfs.ltree_eqb (spfs_cands c RALL extended) (spfs_solp extended) (spfs_costp c) RALL inputs);
      auto.
    - intros p w ot Ip. now apply spfs_HA; auto.
    - intros p v t Ip. now apply spfs_HB; auto.
    - intros p t Ip. apply spfs_HLB; auto. discriminate.
    - intros p t Ip. now apply spfs_HD; auto.
  Qed.

  (** the same set input by input: the solution is optimal for its own binary input (in the sense
      of [spfs_all_exact]) and its cost is the minimum over the inputs of the binary optimum *)
  Theorem spfs_family_all_local e : spfs_family c RALL extended inputs = Some e ->
    forall i lt, In (i, lt) (tags e) <->
      exists p, nth_error inputs i = Some p /\
        optimal_sol (fst p) c extended (orders_of (snd p)) (snd p) lt /\
        cost_of c (snd p) lt = ext_minl (map (spfs_binopt c RALL extended) inputs).
  Proof.
    intros He i lt. rewrite (proj2 (spfs_family_all_exact e He) i lt), <- spfs_binopt_map.
    apply (gopt_local Spfs.ltree_eqb (spfs_cands c RALL extended) (spfs_solp extended) (spfs_costp c) RALL inputs).
    - intros p w ot Ip. now apply spfs_HA; auto.
    - intros p v t Ip. now apply spfs_HB; auto.
    - intros p t Ip. apply spfs_HLB; auto. discriminate.
  Qed.

  (** ANY: one such pair; nothing only when no binary input has a solution *)
  Theorem spfs_family_any : exists e, spfs_family c RANY extended inputs = Some e /\
    ((tags e = [] /\ forall i lt, ~ gsol (spfs_solp extended) inputs i lt) \/
     (exists i lt, tags e = [(i, lt)] /\ gopt (spfs_solp extended) (spfs_costp c) inputs i lt)).
  Proof.
    eexists. split; [apply spfs_family_run|].
    assert (RANY <> RNONE) as N by discriminate.
    apply (family_any Spfs.ltree_eqb (spfs_cands c RANY extended) (spfs_solp extended) (spfs_costp c) RANY inputs);
      auto.
    - intros p w ot Ip. now apply spfs_HA; auto.
    - intros p v t Ip. now apply spfs_HB; auto.
    - intros p t Ip. apply spfs_HLB; auto.
    - intros p t Ip. apply spfs_HS; auto.
  Qed.
End SpfsFamily.

(** * part 5: the unordered solver on a family of binary inputs *)
Definition uspfs_pcands (c : costs) (rp : ret) (extended : bool) (p : stree * otree) : list (ext * option ltree) :=
  the_list (Spfs.all_some (uspfs_solve c rp extended p)).
(* canonical solutions of one binary input and their cost, as in [Proofs/UspfsFinal.v] *)
Definition uspfs_solp (extended : bool) (p : stree * otree) (t : ltree) : Prop := usol (fst p) extended (snd p) t.
Definition uspfs_costp (c : costs) (p : stree * otree) (t : ltree) : ext := ucost c (snd p) t.
Definition uspfs_binopt (c : costs) (rp : ret) (extended : bool) (p : stree * otree) : ext :=
  match uspfs (fst p) c rp extended (snd p) with Some e => val e | None => PInf end.

Definition ufamily_wf (inputs : list (stree * otree)) : Prop :=
  forall p, In p inputs -> leaves_ok (fst p) (snd p).

Lemma all_some_map_Some {A} (l : list A) : Spfs.all_some (map (fun x => Some x) l) = Some l.
Proof. induction l as [|x l IH]; [reflexivity|]. cbn [map Spfs.all_some]. now rewrite IH. Qed.

Section UspfsPair.
  Variables (c : costs) (extended : bool) (p : stree * otree).
  Hypothesis Hh : nn (c_hgt c).
  Hypothesis L : leaves_ok (fst p) (snd p).
  Notation Sp := (fst p).
  Notation Op := (snd p).
  Notation EL rp l := (Entry.update Uspfs.ltree_eqb MIN rp (default_entry MIN) l).

  Lemma uspfs_solve_some rp :
    Spfs.all_some (uspfs_solve c rp extended p) = Some (uspfs_cands Sp c rp extended Op).
  Proof. unfold uspfs_solve. rewrite (uspfs_candidates_eq Sp c rp extended Op Hh L). apply all_some_map_Some. Qed.

  Lemma uspfs_pcands_eq rp : uspfs_pcands c rp extended p = uspfs_cands Sp c rp extended Op.
  Proof. unfold uspfs_pcands. now rewrite uspfs_solve_some. Qed.

  Lemma uspfs_binopt_eq rp :
    uspfs_binopt c rp extended p = binopt Uspfs.ltree_eqb (uspfs_pcands c rp extended) rp p.
  Proof.
    unfold uspfs_binopt, binopt. now rewrite (uspfs_some Sp c rp extended Op Hh L), uspfs_pcands_eq.
  Qed.

  Lemma uspfs_HA rp w ot : In (w, ot) (uspfs_pcands c rp extended p) -> exists t, ot = Some t.
  Proof. rewrite uspfs_pcands_eq. apply uspfs_cands_some. Qed.

  Hypothesis Hc : ucoherent c.

  Lemma uspfs_HB rp v t : rp <> RNONE -> In (v, Some t) (uspfs_pcands c rp extended p) ->
    uspfs_solp extended p t /\ uspfs_costp c p t = v.
  Proof.
    intros Hrp. rewrite uspfs_pcands_eq. intros H. apply in_uspfs_cands in H as [s [_ [D ->]]].
    split; [|reflexivity]. exact (proj1 (dec_sol Sp c extended Op Hh Hc L rp Hrp s t D)).
  Qed.

  Lemma uspfs_finite rp : rp <> RNONE -> binopt Uspfs.ltree_eqb (uspfs_pcands c rp extended) rp p <> PInf.
  Proof.
    intros Hrp. unfold binopt. rewrite uspfs_pcands_eq.
    exact (uentry_value_finite Sp c extended Op Hh Hc L rp Hrp).
  Qed.

  Lemma uspfs_HS rp : rp <> RNONE -> uspfs_pcands c rp extended p <> [].
  Proof.
    intros Hrp X. apply (uspfs_finite rp Hrp). unfold binopt. rewrite X. reflexivity.
  Qed.

  Lemma uspfs_HLB rp t : rp <> RNONE -> uspfs_solp extended p t ->
    ele (binopt Uspfs.ltree_eqb (uspfs_pcands c rp extended) rp p) (uspfs_costp c p t).
  Proof.
    intros Hrp H. unfold uspfs_costp. destruct (ext_eqb (ucost c Op t) PInf) eqn:Ep.
    - apply ext_eqb_eq in Ep. rewrite Ep. apply ele_PInf.
    - assert (ucost c Op t <> PInf) as NE by (intros X; rewrite X in Ep; discriminate).
      destruct (ucandidate_below Sp c extended Op Hh Hc L rp Hrp t H NE) as [x [Ix Lx]].
      eapply ele_trans; [|exact Lx]. unfold binopt. rewrite uspfs_pcands_eq.
      exact (upd_le Uspfs.ltree_eqb rp _ _ _ Ix).
  Qed.

  Lemma uspfs_HD t : uspfs_solp extended p t ->
    uspfs_costp c p t = binopt Uspfs.ltree_eqb (uspfs_pcands c RALL extended) RALL p ->
    In (binopt Uspfs.ltree_eqb (uspfs_pcands c RALL extended) RALL p, Some t) (uspfs_pcands c RALL extended p).
  Proof.
    intros H Ec. unfold binopt. apply (upd_tags_sound Uspfs.ltree_eqb UspfsProofs.ltree_eqb_spec).
    destruct (uspfs_all_exact Sp c extended Op Hh Hc L) as [E [EE [_ Ex]]].
    rewrite (uspfs_some Sp c RALL extended Op Hh L) in EE. injection EE as <-.
    rewrite uspfs_pcands_eq. apply Ex. split; [exact H|]. intros t' H'.
    fold (uspfs_costp c p t). rewrite Ec. apply uspfs_HLB; [discriminate|exact H'].
  Qed.
End UspfsPair.

Section UspfsFamily.
  Variables (c : costs) (extended : bool) (inputs : list (stree * otree)).
  Hypothesis Hh : nn (c_hgt c).
  Hypothesis Hc : ucoherent c.
  Hypothesis W : ufamily_wf inputs.

  Theorem uspfs_family_run rp :
    uspfs_family c rp extended inputs = Some (family_entry (uspfs_pcands c rp extended) rp inputs).
  Proof.
    unfold uspfs_family. apply (family_run (uspfs_solve c rp extended) rp inputs).
    intros p Ip. eexists. exact (uspfs_solve_some c extended p Hh (W p Ip) rp).
  Qed.

  Lemma uspfs_binopt_map rp :
    map (binopt Uspfs.ltree_eqb (uspfs_pcands c rp extended) rp) inputs = map (uspfs_binopt c rp extended) inputs.
  Proof. apply map_ext_in. intros p Ip. symmetry. apply uspfs_binopt_eq; auto. Qed.

  (** the value: the minimum over the binary inputs of the value the binary solver returns *)
  Theorem uspfs_family_value rp e : uspfs_family c rp extended inputs = Some e ->
    val e = ext_minl (map (uspfs_binopt c rp extended) inputs).
  Proof.
    rewrite uspfs_family_run. intros [= <-]. rewrite <- uspfs_binopt_map. apply family_value.
  Qed.

  (** ALL: exactly the pairs (input, canonical solution) of minimum cost over all inputs *)
  Theorem uspfs_family_all_exact e : uspfs_family c RALL extended inputs = Some e ->
    NoDup (tags e) /\
    forall i t, In (i, t) (tags e) <-> gopt (uspfs_solp extended) (uspfs_costp c) inputs i t.
  Proof.
    rewrite uspfs_family_run. intros [= <-]. split; [now apply family_all_nodup|]. intros i t.
    assert (RALL <> RNONE) as N by discriminate.
    apply (family_all_exact Uspfs.ltree_eqb (uspfs_pcands c RALL extended) (uspfs_solp extended) (uspfs_costp c)
             RALL inputs); auto.
    - intros p w ot Ip. now apply uspfs_HA; auto.
    - intros p v x Ip. now apply uspfs_HB; auto.
    - intros p x Ip. now apply uspfs_HLB; auto.
    - intros p x Ip. now apply uspfs_HD; auto.
  Qed.

  Theorem uspfs_family_all_local e : uspfs_family c RALL extended inputs = Some e ->
    forall i t, In (i, t) (tags e) <->
      exists p, nth_error inputs i = Some p /\ uoptimal (fst p) c extended (snd p) t /\
        ucost c (snd p) t = ext_minl (map (uspfs_binopt c RALL extended) inputs).
  Proof.
    intros He i t. rewrite (proj2 (uspfs_family_all_exact e He) i t), <- uspfs_binopt_map.
    assert (RALL <> RNONE) as N by discriminate.
    apply (gopt_local Uspfs.ltree_eqb (uspfs_pcands c RALL extended) (uspfs_solp extended) (uspfs_costp c) RALL inputs).
    - intros p w ot Ip. now apply uspfs_HA; auto.
    - intros p v x Ip. now apply uspfs_HB; auto.
    - intros p x Ip. now apply uspfs_HLB; auto.
  Qed.

  (** ANY: exactly one such pair as soon as there is a binary input *)
  Theorem uspfs_family_any : inputs <> [] -> exists e i t, uspfs_family c RANY extended inputs = Some e /\
    tags e = [(i, t)] /\ gopt (uspfs_solp extended) (uspfs_costp c) inputs i t.
  Proof.
    intros NE. assert (RANY <> RNONE) as N by discriminate.
    destruct (family_any Uspfs.ltree_eqb (uspfs_pcands c RANY extended) (uspfs_solp extended) (uspfs_costp c)
                RANY inputs N) as [[_ No]|[i [t [Et G]]]]; auto.
    - intros p w ot Ip. now apply uspfs_HA; auto.
    - intros p v x Ip. now apply uspfs_HB; auto.
    - intros p x Ip. now apply uspfs_HLB; auto.
    - intros p x Ip _. now apply uspfs_HS; auto.
    - exfalso. destruct (nonempty_in inputs NE) as [p Ip].
      destruct (ufinite_sol_exists (fst p) c extended (snd p) (W p Ip)) as [t [z [St _]]].
      destruct (In_nth_error inputs p Ip) as [i Hi].
      apply (No i t). exists p. split; [exact Hi|exact St].
    - eexists. exists i, t. split; [apply uspfs_family_run|]. auto.
  Qed.

  (** the value against ALL valid labellings of all inputs ([superdtl_optimum], input by input) *)
  Theorem uspfs_family_optimum rp e : rp <> RNONE -> uspfs_family c rp extended inputs = Some e ->
    (forall p t, In p inputs -> uall_sol (fst p) extended (snd p) t -> ele (val e) (ucost c (snd p) t)) /\
    (inputs <> [] -> exists p t, In p inputs /\ uall_sol (fst p) extended (snd p) t /\ val e = ucost c (snd p) t).
  Proof.
    intros Hrp He. rewrite (uspfs_family_value rp e He).
    assert (forall p, In p inputs -> exists E, uspfs (fst p) c rp extended (snd p) = Some E /\
              uspfs_binopt c rp extended p = val E) as HE.
    { intros p Ip. unfold uspfs_binopt. rewrite (uspfs_some (fst p) c rp extended (snd p) Hh (W p Ip)). eauto. }
    split.
    - intros p t Ip Ht. destruct (HE p Ip) as [E [EE Ev]].
      eapply ele_trans; [apply ext_minl_le; apply in_map; exact Ip|]. rewrite Ev.
      exact (proj2 (superdtl_optimum (fst p) c rp extended (snd p) E Hh Hc (W p Ip) Hrp EE) t Ht).
    - intros NE. destruct (ext_minl_in (map (uspfs_binopt c rp extended) inputs)) as [X|I].
      + exfalso. destruct (nonempty_in inputs NE) as [p Ip].
        pose proof (ext_minl_le _ _ (in_map (uspfs_binopt c rp extended) _ _ Ip)) as Le.
        rewrite <- X in Le. apply ele_PInf_eq in Le.
        rewrite (uspfs_binopt_eq c extended p Hh (W p Ip) rp) in Le.
        exact (uspfs_finite c extended p Hh (W p Ip) Hc rp Hrp Le).
      + apply in_map_iff in I as [p [Ev Ip]]. destruct (HE p Ip) as [E [EE Ev']].
        destruct (proj1 (superdtl_optimum (fst p) c rp extended (snd p) E Hh Hc (W p Ip) Hrp EE)) as [t [Ht Et]].
        exists p, t. split; auto. split; auto. now rewrite <- Ev, Ev'.
  Qed.
End UspfsFamily.

(** * part 6: from the rose trees to the family of binary inputs *)

Lemma lab_eqb_refl lb : lab_eqb lb lb = true.
Proof. destruct lb as [n|]; cbn [lab_eqb]; [apply Nat.eqb_refl|reflexivity]. Qed.

(* a name that is found addresses a node of the species tree *)
Lemma find_name_valid n : forall b p, find_name n b = Some p -> valid_sp (bt_stree b) p = true.
Proof.
  induction b as [lb|lb l IHl r IHr]; intros p; cbn [find_name bt_stree].
  - destruct (lab_eqb lb (Some n)); [intros [= <-]; reflexivity|discriminate].
  - destruct (lab_eqb lb (Some n)); [intros [= <-]; reflexivity|].
    destruct (find_name n l) as [q|] eqn:El.
    + intros [= <-]. cbn [valid_sp]. now apply IHl.
    + destruct (find_name n r) as [q|] eqn:Er; cbn [option_map]; [|discriminate].
      intros [= <-]. cbn [valid_sp]. now apply IHr.
Qed.

(* the name of any node of the tree is found *)
Lemma find_name_some n b' b : bsub b' b -> blabel b' = Some n -> exists p, find_name n b = Some p.
Proof.
  intros H Hl. induction H as [b|s lb l r H IH|s lb l r H IH].
  - destruct b as [lb|lb l r]; cbn [blabel] in Hl; subst lb; cbn [find_name]; rewrite lab_eqb_refl; eauto.
  - cbn [find_name]. destruct (lab_eqb lb (Some n)); [eauto|].
    destruct (IH Hl) as [p ->]. eauto.
  - cbn [find_name]. destruct (lab_eqb lb (Some n)); [eauto|].
    destruct (find_name n l); [eauto|]. destruct (IH Hl) as [p ->]. cbn [option_map]. eauto.
Qed.

Fixpoint oforall (R : path -> list Recon.fam -> Prop) (O : otree) : Prop :=
  match O with
  | OLeaf sp syn => R sp syn
  | ONode a b => oforall R a /\ oforall R b
  end.

Lemma oforall_wf S O : oforall (fun sp syn => valid_sp S sp = true /\ syn <> []) O -> leaves_wf S O.
Proof. induction O as [sp syn|a IHa b IHb]; cbn [oforall leaves_wf]; tauto. Qed.

Lemma oforall_ok (Q : list Recon.fam -> Prop) S O :
  oforall (fun sp syn => valid_sp S sp = true /\ Q syn) O -> leaves_ok S O.
Proof. induction O as [sp syn|a IHa b IHb]; cbn [oforall leaves_ok]; tauto. Qed.

(* what the data must provide for an object leaf, relative to a binary species tree:
   a name, an entry of the table with an acceptable synteny, a species that is found *)
Definition leaf_good (Q : list Recon.fam -> Prop) (ld : leafdata) (sb : bt) (lb : lab) : Prop :=
  exists i spn syn p, lb = Some i /\ ld_lookup ld i = Some (spn, syn) /\ Q syn /\ find_name spn sb = Some p.

Lemma bt_otree_ok Q ld sb : forall ob, (forall lb, In lb (bleaves ob) -> leaf_good Q ld sb lb) ->
  exists O, bt_otree ld sb ob = Some O /\
            oforall (fun sp syn => valid_sp (bt_stree sb) sp = true /\ Q syn) O.
Proof.
  induction ob as [lb|lb l IHl r IHr]; intros H.
  - destruct (H lb (or_introl eq_refl)) as [i [spn [syn [p [-> [El [Hq Ef]]]]]]].
    cbn [bt_otree]. rewrite El, Ef. eexists. split; [reflexivity|]. cbn [oforall]. split; auto.
    eapply find_name_valid; eauto.
  - cbn [bleaves] in H.
    destruct IHl as [A [Ea Ha]]; [intros x Hx; apply H, in_or_app; now left|].
    destruct IHr as [B [Eb Hb]]; [intros x Hx; apply H, in_or_app; now right|].
    cbn [bt_otree]. rewrite Ea, Eb. eexists. split; [reflexivity|]. cbn [oforall]. auto.
Qed.

(** well-formed input data: every internal node has at least two children; every object leaf is
    named, has an entry in the table with an acceptable synteny, and its species is the name of
    a node of the species tree *)
Definition poly_wf (Q : list Recon.fam -> Prop) (ld : leafdata) (o s : rose) : Prop :=
  arity_ok o = true /\ arity_ok s = true /\
  forall lb, In lb (rleaves o) ->
    exists i spn syn sub, lb = Some i /\ ld_lookup ld i = Some (spn, syn) /\ Q syn /\
                          rsub sub s /\ rlabel sub = Some spn.

Lemma in_input_binarize o s ob sb :
  In (ob, sb) (input_binarize o s) <-> In ob (binarize o) /\ In sb (binarize s).
Proof. rewrite input_binarize_product. apply in_prod_iff. Qed.

(* every refinement pair converts, and the binary input is well formed *)
Lemma pair_input_ok Q ld o s pr : poly_wf Q ld o s -> In pr (input_binarize o s) ->
  exists inp, pair_input ld pr = Some inp /\
    oforall (fun sp syn => valid_sp (fst inp) sp = true /\ Q syn) (snd inp).
Proof.
  intros [Ao [As Hl]] H. destruct pr as [ob sb]. apply in_input_binarize in H as [Ho Hs].
  destruct (binarize_sound o ob Ao Ho) as [_ [Po _]].
  destruct (binarize_sound s sb As Hs) as [_ [_ Cs]].
  destruct (bt_otree_ok Q ld sb ob) as [O [EO HO]].
  - intros lb Hlb. apply (Permutation_in _ Po) in Hlb.
    destruct (Hl lb Hlb) as [i [spn [syn [sub [-> [El [Hq [Hsub Hn]]]]]]]].
    destruct (Cs sub Hsub) as [b' [Hb' [_ Lb']]]. rewrite Hn in Lb'.
    destruct (find_name_some spn b' sb Hb' Lb') as [p Hp].
    exists i, spn, syn, p. auto.
  - exists (bt_stree sb, O). unfold pair_input. cbn [fst snd]. rewrite EO. split; [reflexivity|exact HO].
Qed.

Lemma all_some_total {A B} (f : A -> option B) l : (forall x, In x l -> exists y, f x = Some y) ->
  exists ys, Spfs.all_some (map f l) = Some ys /\ Forall2 (fun x y => f x = Some y) l ys.
Proof.
  induction l as [|x l IH]; intros H.
  - exists []. split; [reflexivity|constructor].
  - destruct (H x (or_introl eq_refl)) as [y Ey].
    destruct IH as [ys [E F]]; [intros z Hz; apply H; now right|].
    exists (y :: ys). split; [cbn [map]; rewrite all_some_cons, Ey, E; reflexivity|now constructor].
Qed.

Lemma Forall2_nth_r {A B} (R : A -> B -> Prop) l ys : Forall2 R l ys ->
  forall i y, nth_error ys i = Some y -> exists x, nth_error l i = Some x /\ R x y.
Proof.
  induction 1 as [|x y0 l ys Hxy F IH]; intros [|i] y; cbn [nth_error]; try discriminate.
  - intros [= <-]. eauto.
  - apply IH.
Qed.

Lemma Forall2_nth_l {A B} (R : A -> B -> Prop) l ys : Forall2 R l ys ->
  forall i x, nth_error l i = Some x -> exists y, nth_error ys i = Some y /\ R x y.
Proof.
  induction 1 as [|x0 y l ys Hxy F IH]; intros [|i] x; cbn [nth_error]; try discriminate.
  - intros [= <-]. eauto.
  - apply IH.
Qed.

(* the binary inputs of the loop: one per refinement pair, in order, all well formed *)
Lemma poly_inputs_ok Q ld o s : poly_wf Q ld o s ->
  exists inputs, Spfs.all_some (poly_inputs ld o s) = Some inputs /\
    Forall2 (fun pr inp => pair_input ld pr = Some inp) (input_binarize o s) inputs /\
    forall p, In p inputs -> oforall (fun sp syn => valid_sp (fst p) sp = true /\ Q syn) (snd p).
Proof.
  intros W. destruct (all_some_total (pair_input ld) (input_binarize o s)) as [inputs [E F]].
  - intros pr Hpr. destruct (pair_input_ok Q ld o s pr W Hpr) as [inp [Ei _]]. eauto.
  - exists inputs. split; [exact E|]. split; [exact F|]. intros p Hp.
    destruct (In_nth_error _ _ Hp) as [i Hi]. destruct (Forall2_nth_r _ _ _ F i p Hi) as [pr [Hpr Ep]].
    destruct (pair_input_ok Q ld o s pr W (nth_error_In _ _ Hpr)) as [inp [Ei Hq]].
    rewrite Ep in Ei. injection Ei as <-. exact Hq.
Qed.

(** the [i]-th binary input is the conversion of the [i]-th refinement pair, which is a pair of
    binary refinements of the two trees *)
Definition refinement_input (ld : leafdata) (o s : rose) (i : nat) (p : stree * otree) : Prop :=
  exists ob sb, nth_error (input_binarize o s) i = Some (ob, sb) /\
    refines o ob /\ refines s sb /\ pair_input ld (ob, sb) = Some p.

Lemma refinement_input_iff ld o s inputs :
  Forall2 (fun pr inp => pair_input ld pr = Some inp) (input_binarize o s) inputs ->
  forall i p, nth_error inputs i = Some p <-> refinement_input ld o s i p.
Proof.
  intros F i p. split.
  - intros Hi. destruct (Forall2_nth_r _ _ _ F i p Hi) as [[ob sb] [Hpr Ep]].
    exists ob, sb. split; [exact Hpr|].
    apply nth_error_In, in_input_binarize in Hpr as [Ho Hs].
    split; [now apply binarize_refines|]. split; [now apply binarize_refines|exact Ep].
  - intros [ob [sb [Hpr [_ [_ Ep]]]]]. destruct (Forall2_nth_l _ _ _ F i _ Hpr) as [y [Hy Ey]].
    rewrite Ep in Ey. now injection Ey as <-.
Qed.

(* every pair of binary refinements of the two trees is enumerated, up to the order of children *)
Theorem refinement_pairs_complete o s ob' sb' : refines o ob' -> refines s sb' ->
  exists j ob sb, nth_error (input_binarize o s) j = Some (ob, sb) /\ beqv ob' ob /\ beqv sb' sb.
Proof.
  intros Ro Rs. destruct (refines_complete o ob' Ro) as [ob [Io Bo]].
  destruct (refines_complete s sb' Rs) as [sb [Is Bs]].
  destruct (In_nth_error (input_binarize o s) (ob, sb)) as [j Hj]; [now apply in_input_binarize|].
  exists j, ob, sb. auto.
Qed.

(** ** the binary input keeps the original leaf data *)
Fixpoint oleaves (O : otree) : list (path * list Recon.fam) :=
  match O with
  | OLeaf sp syn => [(sp, syn)]
  | ONode a b => oleaves a ++ oleaves b
  end.

Fixpoint bt_at (b : bt) (p : path) : option bt :=
  match p, b with
  | [], _ => Some b
  | false :: q, BNode _ l _ => bt_at l q
  | true :: q, BNode _ _ r => bt_at r q
  | _ :: _, BLeaf _ => None
  end.

(* the path that is found addresses a node bearing the name *)
Lemma find_name_at n : forall b p, find_name n b = Some p ->
  exists b', bt_at b p = Some b' /\ blabel b' = Some n.
Proof.
  induction b as [lb|lb l IHl r IHr]; intros p; cbn [find_name].
  - destruct (lab_eqb lb (Some n)) eqn:E; [|discriminate]. intros [= <-]. apply lab_eqb_eq in E.
    exists (BLeaf lb). split; [reflexivity|exact E].
  - destruct (lab_eqb lb (Some n)) eqn:E.
    + intros [= <-]. apply lab_eqb_eq in E. exists (BNode lb l r). split; [reflexivity|exact E].
    + destruct (find_name n l) as [q|] eqn:El.
      * intros [= <-]. cbn [bt_at]. now apply IHl.
      * destruct (find_name n r) as [q|] eqn:Er; cbn [option_map]; [|discriminate].
        intros [= <-]. cbn [bt_at]. now apply IHr.
Qed.

(* leaf by leaf, left to right: the object leaf named [i] sits on the node of the species
   refinement that bears the species name given by the table, with the synteny of the table *)
Theorem bt_otree_leaves ld sb : forall ob O, bt_otree ld sb ob = Some O ->
  Forall2 (fun lb leaf => exists i spn b',
             lb = Some i /\ ld_lookup ld i = Some (spn, snd leaf) /\
             bt_at sb (fst leaf) = Some b' /\ blabel b' = Some spn)
          (bleaves ob) (oleaves O).
Proof.
  induction ob as [lb|lb l IHl r IHr]; intros O; cbn [bt_otree bleaves].
  - destruct lb as [i|]; [|discriminate]. destruct (ld_lookup ld i) as [[spn syn]|] eqn:El; [|discriminate].
    destruct (find_name spn sb) as [p|] eqn:Ef; [|discriminate]. intros [= <-]. cbn [oleaves].
    constructor; [|constructor]. destruct (find_name_at spn sb p Ef) as [b' [Hb Lb]].
    exists i, spn, b'. cbn [fst snd]. auto.
  - destruct (bt_otree ld sb l) as [A|]; [|discriminate]. destruct (bt_otree ld sb r) as [B|]; [|discriminate].
    intros [= <-]. cbn [oleaves]. apply Forall2_app; [now apply IHl|now apply IHr].
Qed.

(** * part 7: the end-to-end clause of C08 *)

Definition nonempty_syn (syn : list Recon.fam) : Prop := syn <> [].
Definition any_syn (syn : list Recon.fam) : Prop := True.

(* optimal over all refinement pairs and all their solutions *)
Definition ropt (ld : leafdata) (o s : rose) (solp : stree * otree -> ltree -> Prop)
    (costp : stree * otree -> ltree -> ext) (i : nat) (t : ltree) : Prop :=
  exists p, refinement_input ld o s i p /\ solp p t /\
    forall j q t', refinement_input ld o s j q -> solp q t' -> ele (costp p t) (costp q t').

Lemma gopt_ropt ld o s inputs solp costp :
  (forall i p, nth_error inputs i = Some p <-> refinement_input ld o s i p) ->
  forall i t, gopt solp costp inputs i t <-> ropt ld o s solp costp i t.
Proof.
  intros R i t. unfold gopt, ropt. split; intros [p [Hp [Sp Opt]]]; exists p.
  - split; [now apply R|]. split; auto. intros j q t' Hq. apply (Opt j). now apply R.
  - split; [now apply R|]. split; auto. intros j q t' Hq. apply (Opt j). now apply R.
Qed.

(* the binary optimum of a refinement pair ([PInf] if the pair did not convert) *)
Definition pair_opt (ld : leafdata) (binopt : stree * otree -> ext) (pr : bt * bt) : ext :=
  match pair_input ld pr with Some p => binopt p | None => PInf end.

Lemma pair_opt_map ld (binopt : stree * otree -> ext) prs inputs :
  Forall2 (fun pr inp => pair_input ld pr = Some inp) prs inputs ->
  map binopt inputs = map (pair_opt ld binopt) prs.
Proof.
  induction 1 as [|pr inp prs inputs E F IH]; [reflexivity|].
  cbn [map]. rewrite IH. f_equal. unfold pair_opt. now rewrite E.
Qed.

Lemma wf_family (Q : list Recon.fam -> Prop) (inputs : list (stree * otree)) :
  (forall p, In p inputs -> oforall (fun sp syn => valid_sp (fst p) sp = true /\ Q syn) (snd p)) ->
  ufamily_wf inputs.
Proof. intros H p Ip. eapply oforall_ok. exact (H p Ip). Qed.

(** ** the extended ordered solver *)
Section SpfsPoly.
  Variables (c : costs) (ld : leafdata) (o s : rose).
  Hypothesis Hh : nn (c_hgt c).
  Hypothesis Hc : coherent_ord c.
  Hypothesis W : poly_wf nonempty_syn ld o s.

  (** ALL.  The run does not raise.  Its tags are exactly the pairs (index of a refinement pair,
      solution) of minimum cost over all refinement pairs and all their solutions, each once;
      equivalently the solution is optimal for its own pair (the result of [spfs_all_exact] on
      that pair) and costs the value of the entry; the value is the minimum over the
      refinement pairs of the binary optimum. *)
  Theorem ext_optimum_refinements :
    exists e, spfs_poly c RALL ld o s = Some e /\ NoDup (tags e) /\
      (forall i lt, In (i, lt) (tags e) <-> ropt ld o s (spfs_solp true) (spfs_costp c) i lt) /\
      (forall i lt, In (i, lt) (tags e) <->
         exists p, refinement_input ld o s i p /\
           optimal_sol (fst p) c true (orders_of (snd p)) (snd p) lt /\ cost_of c (snd p) lt = val e) /\
      val e = ext_minl (map (pair_opt ld (spfs_binopt c RALL true)) (input_binarize o s)).
  Proof.
    destruct (poly_inputs_ok nonempty_syn ld o s W) as [inputs [Ei [F Hw]]].
    assert (family_wf inputs) as Wf by (intros p Ip; apply oforall_wf; exact (Hw p Ip)).
    pose proof (refinement_input_iff ld o s inputs F) as R.
    unfold spfs_poly. rewrite Ei.
    pose proof (spfs_family_run c true inputs Hh Wf RALL) as He.
    eexists. split; [exact He|].
    destruct (spfs_family_all_exact c true inputs Hh Hc Wf _ He) as [ND Ex].
    pose proof (spfs_family_value c true inputs Hh Wf RALL _ He) as Ev.
    split; [exact ND|]. split; [|split].
    - intros i lt. rewrite (Ex i lt). now apply gopt_ropt.
    - intros i lt. rewrite (spfs_family_all_local c true inputs Hh Hc Wf _ He i lt), <- Ev.
      split; intros [p [Hp Rest]]; exists p; (split; [now apply R|exact Rest]).
    - rewrite Ev. f_equal. now apply pair_opt_map.
  Qed.

  (** ANY: one such pair; nothing only when no refinement pair has a solution *)
  Theorem ext_optimum_refinements_any :
    exists e, spfs_poly c RANY ld o s = Some e /\
      ((tags e = [] /\ forall i p lt, refinement_input ld o s i p -> ~ spfs_solp true p lt) \/
       (exists i lt, tags e = [(i, lt)] /\ ropt ld o s (spfs_solp true) (spfs_costp c) i lt)).
  Proof.
    destruct (poly_inputs_ok nonempty_syn ld o s W) as [inputs [Ei [F Hw]]].
    assert (family_wf inputs) as Wf by (intros p Ip; apply oforall_wf; exact (Hw p Ip)).
    pose proof (refinement_input_iff ld o s inputs F) as R.
    unfold spfs_poly. rewrite Ei.
    destruct (spfs_family_any c true inputs Hh Hc Wf) as [e [He [[Et No]|[i [lt [Et G]]]]]];
      exists e; (split; [exact He|]).
    - left. split; [exact Et|]. intros i p lt Hp Sp. apply (No i lt). exists p. split; [now apply R|exact Sp].
    - right. exists i, lt. split; [exact Et|]. now apply (gopt_ropt ld o s inputs).
  Qed.

  (* what a returned tag refers to: a pair of binary refinements, enumerated at that index *)
  Theorem ext_solutions_refer_to_refinements rp e i lt :
    spfs_poly c rp ld o s = Some e -> In (i, lt) (tags e) ->
    exists ob sb p, tag_pair o s (i, lt) = Some (ob, sb) /\ refines o ob /\ refines s sb /\
      pair_input ld (ob, sb) = Some p /\ spfs_solp true p lt /\ spfs_costp c p lt = val e.
  Proof.
    destruct (poly_inputs_ok nonempty_syn ld o s W) as [inputs [Ei [F Hw]]].
    assert (family_wf inputs) as Wf by (intros p Ip; apply oforall_wf; exact (Hw p Ip)).
    pose proof (refinement_input_iff ld o s inputs F) as R.
    unfold spfs_poly. rewrite Ei, (spfs_family_run c true inputs Hh Wf rp). intros [= <-] Ht.
    apply (upd_tags_sound ptag_eqb ptag_eqb_spec) in Ht. apply in_family_cands in Ht as [p [Hp Hc']].
    pose proof (nth_error_In _ _ Hp) as Ip.
    destruct (spfs_HB c true p Hh (Wf p Ip) rp _ lt Hc') as [Sp Cp].
    apply R in Hp as [ob [sb [Hn [Ro [Rs Epi]]]]]. exists ob, sb, p. unfold tag_pair. cbn [fst]. auto 10.
  Qed.
End SpfsPoly.

(* a tree whose internal nodes have at least two children has a refinement *)
Lemma odd_double_fact_pos n : 0 < odd_double_fact n.
Proof. induction n as [|n IH]; cbn [odd_double_fact]; nia. Qed.

Lemma refinement_count_pos : forall t, arity_ok t = true -> 0 < refinement_count t.
Proof.
  induction t as [n|lb cs IH] using rose_ind'; intros A; [cbn; lia|].
  apply arity_ok_node in A as [A1 A2]. cbn [refinement_count].
  assert (0 < arr_count (length cs)) as H1.
  { destruct (length cs) as [|j]; [lia|]. cbn [arr_count]. apply odd_double_fact_pos. }
  assert (0 < fold_right (fun c acc => refinement_count c * acc) 1 cs) as H2.
  { clear A1 H1. induction IH as [|x cs Hx _ IH2]; cbn [fold_right]; [lia|].
    assert (0 < refinement_count x) by (apply Hx, A2; now left).
    assert (0 < fold_right (fun c acc => refinement_count c * acc) 1 cs)
      by (apply IH2; intros y Hy; apply A2; now right).
    nia. }
  nia.
Qed.

Lemma input_binarize_nonempty o s : arity_ok o = true -> arity_ok s = true -> input_binarize o s <> [].
Proof.
  intros Ao As X. assert (length (input_binarize o s) = 0) as L0 by (now rewrite X).
  rewrite input_binarize_product, prod_length, !binarize_length in L0.
  pose proof (refinement_count_pos o Ao). pose proof (refinement_count_pos s As). nia.
Qed.

(** ** the extended unordered solver *)
Section UspfsPoly.
  Variables (c : costs) (ld : leafdata) (o s : rose).
  Hypothesis Hh : nn (c_hgt c).
  Hypothesis Hc : ucoherent c.
  Hypothesis W : poly_wf any_syn ld o s.

  (** ALL: as for the ordered solver, with the canonical solutions of [uspfs_all_exact] *)
  Theorem ext_optimum_refinements_unordered :
    exists e, uspfs_poly c RALL ld o s = Some e /\ NoDup (tags e) /\
      (forall i t, In (i, t) (tags e) <-> ropt ld o s (uspfs_solp true) (uspfs_costp c) i t) /\
      (forall i t, In (i, t) (tags e) <->
         exists p, refinement_input ld o s i p /\
           uoptimal (fst p) c true (snd p) t /\ ucost c (snd p) t = val e) /\
      val e = ext_minl (map (pair_opt ld (uspfs_binopt c RALL true)) (input_binarize o s)).
  Proof.
    destruct (poly_inputs_ok any_syn ld o s W) as [inputs [Ei [F Hw]]].
    pose proof (wf_family any_syn inputs Hw) as Wf.
    pose proof (refinement_input_iff ld o s inputs F) as R.
    unfold uspfs_poly. rewrite Ei.
    pose proof (uspfs_family_run c true inputs Hh Wf RALL) as He.
    eexists. split; [exact He|].
    destruct (uspfs_family_all_exact c true inputs Hh Hc Wf _ He) as [ND Ex].
    pose proof (uspfs_family_value c true inputs Hh Wf RALL _ He) as Ev.
    split; [exact ND|]. split; [|split].
    - intros i t. rewrite (Ex i t). now apply gopt_ropt.
    - intros i t. rewrite (uspfs_family_all_local c true inputs Hh Hc Wf _ He i t), <- Ev.
      split; intros [p [Hp Rest]]; exists p; (split; [now apply R|exact Rest]).
    - rewrite Ev. f_equal. now apply pair_opt_map.
  Qed.

  (** ANY: exactly one such pair *)
  Theorem ext_optimum_refinements_unordered_any :
    exists e i t, uspfs_poly c RANY ld o s = Some e /\ tags e = [(i, t)] /\
      ropt ld o s (uspfs_solp true) (uspfs_costp c) i t.
  Proof.
    destruct (poly_inputs_ok any_syn ld o s W) as [inputs [Ei [F Hw]]].
    pose proof (wf_family any_syn inputs Hw) as Wf.
    pose proof (refinement_input_iff ld o s inputs F) as R.
    unfold uspfs_poly. rewrite Ei.
    assert (inputs <> []) as NE.
    { destruct W as [Ao [As _]]. intros X. subst inputs. inversion F as [E0|].
      apply (input_binarize_nonempty o s Ao As). now symmetry. }
    destruct (uspfs_family_any c true inputs Hh Hc Wf NE) as [e [i [t [He [Et G]]]]].
    exists e, i, t. split; [exact He|]. split; [exact Et|]. now apply (gopt_ropt ld o s inputs).
  Qed.

  (** the value against ALL valid unordered labellings of all refinement pairs ([superdtl_optimum]) *)
  Theorem ext_optimum_refinements_unordered_value rp e : rp <> RNONE -> uspfs_poly c rp ld o s = Some e ->
    (forall i p t, refinement_input ld o s i p -> uall_sol (fst p) true (snd p) t -> ele (val e) (ucost c (snd p) t)) /\
    (exists i p t, refinement_input ld o s i p /\ uall_sol (fst p) true (snd p) t /\ val e = ucost c (snd p) t).
  Proof.
    intros Hrp. destruct (poly_inputs_ok any_syn ld o s W) as [inputs [Ei [F Hw]]].
    pose proof (wf_family any_syn inputs Hw) as Wf.
    pose proof (refinement_input_iff ld o s inputs F) as R.
    unfold uspfs_poly. rewrite Ei. intros He.
    destruct (uspfs_family_optimum c true inputs Hh Hc Wf rp e Hrp He) as [LB At]. split.
    - intros i p t Hp. apply LB. apply R in Hp. eapply nth_error_In; eauto.
    - assert (inputs <> []) as NE.
      { destruct W as [Ao [As _]]. intros X. subst inputs. inversion F as [E0|].
        apply (input_binarize_nonempty o s Ao As). now symmetry. }
      destruct (At NE) as [p [t [Ip [Ht Ev]]]]. destruct (In_nth_error _ _ Ip) as [i Hi].
      exists i, p, t. split; [now apply R|auto].
  Qed.
  Theorem ext_solutions_refer_to_refinements_unordered rp e i t : rp <> RNONE ->
    uspfs_poly c rp ld o s = Some e -> In (i, t) (tags e) ->
    exists ob sb p, tag_pair o s (i, t) = Some (ob, sb) /\ refines o ob /\ refines s sb /\
      pair_input ld (ob, sb) = Some p /\ uspfs_solp true p t /\ uspfs_costp c p t = val e.
  Proof.
    intros Hrp. destruct (poly_inputs_ok any_syn ld o s W) as [inputs [Ei [F Hw]]].
    pose proof (wf_family any_syn inputs Hw) as Wf.
    pose proof (refinement_input_iff ld o s inputs F) as R.
    unfold uspfs_poly. rewrite Ei, (uspfs_family_run c true inputs Hh Wf rp). intros [= <-] Ht.
    apply (upd_tags_sound ptag_eqb ptag_eqb_spec) in Ht. apply in_family_cands in Ht as [p [Hp Hc']].
    pose proof (nth_error_In _ _ Hp) as Ip.
    destruct (uspfs_HB c true p Hh (Wf p Ip) Hc rp _ t Hrp Hc') as [Sp Cp].
    apply R in Hp as [ob [sb [Hn [Ro [Rs Epi]]]]]. exists ob, sb, p. unfold tag_pair. cbn [fst]. auto 10.
  Qed.
End UspfsPoly.

(** ** each refinement pair is enumerated once *)
Lemma list_prod_flat_map {A B} (l : list A) (l' : list B) :
  list_prod l l' = flat_map (fun x => map (fun y => (x, y)) l') l.
Proof. induction l as [|x l IH]; [reflexivity|]. cbn [list_prod flat_map]. now rewrite IH. Qed.

(* with distinct leaf names, no two enumerated pairs are equal up to the order of children *)
Theorem refinement_pairs_nodup o s :
  NoDup (rleaves o) -> arity_ok o = true -> NoDup (rleaves s) -> arity_ok s = true ->
  ForallOrdPairs (fun a b => ~ (beqv (fst a) (fst b) /\ beqv (snd a) (snd b))) (input_binarize o s).
Proof.
  intros No Ao Ns As. rewrite input_binarize_product, list_prod_flat_map.
  apply (fop_flat_map (fun a b => ~ beqv a b)).
  - now apply binarize_fop.
  - intros a _. apply (fop_map (fun a b => ~ beqv a b)); [now apply binarize_fop|].
    intros x y _ _ N [_ H]. exact (N H).
  - intros a b x y _ _ N Hx Hy [H _].
    apply in_map_iff in Hx as [x' [<- _]]. apply in_map_iff in Hy as [y' [<- _]]. exact (N H).
Qed.

(** ** what is connected, and what is not

    Proved above, for the models of [Model/Poly.v], [Model/Spfs.v], [Model/Uspfs.v],
    [Model/Binarize.v]: on well-formed data ([poly_wf]) and in the coherent cost region of the
    binary theorems, the run over the polytomous input does not raise and returns
    - under ALL exactly the pairs (index [i] of a refinement pair, solution) that are optimal
      over all the enumerated refinement pairs and all their solutions, each once;
    - a value that is the minimum over the enumerated pairs of the binary optimum;
    - under ANY one such pair.
    The pair at index [i] is [nth_error (input_binarize o s) i = Some (ob, sb)] with
    [refines o ob] and [refines s sb] ([refinement_input]), so by [C08_binarize_sound] both trees
    are binary and keep every leaf, clade and label of the original; every pair of binary
    refinements is enumerated up to the order of children ([refinement_pairs_complete]), once
    ([refinement_pairs_nodup]).

    Not proved: that the binary optimum does not depend on the order of children, which is
    what turns "minimum over the enumerated pairs" into "minimum over every pair of binary
    refinements, whatever the order in which their children are written".  The statement
    is below; it is a property of the binary solvers (C02/C03), not of the loop. *)
Fixpoint blabels (b : bt) : list lab :=
  match b with
  | BLeaf n => [n]
  | BNode lb l r => lb :: blabels l ++ blabels r
  end.
Definition names (l : list lab) : list nat :=
  flat_map (fun x => match x with Some n => [n] | None => [] end) l.

Definition child_order_invariance_statement (c : costs) : Prop :=
  forall ld ob sb ob' sb' p p',
    NoDup (names (blabels sb)) -> beqv ob ob' -> beqv sb sb' ->
    pair_input ld (ob, sb) = Some p -> pair_input ld (ob', sb') = Some p' ->
    spfs_binopt c RALL true p = spfs_binopt c RALL true p' /\
    uspfs_binopt c RALL true p = uspfs_binopt c RALL true p'.

(** ** non-vacuity: species (A,B,C), objects (x,y,z,w) with x,w in A, y in B, z in C *)
Definition ex_costs : costs := {| c_spe := 0; c_dup := 1; c_hgt := Fin 1; c_floss := 1; c_sloss := 1 |}.
Definition ex_s : rose :=
  Binarize.RNode (Some 10) [Binarize.RLeaf (Some 0); Binarize.RLeaf (Some 1); Binarize.RLeaf (Some 2)].
Definition ex_o : rose :=
  Binarize.RNode (Some 20)
    [Binarize.RLeaf (Some 0); Binarize.RLeaf (Some 1); Binarize.RLeaf (Some 2); Binarize.RLeaf (Some 3)].
Definition ex_ld : leafdata :=
  [(0, (0, [1; 2]%N)); (1, (1, [2; 3]%N)); (2, (2, [1; 3]%N)); (3, (0, [1; 2; 3]%N))].

Example poly_example :
  nn (c_hgt ex_costs) /\ coherent_ord ex_costs /\ ucoherent ex_costs /\
  poly_wf nonempty_syn ex_ld ex_o ex_s /\ poly_wf any_syn ex_ld ex_o ex_s /\
  length (input_binarize ex_o ex_s) = 45 /\
  option_map (fun e => (val e, length (tags e))) (spfs_poly ex_costs RALL ex_ld ex_o ex_s) = Some (Fin 3, 18) /\
  option_map (fun e => (val e, length (tags e))) (spfs_poly ex_costs RANY ex_ld ex_o ex_s) = Some (Fin 3, 1) /\
  option_map (fun e => (val e, length (tags e))) (uspfs_poly ex_costs RALL ex_ld ex_o ex_s) = Some (Fin 2, 8) /\
  option_map (fun e => map fst (tags e)) (uspfs_poly ex_costs RALL ex_ld ex_o ex_s) =
    Some [7; 11; 13; 14; 38; 40; 43; 44].
Proof.
  assert (forall Q : list Recon.fam -> Prop, (forall syn, syn <> [] -> Q syn) -> poly_wf Q ex_ld ex_o ex_s) as Wf.
  { intros Q HQ. split; [reflexivity|]. split; [reflexivity|]. intros lb H. cbn in H.
    assert (forall k, (k < 3) -> rsub (Binarize.RLeaf (Some k)) ex_s) as Sub.
    { intros k Hk. eapply rsub_child; [|apply rsub_refl]. cbn.
      destruct k as [|[|[|k]]]; auto; lia. }
    destruct H as [<-|[<-|[<-|[<-|[]]]]].
    - exists 0, 0, [1; 2]%N, (Binarize.RLeaf (Some 0)). repeat split; auto. apply HQ. discriminate.
    - exists 1, 1, [2; 3]%N, (Binarize.RLeaf (Some 1)). repeat split; auto. apply HQ. discriminate.
    - exists 2, 2, [1; 3]%N, (Binarize.RLeaf (Some 2)). repeat split; auto. apply HQ. discriminate.
    - exists 3, 0, [1; 2; 3]%N, (Binarize.RLeaf (Some 0)). repeat split; auto. apply HQ. discriminate. }
  split; [discriminate|]. split; [unfold coherent_ord; cbn; lia|]. split; [unfold ucoherent; cbn; lia|].
  split; [apply Wf; auto|]. split; [apply Wf; intros; exact I|].
  split; [vm_compute; reflexivity|]. split; [vm_compute; reflexivity|]. split; [vm_compute; reflexivity|].
  split; vm_compute; reflexivity.
Qed.

Print Assumptions update_concat_value.
Print Assumptions update_concat_tags_all.
Print Assumptions update_concat_tags_any.
Print Assumptions poly_loop_concat.
Print Assumptions spfs_family_all_exact.
Print Assumptions uspfs_family_all_exact.
Print Assumptions ext_optimum_refinements.
Print Assumptions ext_optimum_refinements_any.
Print Assumptions ext_solutions_refer_to_refinements.
Print Assumptions ext_optimum_refinements_unordered.
Print Assumptions ext_optimum_refinements_unordered_any.
Print Assumptions ext_optimum_refinements_unordered_value.
Print Assumptions ext_solutions_refer_to_refinements_unordered.
Print Assumptions refinement_pairs_complete.
Print Assumptions refinement_pairs_nodup.
Print Assumptions bt_otree_leaves.
Print Assumptions poly_example.
