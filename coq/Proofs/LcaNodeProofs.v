(** C07, clause "every internal node is mapped to the LCA of the species of the leaves below it",
    for EVERY node of the LCA reconciliation (Proofs/LcaProofs.v states it for the root only). *)
From Coq Require Import List Bool.
From SR Require Import Base.PathB Model.Recon Model.LcaRec Proofs.LcaProofs.
Import ListNotations.

(* the node at position [p] ([false] = first child, [true] = second child) *)
Fixpoint onode_at (o : otree) (p : path) {struct p} : option otree :=
  match p with
  | [] => Some o
  | b :: p' => match o with ONode a c => onode_at (if b then c else a) p' | OLeaf _ _ => None end
  end.
Fixpoint rnode_at (r : rtree) (p : path) {struct p} : option rtree :=
  match p with
  | [] => Some r
  | b :: p' => match r with RNode _ a c => rnode_at (if b then c else a) p' | RLeaf _ => None end
  end.

(* the LCA reconciliation of a subtree is the corresponding subtree of the LCA reconciliation *)
Lemma lca_rec_at : forall p O o, onode_at O p = Some o -> rnode_at (lca_rec O) p = Some (lca_rec o).
Proof.
  induction p as [|b p IH]; intros O o H; cbn [onode_at rnode_at] in *.
  - now inversion H.
  - destruct O as [sp syn|a c]; [discriminate|]. cbn [lca_rec]. destruct b; now apply IH.
Qed.

(** every node: the species given to the node at [p] is the LCA (longest common prefix of the root
    paths) of the species of the leaves below that node; a leaf keeps its own species *)
Theorem lca_mapping_every_node O p o : onode_at O p = Some o ->
  exists r, rnode_at (lca_rec O) p = Some r /\ root r = lcp_list (leaf_species o).
Proof.
  intros H. exists (lca_rec o). split; [now apply lca_rec_at|apply lca_root].
Qed.

(* the reconciliation has exactly the nodes of the object tree *)
Lemma rnode_at_shape : forall p O, rnode_at (lca_rec O) p = None <-> onode_at O p = None.
Proof.
  induction p as [|b p IH]; intros O; cbn [onode_at rnode_at].
  - split; discriminate.
  - destruct O as [sp syn|a c]; cbn [lca_rec]; [tauto|]. destruct b; apply IH.
Qed.

Print Assumptions lca_mapping_every_node.
Print Assumptions rnode_at_shape.
