(** C06, unordered labelling cost, against a specification written from the English of the
    property and sharing nothing with the model's code:

      "segmental losses counted per charged edge, with the free partial copy chosen optimally at
       duplications and fixed to the transferred child at transfers".

    An edge parent -> child is LOSSY when the child lacks a family of the parent.  Which edges are
    CHARGED depends on the event of the parent: both edges of a speciation; at a transfer the edge
    to the conserved child only (the transferred child is the free partial copy); at a duplication
    one child is the free partial copy and only the edge to the other child is charged.  A choice
    [free] names, for every duplication node, which child is free.  The labelling cost is the
    segmental-loss unit cost times the number of charged lossy edges, for the choice that makes this
    number smallest.

    ([Proofs/LabelCostProofs.v: unordered_labeling_recount] is definitional: [ulab_spec] is the
    model function [ulab_rec] with the [option] removed.) *)
From Coq Require Import List Bool Arith ZArith Lia Permutation.
From SR Require Import Base.PathB Base.Ext Model.Recon Proofs.PathFacts Proofs.ReconProofs Proofs.LabelCostProofs.
Import ListNotations.
Local Open Scope Z_scope.

(* the node of a labelled tree at position [p] ([false] = first child, [true] = second child) *)
Fixpoint lnode_at (t : ltree) (p : path) {struct p} : option ltree :=
  match p with
  | [] => Some t
  | b :: p' => match t with LNode _ _ ta tb => lnode_at (if b then tb else ta) p' | LLeaf _ _ => None end
  end.

(* the child lacks a family of the parent *)
Definition lacks (parent child : list fam) : Prop := exists f, In f parent /\ ~ In f child.

(* is the edge towards child [dir] of a node with event [e] charged, when [fr] is the free child
   chosen for a duplication? *)
Definition chargeable (e : ev) (fr dir : bool) : bool :=
  match e with
  | Spe => true
  | Dup => negb (Bool.eqb dir fr)
  | TrL => negb dir            (* first child conserved, second child transferred = free *)
  | TrR => dir
  | Inv => false
  end.

(* [p] addresses a child whose edge from its parent is charged and lossy, under the choice [free]
   (position of a duplication node |-> its free child) *)
Definition charged_under (free : path -> bool) (t : ltree) (p : path) : Prop :=
  exists q dir s y a b, p = q ++ [dir] /\ lnode_at t q = Some (LNode s y a b) /\
    chargeable (event s (lroot a) (lroot b)) (free q) dir = true /\
    lacks y (lsyn (if dir then b else a)).

(** * the charged lossy edges as a list *)
Definition lossyb (P C : list fam) : bool := negb (subset P C).
Lemma lossyb_lacks P C : lossyb P C = true <-> lacks P C.
Proof.
  unfold lossyb, lacks. rewrite <- (lossy_iff P C). unfold lossy. destruct (subset P C); simpl; split; congruence.
Qed.

Fixpoint charged_list (free : path -> bool) (t : ltree) : list path :=
  match t with
  | LLeaf _ _ => []
  | LNode s y a b =>
      let e := event s (lroot a) (lroot b) in
      (if chargeable e (free []) false && lossyb y (lsyn a) then [[false]] else []) ++
      (if chargeable e (free []) true && lossyb y (lsyn b) then [[true]] else []) ++
      map (cons false) (charged_list (fun q => free (false :: q)) a) ++
      map (cons true) (charged_list (fun q => free (true :: q)) b)
  end.

Lemma charged_list_spec : forall t free p, In p (charged_list free t) <-> charged_under free t p.
Proof.
  induction t as [s y|s y a IHa b IHb]; intros free p.
  - cbn [charged_list In]. split; [tauto|].
    intros [q [dir [s' [y' [a [b [_ [H _]]]]]]]]. destruct q; cbn in H; discriminate.
  - cbn [charged_list]. rewrite !in_app_iff, !in_map_iff. split.
    + intros [H|[H|[[p' [<- H]]|[p' [<- H]]]]].
      * destruct (chargeable _ _ false && lossyb y (lsyn a)) eqn:E; [|destruct H]. destruct H as [<-|[]].
        apply andb_true_iff in E as [E1 E2]. exists [], false, s, y, a, b. repeat split; auto. now apply lossyb_lacks.
      * destruct (chargeable _ _ true && lossyb y (lsyn b)) eqn:E; [|destruct H]. destruct H as [<-|[]].
        apply andb_true_iff in E as [E1 E2]. exists [], true, s, y, a, b. repeat split; auto. now apply lossyb_lacks.
      * apply IHa in H as [q [dir [s' [y' [a' [b' [-> [N [C Lk]]]]]]]]].
        exists (false :: q), dir, s', y', a', b'. repeat split; auto.
      * apply IHb in H as [q [dir [s' [y' [a' [b' [-> [N [C Lk]]]]]]]]].
        exists (true :: q), dir, s', y', a', b'. repeat split; auto.
    + intros [q [dir [s' [y' [a' [b' [-> [N [C Lk]]]]]]]]]. destruct q as [|x q].
      * cbn in N. inversion N; subst s' y' a' b'. apply lossyb_lacks in Lk. cbn [app].
        destruct dir; [right; left|left]; rewrite C, Lk; now left.
      * cbn [lnode_at] in N. right. right. destruct x; [right|left].
        -- exists (q ++ [dir]). split; auto. apply IHb. exists q, dir, s', y', a', b'. auto.
        -- exists (q ++ [dir]). split; auto. apply IHa. exists q, dir, s', y', a', b'. auto.
Qed.

Lemma charged_not_nil free t : ~ In [] (charged_list free t).
Proof.
  intros H. apply charged_list_spec in H as [q [dir [s [y [a [b [E _]]]]]]]. destruct q; discriminate.
Qed.

Lemma charged_list_nodup : forall t free, NoDup (charged_list free t).
Proof.
  induction t as [s y|s y a IHa b IHb]; intros free; cbn [charged_list]; [constructor|].
  assert (forall x (l : list path), ~ In [] l -> ~ In [x] (map (cons x) l)) as Nx.
  { intros x l H I. apply in_map_iff in I as [p [E I]]. inversion E; subst. contradiction. }
  assert (forall x x' (l : list path), x <> x' -> forall p, ~ In (x :: p) (map (cons x') l)) as Nd.
  { intros x x' l D p I. apply in_map_iff in I as [p' [E _]]. inversion E. congruence. }
  assert (NoDup (map (cons false) (charged_list (fun q => free (false :: q)) a) ++
                 map (cons true) (charged_list (fun q => free (true :: q)) b))) as N34.
  { apply NoDup_app_disj; try (apply NoDup_map_inj; [intros ? ? E; now inversion E|auto]).
    intros p I1 I2. apply in_map_iff in I1 as [p1 [<- _]]. now apply (Nd false true) in I2. }
  apply NoDup_app_disj.
  - destruct (_ && _); repeat constructor; cbn; tauto.
  - apply NoDup_app_disj; auto.
    + destruct (_ && _); repeat constructor; cbn; tauto.
    + intros p I1 I2. destruct (_ && _); [|destruct I1]. destruct I1 as [<-|[]].
      apply in_app_or in I2 as [I2|I2]; [now apply (Nd true false) in I2|].
      apply (Nx true) in I2; auto. apply charged_not_nil.
  - intros p I1 I2. destruct (_ && _); [|destruct I1]. destruct I1 as [<-|[]].
    apply in_app_or in I2 as [I2|I2].
    + destruct (_ && _); [|destruct I2]. destruct I2 as [E|[]]. discriminate.
    + apply in_app_or in I2 as [I2|I2]; [|now apply (Nd false true) in I2].
      apply (Nx false) in I2; auto. apply charged_not_nil.
Qed.

Lemma charged_list_ext : forall t f g, (forall q, f q = g q) -> charged_list f t = charged_list g t.
Proof.
  induction t as [s y|s y a IHa b IHb]; intros f g E; cbn [charged_list]; [reflexivity|].
  rewrite (E []), (IHa (fun q => f (false :: q)) (fun q => g (false :: q))),
          (IHb (fun q => f (true :: q)) (fun q => g (true :: q))); auto.
Qed.

(** * the model against the count *)
Definition ncharged (free : path -> bool) (t : ltree) : Z := Z.of_nat (length (charged_list free t)).

Lemma b2z_len (c : bool) (x : path) : Z.of_nat (length (if c then [x] else [])) = if c then 1 else 0.
Proof. destruct c; reflexivity. Qed.

Lemma ncharged_node free s y a b :
  ncharged free (LNode s y a b) =
  (if chargeable (event s (lroot a) (lroot b)) (free []) false && lossyb y (lsyn a) then 1 else 0) +
  (if chargeable (event s (lroot a) (lroot b)) (free []) true && lossyb y (lsyn b) then 1 else 0) +
  ncharged (fun q => free (false :: q)) a + ncharged (fun q => free (true :: q)) b.
Proof.
  unfold ncharged. cbn [charged_list]. cbv zeta. rewrite !app_length, !map_length, !Nat2Z.inj_add.
  destruct (chargeable _ _ false && _), (chargeable _ _ true && _); cbn [length]; unfold path; lia.
Qed.

(* the evaluator's count is a lower bound for every choice of the free copies ... *)
Lemma ulab_rec_le : forall t free, events_valid t -> exists k, ulab_rec t = Some k /\ k <= ncharged free t.
Proof.
  induction t as [s y|s y a IHa b IHb]; intros free V.
  - exists 0. split; [reflexivity|]. unfold ncharged. simpl. lia.
  - destruct V as [E [Va Vb]].
    destruct (IHa (fun q => free (false :: q)) Va) as [ka [Ea La]].
    destruct (IHb (fun q => free (true :: q)) Vb) as [kb [Eb Lb]].
    cbn [ulab_rec]. rewrite Ea, Eb, ncharged_node. unfold lossyb.
    destruct (event s (lroot a) (lroot b)); try congruence; cbn [chargeable negb Bool.eqb andb];
      destruct (subset y (lsyn a)), (subset y (lsyn b)), (free []); cbn [negb Bool.eqb andb Z.min];
      eexists; (split; [reflexivity|]); lia.
Qed.

(* ... and is attained when, at every duplication, the free copy is the first child if it lacks
   something and the second child otherwise *)
Definition best_free (t : ltree) (q : path) : bool :=
  match lnode_at t q with
  | Some (LNode _ y a _) => negb (lossyb y (lsyn a))
  | _ => false
  end.

Lemma ncharged_ext t f g : (forall q, f q = g q) -> ncharged f t = ncharged g t.
Proof. intros E. unfold ncharged. now rewrite (charged_list_ext t f g E). Qed.

Lemma ulab_rec_best : forall t, events_valid t -> ulab_rec t = Some (ncharged (best_free t) t).
Proof.
  induction t as [s y|s y a IHa b IHb]; intros V; [reflexivity|].
  destruct V as [E [Va Vb]]. cbn [ulab_rec]. rewrite (IHa Va), (IHb Vb), ncharged_node.
  rewrite (ncharged_ext a (fun q => best_free (LNode s y a b) (false :: q)) (best_free a)) by reflexivity.
  rewrite (ncharged_ext b (fun q => best_free (LNode s y a b) (true :: q)) (best_free b)) by reflexivity.
  assert (best_free (LNode s y a b) [] = negb (lossyb y (lsyn a))) as Eb by reflexivity. rewrite Eb. unfold lossyb.
  destruct (event s (lroot a) (lroot b)); try congruence; cbn [chargeable negb Bool.eqb andb];
    destruct (subset y (lsyn a)), (subset y (lsyn b)); cbn [negb Bool.eqb andb Z.min]; f_equal; lia.
Qed.

(** * the statement of C06 for the unordered labelling cost *)
Theorem unordered_labeling_charged_edges c t : events_valid t ->
  exists k : nat,
    unordered_labeling_cost c t = Some (c_sloss c * Z.of_nat k) /\
    (* no choice of the free copies gives fewer charged lossy edges *)
    (forall free l, NoDup l -> (forall p, In p l <-> charged_under free t p) -> (k <= length l)%nat) /\
    (* and some choice gives exactly that many *)
    (exists free l, NoDup l /\ (forall p, In p l <-> charged_under free t p) /\ length l = k).
Proof.
  intros V. exists (length (charged_list (best_free t) t)). split; [|split].
  - unfold unordered_labeling_cost. rewrite (ulab_rec_best t V). reflexivity.
  - intros free l ND Hl.
    assert (length l = length (charged_list free t)) as ->.
    { apply Permutation_length. apply NoDup_Permutation; auto using charged_list_nodup.
      intros p. rewrite Hl. symmetry. apply charged_list_spec. }
    destruct (ulab_rec_le t free V) as [k [Ek Lk]]. rewrite (ulab_rec_best t V) in Ek. inversion Ek; subst k.
    unfold ncharged in Lk. lia.
  - exists (best_free t), (charged_list (best_free t) t). split; [apply charged_list_nodup|].
    split; [apply charged_list_spec|reflexivity].
Qed.

(* a lossy edge, in words *)
Lemma lacks_iff P C : lacks P C <-> ~ (forall f, In f P -> In f C).
Proof.
  split.
  - intros [f [H1 H2]] H. auto.
  - intros H. apply lossyb_lacks. unfold lossyb. destruct (subset P C) eqn:E; [|reflexivity].
    exfalso. apply H. intros f Hf. unfold subset in E. rewrite forallb_forall in E.
    specialize (E f Hf). apply existsb_exists in E as [x [Ix Ex]]. apply N.eqb_eq in Ex. now subst.
Qed.

(* non-vacuity: a speciation below a duplication; one charged lossy edge at the speciation, and at the
   duplication the second child (which lacks family 1) is taken as the free copy *)
Example charged_edges_example :
  let t := LNode [] [1;2]%N (LNode [false] [1;2]%N (LLeaf [false;false] [1]%N) (LLeaf [false;true] [1;2]%N))
                 (LLeaf [false] [2]%N) in
  let c := {| c_spe := 0; c_dup := 1; c_hgt := Fin 1; c_floss := 1; c_sloss := 3 |} in
  events_valid t /\ event [] [false] [false] = Dup /\ event [false] [false;false] [false;true] = Spe /\
  unordered_labeling_cost c t = Some 3 /\ charged_list (best_free t) t = [[false; false]].
Proof. cbv zeta. repeat split; try discriminate; reflexivity. Qed.

Print Assumptions unordered_labeling_charged_edges.
Print Assumptions lacks_iff.
