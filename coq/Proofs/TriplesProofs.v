(** placeholder: replaced below in this session *)
From Coq Require Import List Bool Arith ZArith Lia.
From SR Require Import Model.DisjointSet Model.Triples Proofs.DisjointSetProofs.
Import ListNotations.
Lemma build_one a ts : tree_from_triples [a] ts = Ok (Some (Leaf a)).
Proof. reflexivity. Qed.
