(** Specification and proofs for Model/Triples.v (property C20, triples and supertrees).

    Specification: [leaf_path t a p] (the path [p] leads from the root of [t] to a
    leaf named [a]); the lowest common ancestor of two leaves is the longest common
    prefix [lcp] of their paths; [displays t (a, b, c)]: lca(a,b) is a strict
    descendant of lca(a,c); [proper leaves tr]: a triple over the leaf set;
    [bin]: binary trees; [same_clades]: equal sets of clades; [NoDupBy E l]: no two
    elements of [l] are related by [E].

    Main theorems:
    - [build_sound]: tree_from_triples never raises on proper input and a returned
      tree has exactly the given leaves and displays every triple;
    - [build_complete]: if any tree displays every triple, tree_from_triples returns a
      tree (the Aho-Sagiv-Szymanski-Ullman argument);
    - [all_trees_sound_nodup] / [all_trees_once]: every tree returned by
      all_trees_from_triples is binary, on the leaf set, displays every triple, and no
      clade set is returned twice; [all_trees_complete]: every binary tree on the leaf
      set that displays every triple is returned, up to the order of children;
    - [breakup_roundtrip] / [roundtrip]: for every binary tree with distinct leaves and
      every pop order, rebuilding from the emitted triples gives the same clades;
      [tree_to_triples_total]: BreakUp never raises nor runs out of fuel;
      [all_breakups_spec]: the enumerator used by the correspondence check lists exactly
      the outcomes of [breakup] over all oracles;
    - [supertree_displays]: the tree built from the union of the triples of several
      binary trees displays every triple that any of them displays.

    Proof of the last two: [cdisplays] (display in terms of clades, equivalent to
    [displays] on trees with distinct leaves), subtrees are nested or disjoint
    ([laminar]), four inference rules on triples, one BreakUp step seen abstractly
    ([popped]) and an induction over the run ([breakup_ind_bin]) showing that any tree
    displaying the emitted triples displays every triple of the input ([breakup_closure]). *)
From Coq Require Import List Bool Arith ZArith Lia Permutation.
From SR Require Import Model.DisjointSet Model.Triples Proofs.DisjointSetProofs.
Import ListNotations.

(* ============================================================ specification *)

(* [leaf_path t a p]: the path [p] (child indices from the root) leads to a leaf named [a] *)
Inductive leaf_path : tree -> nat -> list nat -> Prop :=
| lp_leaf a : leaf_path (Leaf a) a []
| lp_node cs i c a p : nth_error cs i = Some c -> leaf_path c a p -> leaf_path (Node cs) a (i :: p).

(* longest common prefix = path of the lowest common ancestor *)
Fixpoint lcp (p q : list nat) : list nat :=
  match p, q with
  | x :: p', y :: q' => if x =? y then x :: lcp p' q' else []
  | _, _ => []
  end.

(* t displays ((a,b),c): lca(a,b) is a strict descendant of lca(a,c) *)
Definition displays (t : tree) (tr : triple) : Prop :=
  let '(a, b, c) := tr in
  exists pa pb pc, leaf_path t a pa /\ leaf_path t b pb /\ leaf_path t c pc /\
                   length (lcp pa pc) < length (lcp pa pb).

(* a triple over the leaf set: three leaves, the third different from the other two *)
Definition proper (leaves : list nat) (tr : triple) : Prop :=
  let '(a, b, c) := tr in In a leaves /\ In b leaves /\ In c leaves /\ c <> a /\ c <> b.

(* ------------------------------------------------------------------ trees *)
Section TreeInd.
Variable P : tree -> Prop.
Hypothesis Hleaf : forall a, P (Leaf a).
Hypothesis Hnode : forall cs, Forall P cs -> P (Node cs).
Fixpoint tree_ind' (t : tree) : P t :=
  match t with
  | Leaf a => Hleaf a
  | Node cs => Hnode cs ((fix go (l : list tree) : Forall P l :=
                            match l with
                            | [] => Forall_nil P
                            | c :: r => Forall_cons c (tree_ind' c) (go r)
                            end) cs)
  end.
End TreeInd.

Lemma leaf_path_exists : forall t a, In a (leaves_of t) -> exists p, leaf_path t a p.
Proof.
  induction t as [b|cs IH] using tree_ind'; intros a I.
  - simpl in I. destruct I as [<-|[]]. exists []. constructor.
  - simpl in I. apply in_flat_map in I. destruct I as (c & Ic & Ia).
    rewrite Forall_forall in IH. destruct (IH c Ic a Ia) as [p Hp].
    apply In_nth_error in Ic. destruct Ic as [i Ei]. exists (i :: p). econstructor; eauto.
Qed.

Lemma leaf_path_in : forall t a p, leaf_path t a p -> In a (leaves_of t).
Proof.
  induction 1 as [a|cs i c a p E _ IH]; simpl; [left; reflexivity|].
  apply in_flat_map. exists c. split; [eapply nth_error_In; eauto|assumption].
Qed.

(* ---------------------------------------------------------------- indices *)
Lemma index_of_nth x : forall l i, index_of x l = Some i -> nth_error l i = Some x.
Proof.
  induction l as [|y l IH]; intros i H; simpl in H; [discriminate|].
  destruct (index_of x l) as [j|] eqn:E.
  - inversion H; subst. simpl. apply IH. reflexivity.
  - destruct (Nat.eqb_spec x y); [|discriminate]. inversion H; subst. reflexivity.
Qed.

Lemma index_of_in x : forall l, In x l -> exists i, index_of x l = Some i.
Proof.
  induction l as [|y l IH]; intros I; [destruct I|]. simpl.
  destruct (index_of x l) as [j|] eqn:E; [eauto|].
  destruct I as [->|I]; [rewrite Nat.eqb_refl; eauto|]. destruct (IH I); discriminate.
Qed.

Definition pos (leaves : list nat) (a : nat) : nat :=
  match index_of a leaves with Some i => i | None => 0 end.

Lemma lookup_pos leaves a : In a leaves ->
  lookup leaves a = Ok (pos leaves a) /\ nth_error leaves (pos leaves a) = Some a.
Proof.
  intros I. destruct (index_of_in a leaves I) as [i E]. unfold lookup, pos. rewrite E.
  split; [reflexivity|]. apply index_of_nth. assumption.
Qed.

Lemma pos_lt leaves a : In a leaves -> pos leaves a < length leaves.
Proof. intros I. apply nth_error_Some. destruct (lookup_pos leaves a I) as [_ E]. congruence. Qed.

Lemma get_all_ok leaves : forall g, (forall i, In i g -> i < length leaves) ->
  get_all leaves g = Ok (map (fun i => nth i leaves 0) g).
Proof.
  induction g as [|i g IH]; intros H; simpl; [reflexivity|].
  rewrite (get_nth leaves i 0) by (apply H; left; reflexivity). simpl.
  rewrite IH by (intros j Hj; apply H; right; assumption). reflexivity.
Qed.

Lemma mem_in x l : mem x l = true <-> In x l.
Proof.
  unfold mem. rewrite existsb_exists. split.
  - intros (y & I & E). apply Nat.eqb_eq in E. subst. assumption.
  - intros I. exists x. split; [assumption|apply Nat.eqb_refl].
Qed.

Lemma map_nth_seq (l : list nat) : map (fun i => nth i l 0) (seq 0 (length l)) = l.
Proof.
  apply (nth_ext _ _ 0 0); [rewrite map_length, seq_length; reflexivity|].
  intros k Hk. rewrite map_length, seq_length in Hk.
  rewrite (nth_indep _ 0 (nth 0 l 0)) by (rewrite map_length, seq_length; assumption).
  rewrite (map_nth (fun i => nth i l 0)), seq_nth by assumption. reflexivity.
Qed.

(* ------------------------------------------------------ the partition step *)
Definition idx (leaves : list nat) (tr : triple) : nat * nat :=
  let '(a, b, _) := tr in (pos leaves a, pos leaves b).

Lemma unite_triples_reach leaves : forall ts ps d,
  reachable (length leaves) ps d -> (forall tr, In tr ts -> proper leaves tr) ->
  exists d', unite_triples leaves ts d = Ok d' /\
             reachable (length leaves) (ps ++ map (idx leaves) ts) d'.
Proof.
  induction ts as [|[[a b] c] ts IH]; intros ps d H Hp; simpl.
  - exists d. rewrite app_nil_r. auto.
  - destruct (Hp (a, b, c) (or_introl eq_refl)) as (Ia & Ib & _).
    destruct (lookup_pos leaves a Ia) as [-> _]. destruct (lookup_pos leaves b Ib) as [-> _]. simpl.
    destruct (dsu_unite _ _ _ _ _ H (pos_lt _ _ Ia) (pos_lt _ _ Ib)) as (d1 & bo & U & _).
    rewrite U. simpl.
    destruct (IH (ps ++ [(pos leaves a, pos leaves b)]) d1) as (d' & E & R).
    + eapply R_unite; eauto using pos_lt.
    + intros tr I. apply Hp. right; assumption.
    + exists d'. split; [assumption|]. rewrite <- app_assoc in R. exact R.
Qed.

Lemma partition_perm n R l : is_partition n R l -> Permutation (concat l) (seq 0 n).
Proof.
  intros (_ & ND & C & _). apply NoDup_Permutation; [assumption|apply seq_NoDup|].
  intros x. rewrite C, in_seq. lia.
Qed.

Lemma group_smaller {A} (gs : list (list A)) g :
  (forall h, In h gs -> h <> []) -> 2 <= length gs -> In g gs -> length g < length (concat gs).
Proof.
  intros NE L I. apply in_split in I. destruct I as (l1 & l2 & ->).
  rewrite concat_app, app_length. simpl. rewrite app_length.
  destruct l1 as [|h l1].
  - destruct l2 as [|h l2]; [simpl in L; lia|].
    assert (h <> []) as Nh by (apply NE; right; left; reflexivity).
    simpl. rewrite app_length. destruct h; [congruence|simpl; lia].
  - assert (h <> []) as Nh by (apply NE; left; reflexivity).
    simpl. rewrite app_length. destruct h; [congruence|simpl; lia].
Qed.
(* --------------------------------------------------- BUILD (tree_from_triples) *)
Definition gl (leaves : list nat) (g : list nat) : list nat := map (fun i => nth i leaves 0) g.

Definition sub_ok (leaves : list nat) (triples : list triple) (g : list nat) (s : tree) : Prop :=
  Permutation (leaves_of s) (gl leaves g) /\
  forall tr, In tr (filter (inside (gl leaves g)) triples) -> displays s tr.

Lemma build_groups_gen rec leaves triples (Q : list nat -> tree -> Prop) : forall gs acc,
  (forall g, In g gs -> (forall i, In i g -> i < length leaves) /\
     (rec (gl leaves g) (filter (inside (gl leaves g)) triples) = Ok None \/
      exists s, rec (gl leaves g) (filter (inside (gl leaves g)) triples) = Ok (Some s) /\ Q g s)) ->
  build_groups rec leaves triples gs acc = Ok None \/
  exists ss, build_groups rec leaves triples gs acc = Ok (Some (Node (acc ++ ss))) /\
             Forall2 Q gs ss.
Proof.
  induction gs as [|g gs IH]; intros acc H; simpl.
  - right. exists []. rewrite app_nil_r. split; [reflexivity|constructor].
  - destruct (H g (or_introl eq_refl)) as [Hr [E|(s & E & S)]];
      rewrite (get_all_ok leaves g Hr); simpl; fold (gl leaves g); rewrite E; simpl.
    + left. reflexivity.
    + destruct (IH (acc ++ [s]) ltac:(intros h Ih; apply H; right; assumption)) as [E'|(ss & E' & F)].
      * left. assumption.
      * right. exists (s :: ss). rewrite <- app_assoc in E'. split; [assumption|constructor; assumption].
Qed.

Definition build_groups_spec rec leaves triples :=
  build_groups_gen rec leaves triples (sub_ok leaves triples).

Lemma NoDup_app_inv {A} (a b : list A) : NoDup (a ++ b) -> NoDup a /\ NoDup b.
Proof.
  induction a as [|x a IH]; simpl; intros H; [split; [constructor|assumption]|].
  inversion H as [|? ? NI ND]; subst. destruct (IH ND) as [Na Nb]. split; [|assumption].
  constructor; [|assumption]. intros I. apply NI. apply in_or_app. left; assumption.
Qed.

Lemma NoDup_concat_in {A} (l : list (list A)) g : NoDup (concat l) -> In g l -> NoDup g.
Proof.
  intros ND I. apply in_split in I. destruct I as (l1 & l2 & ->).
  rewrite concat_app in ND. simpl in ND. apply NoDup_app_inv in ND. destruct ND as [_ ND].
  apply NoDup_app_inv in ND. tauto.
Qed.

Lemma NoDup_gl leaves g : NoDup leaves -> NoDup g -> (forall i, In i g -> i < length leaves) ->
  NoDup (gl leaves g).
Proof.
  intros NL. induction g as [|i g IH]; intros NG H; simpl; [constructor|].
  inversion NG as [|? ? NI NG']; subst. constructor.
  - intros I. apply in_map_iff in I. destruct I as (j & E & Ij).
    assert (j = i) as ->; [|contradiction].
    apply (proj1 (NoDup_nth leaves 0) NL); [apply H; right; assumption|apply H; left; reflexivity|assumption].
  - apply IH; auto. intros j Hj. apply H. right; assumption.
Qed.

Lemma in_gl leaves g a : In (pos leaves a) g -> In a leaves -> In a (gl leaves g).
Proof.
  intros I Ia. apply in_map_iff. exists (pos leaves a). split; [|assumption].
  destruct (lookup_pos leaves a Ia) as [_ E]. apply nth_error_nth. assumption.
Qed.

Lemma gl_in_pos leaves g a : NoDup leaves -> (forall i, In i g -> i < length leaves) ->
  In a (gl leaves g) -> In (pos leaves a) g.
Proof.
  intros NL H I. apply in_map_iff in I. destruct I as (i & E & Ii).
  assert (In a leaves) as Ia by (subst a; apply nth_In; auto).
  destruct (lookup_pos leaves a Ia) as [_ E'].
  assert (pos leaves a = i) as ->; [|assumption].
  apply (proj1 (NoDup_nth leaves 0) NL); auto using pos_lt.
  rewrite E. apply nth_error_nth. assumption.
Qed.

Lemma flat_map_perm leaves triples gs ss : Forall2 (sub_ok leaves triples) gs ss ->
  Permutation (flat_map leaves_of ss) (gl leaves (concat gs)).
Proof.
  induction 1 as [|g s gs ss [P _] _ IH]; simpl; [constructor|].
  unfold gl in *. rewrite map_app. apply Permutation_app; assumption.
Qed.

Lemma node_displays leaves triples (R : nat -> nat -> Prop) gs ss a b c :
  NoDup leaves -> is_partition (length leaves) R gs ->
  Forall2 (sub_ok leaves triples) gs ss ->
  In (a, b, c) triples -> proper leaves (a, b, c) ->
  R (pos leaves a) (pos leaves b) ->
  displays (Node ss) (a, b, c).
Proof.
  intros NL P F It (Ia & Ib & Ic & Nca & Ncb) E.
  pose proof P as (_ & ND & Cov & Q).
  assert (forall g, In g gs -> forall i, In i g -> i < length leaves) as RANGE.
  { intros g Ig i Ii. apply Cov. apply in_concat. eauto. }
  apply (Q _ _ (pos_lt _ _ Ia) (pos_lt _ _ Ib)) in E. destruct E as (g & Ig & Iag & Ibg).
  destruct (In_nth_error _ _ Ig) as [i Ei].
  destruct (Forall2_nth_l _ _ _ _ _ F Ei) as (s & Es & [Ps Ds]).
  assert (In a (leaves_of s)) as La by (eapply Permutation_in; [symmetry; exact Ps|apply in_gl; assumption]).
  assert (In b (leaves_of s)) as Lb by (eapply Permutation_in; [symmetry; exact Ps|apply in_gl; assumption]).
  destruct (mem c (gl leaves g)) eqn:M.
  - assert (In (a, b, c) (filter (inside (gl leaves g)) triples)) as I.
    { apply filter_In. split; [assumption|]. simpl. rewrite M.
      rewrite (proj2 (mem_in a _) (in_gl _ _ _ Iag Ia)), (proj2 (mem_in b _) (in_gl _ _ _ Ibg Ib)). reflexivity. }
    destruct (Ds _ I) as (pa & pb & pc & Ha & Hb & Hc & L).
    exists (i :: pa), (i :: pb), (i :: pc). repeat split; try (econstructor; eassumption).
    simpl. rewrite Nat.eqb_refl. simpl. lia.
  - assert (In (pos leaves c) (concat gs)) as Icc by (apply Cov; apply pos_lt; assumption).
    apply in_concat in Icc. destruct Icc as (g' & Ig' & Icg').
    destruct (In_nth_error _ _ Ig') as [j Ej].
    destruct (Forall2_nth_l _ _ _ _ _ F Ej) as (s' & Es' & [Ps' _]).
    assert (i <> j) as Nij.
    { intros ->. rewrite Ei in Ej. inversion Ej; subst g'.
      assert (mem c (gl leaves g) = true) by (apply mem_in; apply in_gl; assumption). congruence. }
    assert (In c (leaves_of s')) as Lc by (eapply Permutation_in; [symmetry; exact Ps'|apply in_gl; assumption]).
    destruct (leaf_path_exists _ _ La) as [pa Ha]. destruct (leaf_path_exists _ _ Lb) as [pb Hb].
    destruct (leaf_path_exists _ _ Lc) as [pc Hc].
    exists (i :: pa), (i :: pb), (j :: pc). repeat split; try (econstructor; eassumption).
    simpl. rewrite Nat.eqb_refl. apply Nat.eqb_neq in Nij. rewrite Nij. simpl. lia.
Qed.

Lemma base1 a triples : (forall tr, In tr triples -> proper [a] tr) ->
  forall tr, In tr triples -> displays (Leaf a) tr.
Proof.
  intros Hp [[x y] z] I. destruct (Hp _ I) as ([<-|[]] & _ & [<-|[]] & N & _). congruence.
Qed.

Lemma base2 a b triples : NoDup [a; b] -> (forall tr, In tr triples -> proper [a; b] tr) ->
  forall tr, In tr triples -> displays (Node [Leaf a; Leaf b]) tr.
Proof.
  intros NL Hp.
  assert (leaf_path (Node [Leaf a; Leaf b]) a [0]) as Pa by (econstructor; [reflexivity|constructor]).
  assert (leaf_path (Node [Leaf a; Leaf b]) b [1]) as Pb by (econstructor; [reflexivity|constructor]).
  intros [[x y] z] I. destruct (Hp _ I) as (Ix & Iy & Iz & N1 & N2). simpl in Ix, Iy, Iz.
  destruct Ix as [<-|[<-|[]]], Iy as [<-|[<-|[]]], Iz as [<-|[<-|[]]]; try congruence.
  - exists [0], [0], [1]. repeat split; auto.
  - exists [1], [1], [0]. repeat split; auto.
Qed.

Lemma filter_proper leaves triples g : (forall tr, In tr triples -> proper leaves tr) ->
  forall tr, In tr (filter (inside (gl leaves g)) triples) -> proper (gl leaves g) tr.
Proof.
  intros Hp [[x y] z] I. apply filter_In in I. destruct I as [I M]. simpl in M.
  apply andb_prop in M. destruct M as [M Mz]. apply andb_prop in M. destruct M as [Mx My].
  apply mem_in in Mx, My, Mz. destruct (Hp _ I) as (_ & _ & _ & N1 & N2). repeat split; assumption.
Qed.

Lemma build_spec : forall fuel leaves triples,
  length leaves <= fuel -> NoDup leaves -> (forall tr, In tr triples -> proper leaves tr) ->
  build fuel leaves triples = Ok None \/
  exists t, build fuel leaves triples = Ok (Some t) /\
            Permutation (leaves_of t) leaves /\ forall tr, In tr triples -> displays t tr.
Proof.
  induction fuel as [|f IH]; intros leaves triples Lf NL Hp.
  - destruct leaves; [left; reflexivity|simpl in Lf; lia].
  - destruct leaves as [|a [|b [|c rest]]].
    + left. reflexivity.
    + right. exists (Leaf a). split; [reflexivity|]. split; [apply Permutation_refl|].
      apply base1; assumption.
    + right. exists (Node [Leaf a; Leaf b]). split; [reflexivity|]. split; [apply Permutation_refl|].
      apply base2; assumption.
    + remember (a :: b :: c :: rest) as leaves eqn:EL.
      assert (build (S f) leaves triples =
              (d <- unite_triples leaves triples (make (length leaves)) ;;
               if (len d <=? 1)%Z then Ok None
               else ' (_, gs) <- to_list d ;; build_groups (build f) leaves triples gs [])) as ->
        by (subst leaves; reflexivity).
      clear a b c rest EL.
      destruct (unite_triples_reach leaves triples [] (make (length leaves)) (R_make _) Hp) as (d & -> & R).
      simpl in R. simpl bind.
      destruct (Z.leb_spec (len d) 1) as [Le|Gt]; [left; reflexivity|].
      destruct (dsu_to_list _ _ _ R) as (d' & gs & -> & P & Ln & _). simpl bind.
      pose proof P as (NE & ND & Cov & Q).
      assert (2 <= length gs) as L2 by lia.
      pose proof (partition_perm _ _ _ P) as PP.
      assert (length (concat gs) = length leaves) as LC by (rewrite (Permutation_length PP), seq_length; reflexivity).
      assert (forall g, In g gs -> forall i, In i g -> i < length leaves) as RANGE.
      { intros g Ig i Ii. apply Cov. apply in_concat. eauto. }
      destruct (build_groups_spec (build f) leaves triples gs []) as [E|(ss & E & F)].
      { intros g Ig. split; [apply RANGE; assumption|].
        assert (NoDup (gl leaves g)) as NG by (apply NoDup_gl; eauto using NoDup_concat_in).
        destruct (IH (gl leaves g) (filter (inside (gl leaves g)) triples)) as [E|(s & E & Ps & Ds)]; auto.
        - unfold gl. rewrite map_length. pose proof (group_smaller gs g NE L2 Ig). lia.
        - apply filter_proper; assumption.
        - right. exists s. split; [assumption|]. split; assumption. }
      * left. assumption.
      * right. exists (Node ss). simpl in E. split; [assumption|]. split.
        -- simpl. eapply Permutation_trans; [eapply flat_map_perm; eassumption|].
           unfold gl. eapply Permutation_trans; [apply Permutation_map; exact PP|].
           rewrite map_nth_seq. apply Permutation_refl.
        -- intros [[x y] z] I.
           apply (node_displays leaves triples (eqv (map (idx leaves) triples)) gs ss x y z NL P F I (Hp _ I)).
           apply eqv_pair. apply (in_map (idx leaves) _ _ I).
Qed.

(* --- build_sound --- *)
Theorem build_sound leaves triples :
  NoDup leaves -> (forall tr, In tr triples -> proper leaves tr) ->
  tree_from_triples leaves triples = Ok None \/
  exists t, tree_from_triples leaves triples = Ok (Some t) /\
            Permutation (leaves_of t) leaves /\ forall tr, In tr triples -> displays t tr.
Proof. intros. apply build_spec; auto. Qed.
(* ------------------------------------------------ binary trees and clades *)
Inductive bin : tree -> Prop :=
| bin_leaf a : bin (Leaf a)
| bin_node l r : bin l -> bin r -> bin (Node [l; r]).

Inductive subtree : tree -> tree -> Prop :=
| st_refl t : subtree t t
| st_child s c cs : In c cs -> subtree s c -> subtree s (Node cs).

Definition seteq (a b : list nat) : Prop := forall x, In x a <-> In x b.

(* the two trees have the same clades (leaf sets of subtrees) *)
Definition same_clades (t1 t2 : tree) : Prop :=
  (forall s1, subtree s1 t1 -> exists s2, subtree s2 t2 /\ seteq (leaves_of s1) (leaves_of s2)) /\
  (forall s2, subtree s2 t2 -> exists s1, subtree s1 t1 /\ seteq (leaves_of s1) (leaves_of s2)).

(* no two elements of the list are related *)
Inductive NoDupBy {A : Type} (E : A -> A -> Prop) : list A -> Prop :=
| NDB_nil : NoDupBy E []
| NDB_cons x l : (forall y, In y l -> ~ E x y) -> NoDupBy E l -> NoDupBy E (x :: l).

Lemma NoDupBy_app {A} (E : A -> A -> Prop) l1 l2 :
  NoDupBy E l1 -> NoDupBy E l2 -> (forall x y, In x l1 -> In y l2 -> ~ E x y) -> NoDupBy E (l1 ++ l2).
Proof.
  induction 1 as [|x l H ND IH]; intros N2 C; simpl; [assumption|]. constructor.
  - intros y I. apply in_app_or in I. destruct I as [I|I]; [apply H; assumption|apply C; [left; reflexivity|assumption]].
  - apply IH; [assumption|]. intros a b Ia Ib. apply C; [right; assumption|assumption].
Qed.

Lemma NoDupBy_map {A B} (E : B -> B -> Prop) (E' : A -> A -> Prop) (f : A -> B) l :
  (forall x y, E (f x) (f y) -> E' x y) -> NoDupBy E' l -> NoDupBy E (map f l).
Proof.
  intros H. induction 1 as [|x l C ND IH]; simpl; constructor; [|assumption].
  intros y I. apply in_map_iff in I. destruct I as (z & <- & I). intros Exy. apply (C z I). apply H. assumption.
Qed.

Lemma NoDupBy_nth {A} (E : A -> A -> Prop) l : (forall x, E x x) -> (forall x y, E x y -> E y x) ->
  NoDupBy E l ->
  forall i j x y, nth_error l i = Some x -> nth_error l j = Some y -> E x y -> i = j.
Proof.
  intros Rf Sy. induction 1 as [|h l C ND IH]; intros i j x y Hi Hj Exy; [destruct i; discriminate|].
  destruct i as [|i], j as [|j]; simpl in *.
  - reflexivity.
  - inversion Hi; subst. exfalso. apply (C y); [eapply nth_error_In; eauto|assumption].
  - inversion Hj; subst. exfalso. apply (C x); [eapply nth_error_In; eauto|apply Sy; assumption].
  - f_equal. eapply IH; eauto.
Qed.

Lemma NoDupBy_of_nth {A} (E : A -> A -> Prop) l :
  (forall i j x y, nth_error l i = Some x -> nth_error l j = Some y -> E x y -> i = j) -> NoDupBy E l.
Proof.
  induction l as [|h l IH]; intros H; constructor.
  - intros y I Ehy. apply In_nth_error in I. destruct I as [j Ej].
    specialize (H 0 (S j) h y eq_refl Ej Ehy). discriminate.
  - apply IH. intros i j x y Hi Hj Exy. specialize (H (S i) (S j) x y Hi Hj Exy). lia.
Qed.

Lemma subtree_inv2 s l r : subtree s (Node [l; r]) -> s = Node [l; r] \/ subtree s l \/ subtree s r.
Proof.
  intros H. inversion H as [|? c ? I S]; subst; [left; reflexivity|right].
  destruct I as [<-|[<-|[]]]; auto.
Qed.

Lemma subtree_leaves s t : subtree s t -> forall x, In x (leaves_of s) -> In x (leaves_of t).
Proof.
  induction 1 as [|s c cs I _ IH]; intros x Hx; [assumption|].
  simpl. apply in_flat_map. exists c. split; [assumption|apply IH; assumption].
Qed.

Lemma subtree_bin s t : subtree s t -> bin t -> bin s.
Proof.
  induction 1 as [|s c cs I _ IH]; intros B; [assumption|].
  inversion B; subst. destruct I as [<-|[<-|[]]]; auto.
Qed.

Lemma bin_has_leaf t : bin t -> exists x, In x (leaves_of t).
Proof.
  induction 1 as [a|l r _ [x Hx] _ _]; [exists a; left; reflexivity|].
  exists x. simpl. apply in_or_app. left; assumption.
Qed.

Lemma same_clades_refl t : same_clades t t.
Proof. split; intros s S; exists s; split; auto; intros x; tauto. Qed.

Lemma same_clades_sym t t' : same_clades t t' -> same_clades t' t.
Proof.
  intros [A B]. split; intros s S.
  - destruct (B s S) as (s' & S' & E). exists s'. split; [assumption|]. intros x. symmetry. apply E.
  - destruct (A s S) as (s' & S' & E). exists s'. split; [assumption|]. intros x. symmetry. apply E.
Qed.

Section RootSplit.
Variables l r l' r' : tree.
Hypothesis Bl : bin l. Hypothesis Br : bin r. Hypothesis Bl' : bin l'. Hypothesis Br' : bin r'.
Local Notation A := (leaves_of l). Local Notation B := (leaves_of r).
Local Notation A' := (leaves_of l'). Local Notation B' := (leaves_of r').
Hypothesis Dis : forall x, In x A -> ~ In x B.
Hypothesis Dis' : forall x, In x A' -> ~ In x B'.
Hypothesis SC : same_clades (Node [l; r]) (Node [l'; r']).

Lemma leaves_node2 (u v : tree) x : In x (leaves_of (Node [u; v])) <-> In x (leaves_of u) \/ In x (leaves_of v).
Proof. simpl. rewrite app_nil_r, in_app_iff. tauto. Qed.

(* a child of one root lies within a child of the other *)
Lemma child_within (u v u' v' c : tree) :
  bin u -> bin v -> (forall x, In x (leaves_of u) -> ~ In x (leaves_of v)) ->
  (forall s1, subtree s1 (Node [u; v]) -> exists s2, subtree s2 (Node [u'; v']) /\ seteq (leaves_of s1) (leaves_of s2)) ->
  (c = u \/ c = v) ->
  (exists s2, subtree s2 u' /\ seteq (leaves_of c) (leaves_of s2)) \/
  (exists s2, subtree s2 v' /\ seteq (leaves_of c) (leaves_of s2)).
Proof.
  intros Bu Bv D H C.
  assert (subtree c (Node [u; v])) as Sc
    by (destruct C as [-> | ->]; (eapply st_child; [|apply st_refl]); simpl; auto).
  destruct (H c Sc) as (s2 & S2 & E).
  destruct (subtree_inv2 _ _ _ S2) as [-> |[S|S]]; [exfalso|left; eauto|right; eauto].
  (* c would have all the leaves *)
  assert (forall x, In x (leaves_of (Node [u; v])) -> In x (leaves_of c)) as ALL.
  { intros x Hx. apply E.
    assert (subtree (Node [u; v]) (Node [u; v])) as S0 by apply st_refl.
    destruct (H _ S0) as (s3 & S3 & E3). apply (subtree_leaves _ _ S3). apply E3. assumption. }
  destruct (bin_has_leaf _ Bu) as [xu Hu]. destruct (bin_has_leaf _ Bv) as [xv Hv].
  destruct C as [-> | ->].
  - apply (D xv); [|assumption]. apply ALL. apply leaves_node2. right; assumption.
  - apply (D xu); [assumption|]. apply ALL. apply leaves_node2. left; assumption.
Qed.

Lemma root_split : (seteq A A' /\ seteq B B') \/ (seteq A B' /\ seteq B A').
Proof.
  destruct SC as [F G].
  assert (forall x, In x A \/ In x B <-> In x A' \/ In x B') as U.
  { intros x. rewrite <- !leaves_node2.
    destruct (F _ (st_refl _)) as (s2 & S2 & E2). destruct (G _ (st_refl _)) as (s1 & S1 & E1). split; intros Hx.
    - apply (subtree_leaves _ _ S2). apply E2. assumption.
    - apply (subtree_leaves _ _ S1). apply E1. assumption. }
  assert (forall (X Y : list nat) t s2, seteq X (leaves_of s2) -> subtree s2 t -> Y = leaves_of t -> forall x, In x X -> In x Y) as SUB.
  { intros X Y t s2 E S -> x Hx. apply (subtree_leaves _ _ S). apply E. assumption. }
  destruct (bin_has_leaf _ Bl) as [xa Ha]. destruct (bin_has_leaf _ Br) as [xb Hb].
  destruct (bin_has_leaf _ Bl') as [xa' Ha']. destruct (bin_has_leaf _ Br') as [xb' Hb'].
  destruct (child_within l r l' r' l Bl Br Dis F (or_introl eq_refl)) as [(s & S & E)|(s & S & E)];
  destruct (child_within l r l' r' r Bl Br Dis F (or_intror eq_refl)) as [(t & T & E')|(t & T & E')].
  - (* A, B both inside A' *) exfalso. apply (Dis' xb'); [|assumption].
    destruct (proj2 (U xb') (or_intror Hb')) as [I|I]; [eapply (SUB A A' l' s); eauto|eapply (SUB B A' l' t); eauto].
  - left. assert (forall x, In x A -> In x A') as AA by (eapply SUB; eauto).
    assert (forall x, In x B -> In x B') as BB by (eapply SUB; eauto).
    split; intros x; split; auto; intros Hx.
    + destruct (proj2 (U x) (or_introl Hx)) as [I|I]; [assumption|]. exfalso. apply (Dis' x); auto.
    + destruct (proj2 (U x) (or_intror Hx)) as [I|I]; [|assumption]. exfalso. apply (Dis' x); auto.
  - right. assert (forall x, In x A -> In x B') as AB by (eapply SUB; eauto).
    assert (forall x, In x B -> In x A') as BA by (eapply SUB; eauto).
    split; intros x; split; auto; intros Hx.
    + destruct (proj2 (U x) (or_intror Hx)) as [I|I]; [assumption|]. exfalso. apply (Dis' x); auto.
    + destruct (proj2 (U x) (or_introl Hx)) as [I|I]; [|assumption]. exfalso. apply (Dis' x); auto.
  - exfalso. apply (Dis' xa'); [assumption|].
    destruct (proj2 (U xa') (or_introl Ha')) as [I|I]; [eapply (SUB A B' r' s); eauto|eapply (SUB B B' r' t); eauto].
Qed.

End RootSplit.
(* when the root splits agree, the children have the same clades *)
Lemma within_child T T' u v u' v' :
  (T = Node [u; v] \/ T = Node [v; u]) -> (T' = Node [u'; v'] \/ T' = Node [v'; u']) ->
  bin u -> bin v -> (forall x, In x (leaves_of u) -> ~ In x (leaves_of v)) ->
  seteq (leaves_of u) (leaves_of u') -> seteq (leaves_of v) (leaves_of v') ->
  (forall s1, subtree s1 T -> exists s2, subtree s2 T' /\ seteq (leaves_of s1) (leaves_of s2)) ->
  forall s1, subtree s1 u -> exists s2, subtree s2 u' /\ seteq (leaves_of s1) (leaves_of s2).
Proof.
  intros HT HT' Bu Bv D EU EV H s1 S1.
  assert (subtree s1 T) as S1T.
  { destruct HT as [-> | ->]; eapply st_child; try exact S1; simpl; auto. }
  destruct (H s1 S1T) as (s2 & S2 & E).
  destruct (bin_has_leaf _ (subtree_bin _ _ S1 Bu)) as [x Hx].
  assert (In x (leaves_of u)) as Hxu by (eapply subtree_leaves; eauto).
  destruct (bin_has_leaf _ Bv) as [xv Hv].
  assert (s2 = T' \/ subtree s2 u' \/ subtree s2 v') as [-> |[S|S]].
  { destruct HT' as [-> | ->]; destruct (subtree_inv2 _ _ _ S2) as [?|[?|?]]; auto. }
  - exfalso. apply (D xv); [|assumption].
    apply (subtree_leaves _ _ S1). apply E.
    apply EV in Hv. destruct HT' as [-> | ->]; simpl; rewrite app_nil_r; apply in_or_app; auto.
  - eauto.
  - exfalso. apply (D x); [assumption|]. apply EV. apply (subtree_leaves _ _ S). apply E. assumption.
Qed.

Lemma children_same l r l' r' : bin l -> bin r -> bin l' -> bin r' ->
  (forall x, In x (leaves_of l) -> ~ In x (leaves_of r)) ->
  seteq (leaves_of l) (leaves_of l') -> seteq (leaves_of r) (leaves_of r') ->
  same_clades (Node [l; r]) (Node [l'; r']) -> same_clades l l' /\ same_clades r r'.
Proof.
  intros Bl Br Bl' Br' D EL ER [F G].
  assert (forall x, In x (leaves_of r) -> ~ In x (leaves_of l)) as D2 by (intros x Hr Hl; apply (D x); assumption).
  assert (forall x, In x (leaves_of l') -> ~ In x (leaves_of r')) as D' by (intros x Hl Hr; apply (D x); [apply EL|apply ER]; assumption).
  assert (forall x, In x (leaves_of r') -> ~ In x (leaves_of l')) as D2' by (intros x Hr Hl; apply (D' x); assumption).
  assert (forall a b, seteq a b -> seteq b a) as SY by (intros a b E x; symmetry; apply E).
  assert (forall s2, subtree s2 (Node [l'; r']) -> exists s1, subtree s1 (Node [l; r]) /\ seteq (leaves_of s2) (leaves_of s1)) as G'.
  { intros s2 S2. destruct (G s2 S2) as (s1 & S1 & E). exists s1. split; auto. }
  split; split.
  - apply (within_child (Node [l; r]) (Node [l'; r']) l r l' r' (or_introl eq_refl) (or_introl eq_refl) Bl Br D EL ER F).
  - intros s2 S2. destruct (within_child _ _ l' r' l r (or_introl eq_refl) (or_introl eq_refl) Bl' Br' D' (SY _ _ EL) (SY _ _ ER) G' s2 S2)
      as (s1 & S1 & E). exists s1. split; auto.
  - apply (within_child (Node [l; r]) (Node [l'; r']) r l r' l' (or_intror eq_refl) (or_intror eq_refl) Br Bl D2 ER EL F).
  - intros s2 S2. destruct (within_child _ _ r' l' r l (or_intror eq_refl) (or_intror eq_refl) Br' Bl' D2' (SY _ _ ER) (SY _ _ EL) G' s2 S2)
      as (s1 & S1 & E). exists s1. split; auto.
Qed.

Lemma NoDupBy_map_in {A B} (E : B -> B -> Prop) (E' : A -> A -> Prop) (f : A -> B) l :
  (forall x y, In x l -> In y l -> E (f x) (f y) -> E' x y) -> NoDupBy E' l -> NoDupBy E (map f l).
Proof.
  intros H ND. induction ND as [|x l C ND IH]; simpl; constructor.
  - intros y I. apply in_map_iff in I. destruct I as (z & <- & I). intros Exy.
    apply (C z I). apply H; [left; reflexivity|right; assumption|assumption].
  - apply IH. intros a b Ia Ib. apply H; right; assumption.
Qed.

Lemma in_product ls rs t : In t (product_trees ls rs) <-> exists l r, In l ls /\ In r rs /\ t = Node [l; r].
Proof.
  unfold product_trees. rewrite in_flat_map. split.
  - intros (l & Il & I). apply in_map_iff in I. destruct I as (r & <- & Ir). eauto.
  - intros (l & r & Il & Ir & ->). exists l. split; [assumption|]. apply (in_map (fun r0 => Node [l; r0])). assumption.
Qed.

Lemma NoDupBy_product ls rs (A0 B0 : list nat) :
  NoDupBy same_clades ls -> NoDupBy same_clades rs ->
  (forall l, In l ls -> bin l /\ seteq (leaves_of l) A0) ->
  (forall r, In r rs -> bin r /\ seteq (leaves_of r) B0) ->
  (forall x, In x A0 -> ~ In x B0) ->
  NoDupBy same_clades (product_trees ls rs).
Proof.
  intros NL NR HL HR D.
  assert (forall l r l' r', In l ls -> In l' ls -> In r rs -> In r' rs ->
            same_clades (Node [l; r]) (Node [l'; r']) -> same_clades l l' /\ same_clades r r') as CS.
  { intros l r l' r' Il Il' Ir Ir' S.
    destruct (HL l Il) as [Bl El]. destruct (HL l' Il') as [Bl' El'].
    destruct (HR r Ir) as [Br Er]. destruct (HR r' Ir') as [Br' Er'].
    apply children_same; auto.
    - intros x Hl Hr. apply (D x); [apply El|apply Er]; assumption.
    - intros x. rewrite (El x), (El' x). tauto.
    - intros x. rewrite (Er x), (Er' x). tauto. }
  clear HL HR D. revert CS. induction NL as [|l ls C NL IH]; intros CS; [constructor|].
  change (product_trees (l :: ls) rs) with (map (fun r => Node [l; r]) rs ++ product_trees ls rs).
  apply NoDupBy_app.
  - apply (NoDupBy_map_in _ same_clades); [|assumption].
    intros r r' Ir Ir' S. apply (CS l r l r'); simpl; auto.
  - apply IH. intros a b a' b' Ia Ia'. apply CS; right; assumption.
  - intros x y Ix Iy S. apply in_map_iff in Ix. destruct Ix as (r & <- & Ir).
    apply in_product in Iy. destruct Iy as (l' & r' & Il' & Ir' & ->).
    apply (C l' Il'). apply (CS l r l' r'); simpl; auto.
Qed.

(* ----------------------------------------------------- all_trees_from_triples *)
Definition good (L : list nat) (T : list triple) (t : tree) : Prop :=
  bin t /\ Permutation (leaves_of t) L /\ forall tr, In tr T -> displays t tr.

Section AllTrees.
Variable leaves : list nat.
Variable triples : list triple.
Hypothesis NL : NoDup leaves.
Hypothesis Hp : forall tr, In tr triples -> proper leaves tr.
Local Notation n := (length leaves).

Definition from_bin (b : dsu) (t : tree) : Prop :=
  exists d' g0 g1 l r, to_list b = Ok (d', [g0; g1]) /\ t = Node [l; r] /\ bin l /\ bin r /\
    Permutation (leaves_of l) (gl leaves g0) /\ Permutation (leaves_of r) (gl leaves g1).

Lemma nth_pos i : i < n -> pos leaves (nth i leaves 0) = i.
Proof.
  intros Hi. assert (In (nth i leaves 0) leaves) as I by (apply nth_In; assumption).
  destruct (lookup_pos leaves _ I) as [_ E].
  apply (proj1 (NoDup_nth leaves 0) NL); auto using pos_lt. apply nth_error_nth. assumption.
Qed.

Lemma gl_seteq g g' : (forall i, In i g -> i < n) -> (forall i, In i g' -> i < n) ->
  seteq (gl leaves g) (gl leaves g') -> seteq g g'.
Proof.
  assert (forall g g', (forall i, In i g -> i < n) -> (forall i, In i g' -> i < n) ->
            (forall x, In x (gl leaves g) -> In x (gl leaves g')) -> forall i, In i g -> In i g') as ONE.
  { intros h h' R R' S i Ii. rewrite <- (nth_pos i (R i Ii)). apply gl_in_pos; auto.
    apply S. apply (in_map (fun j => nth j leaves 0)). assumption. }
  intros R R' S i. split; apply ONE; auto; intros x; apply S.
Qed.

Lemma same_two_partition (R R' : nat -> nat -> Prop) g0 g1 g0' g1' :
  is_partition n R [g0; g1] -> is_partition n R' [g0'; g1'] ->
  (seteq (gl leaves g0) (gl leaves g0') /\ seteq (gl leaves g1) (gl leaves g1')) \/
  (seteq (gl leaves g0) (gl leaves g1') /\ seteq (gl leaves g1) (gl leaves g0')) ->
  forall x y, x < n -> y < n -> (R x y <-> R' x y).
Proof.
  intros (_ & _ & Cov & Q) (_ & _ & Cov' & Q') H x y Hx Hy.
  assert (forall g, In g [g0; g1] -> forall i, In i g -> i < n) as RG
    by (intros g Ig i Ii; apply Cov; apply in_concat; eauto).
  assert (forall g, In g [g0'; g1'] -> forall i, In i g -> i < n) as RG'
    by (intros g Ig i Ii; apply Cov'; apply in_concat; eauto).
  rewrite (Q x y Hx Hy), (Q' x y Hx Hy).
  assert ((seteq g0 g0' /\ seteq g1 g1') \/ (seteq g0 g1' /\ seteq g1 g0')) as [[E0 E1]|[E0 E1]].
  { assert (forall g g', In g [g0; g1] -> In g' [g0'; g1'] -> seteq (gl leaves g) (gl leaves g') -> seteq g g') as GS
      by (intros g g' Ig Ig' E; apply gl_seteq; [apply (RG g Ig)|apply (RG' g' Ig')|exact E]).
    destruct H as [[A B]|[A B]]; [left|right]; split; apply GS; simpl; auto. }
  - split; intros (g & [<-|[<-|[]]] & Ix & Iy).
    + exists g0'. simpl. rewrite <- !(E0 _). auto.
    + exists g1'. simpl. rewrite <- !(E1 _). auto.
    + exists g0. simpl. rewrite !(E0 _). auto.
    + exists g1. simpl. rewrite !(E1 _). auto.
  - split; intros (g & [<-|[<-|[]]] & Ix & Iy).
    + exists g1'. simpl. rewrite <- !(E0 _). auto.
    + exists g0'. simpl. rewrite <- !(E1 _). auto.
    + exists g1. simpl. rewrite !(E1 _). auto.
    + exists g0. simpl. rewrite !(E0 _). auto.
Qed.

Lemma represents_two b R : represents n b R -> len b = 2%Z ->
  exists d' g0 g1, to_list b = Ok (d', [g0; g1]) /\ is_partition n R [g0; g1].
Proof.
  intros (d' & l & T & P & Ln) L2. rewrite L2 in Ln.
  destruct l as [|g0 [|g1 [|g2 l]]]; simpl in Ln; try lia. eauto.
Qed.

Lemma represents_ext b (R R' : nat -> nat -> Prop) :
  (forall x y, x < n -> y < n -> (R x y <-> R' x y)) -> represents n b R -> represents n b R'.
Proof.
  intros E (d' & l & T & (P1 & P2 & P3 & P4) & Ln). exists d', l. split; [assumption|]. split; [|assumption].
  repeat (split; [assumption|]). intros x y Hx Hy. rewrite <- (E x y Hx Hy). auto.
Qed.

Lemma NoDup_app_disj {A} (a b : list A) x : NoDup (a ++ b) -> In x a -> In x b -> False.
Proof.
  induction a as [|y a IH]; simpl; intros ND Ia Ib; [destruct Ia|].
  inversion ND as [|? ? NI ND']; subst. destruct Ia as [->|Ia]; [apply NI; apply in_or_app; right; assumption|auto].
Qed.

Lemma two_partition_facts (R : nat -> nat -> Prop) g0 g1 : is_partition n R [g0; g1] ->
  (forall i, In i g0 -> i < n) /\ (forall i, In i g1 -> i < n) /\ NoDup g0 /\ NoDup g1 /\
  g0 <> [] /\ g1 <> [] /\
  (forall x, In x (gl leaves g0) -> ~ In x (gl leaves g1)).
Proof.
  intros (NE & ND & Cov & _). simpl in ND, Cov. rewrite app_nil_r in ND, Cov.
  assert (forall i, In i g0 -> i < n) as R0 by (intros i Ii; apply Cov; apply in_or_app; auto).
  assert (forall i, In i g1 -> i < n) as R1 by (intros i Ii; apply Cov; apply in_or_app; auto).
  destruct (NoDup_app_inv _ _ ND) as [N0 N1].
  repeat (split; [solve [auto | apply NE; simpl; auto]|]).
  intros x H0 H1. apply (gl_in_pos leaves g0 x NL R0) in H0. apply (gl_in_pos leaves g1 x NL R1) in H1.
  eapply NoDup_app_disj; eauto.
Qed.

(* trees built from two different bipartitions differ in their clades *)
Lemma from_bin_cross b b' t t' R R' :
  represents n b R -> len b = 2%Z -> represents n b' R' -> len b' = 2%Z ->
  from_bin b t -> from_bin b' t' -> same_clades t t' ->
  exists R0, represents n b R0 /\ represents n b' R0.
Proof.
  intros Rb Lb Rb' Lb' (d1 & g0 & g1 & l & r & T & -> & Bl & Br & Pl & Pr)
         (d1' & g0' & g1' & l' & r' & T' & -> & Bl' & Br' & Pl' & Pr') SC.
  destruct (represents_two _ _ Rb Lb) as (d2 & h0 & h1 & T2 & P). rewrite T in T2. inversion T2; subst h0 h1.
  destruct (represents_two _ _ Rb' Lb') as (d2' & h0 & h1 & T2' & P'). rewrite T' in T2'. inversion T2'; subst h0 h1.
  exists R. split; [assumption|]. apply (represents_ext b' R'); [|assumption].
  intros x y Hx Hy. symmetry. revert x y Hx Hy. apply (same_two_partition R R' g0 g1 g0' g1' P P').
  assert (forall g u, Permutation (leaves_of u) (gl leaves g) -> forall x, In x (leaves_of u) <-> In x (gl leaves g)) as PI.
  { intros g u Pu x. split; apply Permutation_in; [assumption|symmetry; assumption]. }
  destruct (two_partition_facts _ _ _ P) as (_ & _ & _ & _ & _ & _ & D).
  destruct (two_partition_facts _ _ _ P') as (_ & _ & _ & _ & _ & _ & D').
  destruct (root_split l r l' r' Bl Br Bl' Br') as [[E0 E1]|[E0 E1]]; auto.
  - intros x Hl Hr. apply (D x); [apply (PI g0 l Pl)|apply (PI g1 r Pr)]; assumption.
  - intros x Hl Hr. apply (D' x); [apply (PI g0' l' Pl')|apply (PI g1' r' Pr')]; assumption.
  - left. split; intros x.
    + rewrite <- (PI g0 l Pl x), <- (PI g0' l' Pl' x). apply E0.
    + rewrite <- (PI g1 r Pr x), <- (PI g1' r' Pr' x). apply E1.
  - right. split; intros x.
    + rewrite <- (PI g0 l Pl x), <- (PI g1' r' Pr' x). apply E0.
    + rewrite <- (PI g1 r Pr x), <- (PI g0' l' Pl' x). apply E1.
Qed.

End AllTrees.
Lemma node_leaves_perm leaves triples (R : nat -> nat -> Prop) gs ss :
  is_partition (length leaves) R gs -> Forall2 (sub_ok leaves triples) gs ss ->
  Permutation (leaves_of (Node ss)) leaves.
Proof.
  intros P F. simpl. eapply Permutation_trans; [eapply flat_map_perm; eassumption|].
  unfold gl. eapply Permutation_trans; [apply Permutation_map; exact (partition_perm _ _ _ P)|].
  rewrite map_nth_seq. apply Permutation_refl.
Qed.

Section AllBins.
Variable leaves : list nat.
Variable triples : list triple.
Hypothesis NL : NoDup leaves.
Hypothesis Hp : forall tr, In tr triples -> proper leaves tr.
Local Notation n := (length leaves).
Variable rec : list nat -> list triple -> res (list tree).
Hypothesis Hrec : forall g, NoDup g -> (forall i, In i g -> i < n) -> length g < n ->
  exists ts, rec (gl leaves g) (filter (inside (gl leaves g)) triples) = Ok ts /\
             Forall (good (gl leaves g) (filter (inside (gl leaves g)) triples)) ts /\
             NoDupBy same_clades ts.

Definition same_rep (b b' : dsu) : Prop := exists R0, represents n b R0 /\ represents n b' R0.

Lemma all_bins_spec : forall bins,
  (forall b, In b bins -> exists R : nat -> nat -> Prop, represents n b R /\ len b = 2%Z /\
       forall x y z, In (x, y, z) triples -> R (pos leaves x) (pos leaves y)) ->
  NoDupBy same_rep bins ->
  exists ts, all_bins rec leaves triples bins = Ok ts /\
             Forall (good leaves triples) ts /\ NoDupBy same_clades ts /\
             Forall (fun t => exists b, In b bins /\ from_bin leaves b t) ts.
Proof.
  induction bins as [|b rest IH]; intros H1 H3.
  - exists []. repeat split; constructor.
  - inversion H3 as [|? ? C3 H3']; subst.
    destruct (IH (fun b' I => H1 b' (or_intror I)) H3') as (more & Em & Gm & Nm & Fm).
    destruct (H1 b (or_introl eq_refl)) as (R & Rb & Lb & RT).
    destruct (represents_two leaves b R Rb Lb) as (d' & g0 & g1 & T & P).
    destruct (two_partition_facts leaves NL R g0 g1 P) as (R0 & R1 & N0 & N1 & NE0 & NE1 & D).
    assert (length g0 < n /\ length g1 < n) as [L0 L1].
    { pose proof (Permutation_length (partition_perm _ _ _ P)) as LC. rewrite seq_length in LC.
      destruct P as (NE & _). split; rewrite <- LC; apply group_smaller; simpl; auto. }
    destruct (Hrec g0 N0 R0 L0) as (ls & El & Gl & Nl). destruct (Hrec g1 N1 R1 L1) as (rs & Er & Gr & Nr).
    assert (all_bins rec leaves triples (b :: rest) = Ok (product_trees ls rs ++ more)) as E.
    { simpl. rewrite T. simpl. rewrite (get_all_ok leaves g0 R0). simpl. rewrite (get_all_ok leaves g1 R1). simpl.
      fold (gl leaves g0). fold (gl leaves g1). rewrite El. simpl. rewrite Er. simpl. rewrite Em. reflexivity. }
    rewrite Forall_forall in Gl, Gr.
    assert (forall l r, In l ls -> In r rs -> Forall2 (sub_ok leaves triples) [g0; g1] [l; r]) as SUB.
    { intros l r Il Ir. destruct (Gl l Il) as (_ & Pl & Dl). destruct (Gr r Ir) as (_ & Pr & Dr).
      repeat constructor; assumption. }
    exists (product_trees ls rs ++ more). split; [assumption|]. split; [|split].
    + apply Forall_app. split; [|assumption]. apply Forall_forall. intros t It.
      apply in_product in It. destruct It as (l & r & Il & Ir & ->).
      split; [constructor; [apply (Gl l Il)|apply (Gr r Ir)]|]. split.
      * eapply node_leaves_perm; eauto.
      * intros [[x y] z] I. eapply (node_displays leaves triples R); eauto.
    + apply NoDupBy_app; [|assumption|].
      * apply (NoDupBy_product ls rs (gl leaves g0) (gl leaves g1)); auto.
        -- intros l Il. destruct (Gl l Il) as (Bl & Pl & _). split; [assumption|].
           intros x. split; apply Permutation_in; [assumption|symmetry; assumption].
        -- intros r Ir. destruct (Gr r Ir) as (Br & Pr & _). split; [assumption|].
           intros x. split; apply Permutation_in; [assumption|symmetry; assumption].
      * intros t t' It It' SC. apply in_product in It. destruct It as (l & r & Il & Ir & ->).
        rewrite Forall_forall in Fm. destruct (Fm t' It') as (b' & Ib' & FB').
        destruct (H1 b' (or_intror Ib')) as (R' & Rb' & Lb' & _).
        apply (C3 b' Ib').
        apply (from_bin_cross leaves NL b b' (Node [l; r]) t' R R'); auto.
        exists d', g0, g1, l, r. destruct (Gl l Il) as (Bl & Pl & _). destruct (Gr r Ir) as (Br & Pr & _).
        repeat split; assumption.
    + apply Forall_app. split.
      * apply Forall_forall. intros t It. apply in_product in It. destruct It as (l & r & Il & Ir & ->).
        exists b. split; [left; reflexivity|].
        exists d', g0, g1, l, r. destruct (Gl l Il) as (Bl & Pl & _). destruct (Gr r Ir) as (Br & Pr & _).
        repeat split; assumption.
      * eapply Forall_impl; [|exact Fm]. intros t (b' & Ib' & FB'). exists b'. split; [right; assumption|assumption].
Qed.

End AllBins.

Lemma all_trees_aux_spec ord : set_order ord -> forall fuel leaves triples,
  length leaves <= fuel -> NoDup leaves -> (forall tr, In tr triples -> proper leaves tr) ->
  exists ts, all_trees_aux ord fuel leaves triples = Ok ts /\
             Forall (good leaves triples) ts /\ NoDupBy same_clades ts.
Proof.
  intros SO. induction fuel as [|f IH]; intros leaves triples Lf NL Hp.
  - destruct leaves; [|simpl in Lf; lia]. exists []. repeat split; constructor.
  - destruct leaves as [|a [|b [|c rest]]].
    + exists []. repeat split; constructor.
    + exists [Leaf a]. split; [reflexivity|]. split.
      * constructor; [|constructor]. split; [constructor|]. split; [apply Permutation_refl|apply base1; assumption].
      * constructor; [intros y []|constructor].
    + exists [Node [Leaf a; Leaf b]]. split; [reflexivity|]. split.
      * constructor; [|constructor]. split; [repeat constructor|]. split; [apply Permutation_refl|apply base2; assumption].
      * constructor; [intros y []|constructor].
    + remember (a :: b :: c :: rest) as leaves eqn:EL.
      assert (all_trees_aux ord (S f) leaves triples =
              (d <- unite_triples leaves triples (make (length leaves)) ;;
               ' (_, bins) <- binary ord d ;;
               all_bins (all_trees_aux ord f) leaves triples bins)) as ->
        by (subst leaves; reflexivity).
      clear a b c rest EL.
      destruct (unite_triples_reach leaves triples [] (make (length leaves)) (R_make _) Hp) as (d & -> & R).
      simpl in R. simpl bind.
      destruct (dsu_binary _ _ _ ord R SO) as (d1 & bs & -> & _ & Sound & _ & Once). simpl bind.
      destruct (all_bins_spec leaves triples NL Hp (all_trees_aux ord f)) with (bins := bs) as (ts & E & G & N & _).
      * intros g Ng Rg Lg. apply IH.
        -- unfold gl. rewrite map_length. lia.
        -- apply NoDup_gl; assumption.
        -- apply filter_proper; assumption.
      * intros b0 Ib. destruct (Sound b0 Ib) as (L2 & s & (S1 & _) & Rs).
        exists (fun x y => s x = s y). split; [assumption|]. split; [assumption|].
        intros x y z I. destruct (Hp _ I) as (Ix & Iy & _).
        apply S1; auto using pos_lt. apply eqv_pair. apply (in_map (idx leaves) _ _ I).
      * apply NoDupBy_of_nth. intros i j bi bj Ei Ej (R0 & Ri & Rj). eapply Once; eauto.
      * exists ts. auto.
Qed.

(* --- all_trees_sound_nodup --- *)
Theorem all_trees_sound_nodup ord leaves triples :
  set_order ord -> NoDup leaves -> (forall tr, In tr triples -> proper leaves tr) ->
  exists ts, all_trees ord leaves triples = Ok ts /\
    Forall (fun t => bin t /\ Permutation (leaves_of t) leaves /\
                     forall tr, In tr triples -> displays t tr) ts /\
    NoDupBy same_clades ts.
Proof.
  intros SO NL Hp. unfold all_trees.
  destruct (build_sound leaves triples NL Hp) as [-> |(t & -> & _)]; simpl.
  - exists []. repeat split; constructor.
  - apply all_trees_aux_spec; auto.
Qed.

Corollary all_trees_once ord leaves triples ts :
  set_order ord -> NoDup leaves -> (forall tr, In tr triples -> proper leaves tr) ->
  all_trees ord leaves triples = Ok ts ->
  forall i j ti tj, nth_error ts i = Some ti -> nth_error ts j = Some tj -> same_clades ti tj -> i = j.
Proof.
  intros SO NL Hp E. destruct (all_trees_sound_nodup ord leaves triples SO NL Hp) as (ts' & E' & _ & N).
  rewrite E in E'. inversion E'; subst ts'.
  apply (NoDupBy_nth same_clades ts); auto using same_clades_refl, same_clades_sym.
Qed.
(* ------------------------------------------------------------ build_complete *)
Fixpoint child_idx (cs : list tree) (x : nat) : nat :=
  match cs with
  | [] => 0
  | c :: r => if mem x (leaves_of c) then 0 else S (child_idx r x)
  end.

Lemma child_idx_path : forall cs x i p, NoDup (flat_map leaves_of cs) ->
  leaf_path (Node cs) x (i :: p) -> child_idx cs x = i.
Proof.
  intros cs x i p ND H. inversion H as [|? ? c ? ? E Hp]; subst.
  apply leaf_path_in in Hp. clear H. revert i E ND.
  induction cs as [|c0 cs IH]; intros [|i] E ND; simpl in *; try discriminate.
  - inversion E; subst. rewrite (proj2 (mem_in x _) Hp). reflexivity.
  - destruct (mem x (leaves_of c0)) eqn:M.
    + exfalso. apply mem_in in M. apply (NoDup_app_disj _ _ x ND M).
      apply in_flat_map. exists c. split; [eapply nth_error_In; eauto|assumption].
    + f_equal. apply IH; [assumption|]. apply NoDup_app_inv in ND. tauto.
Qed.

Lemma NoDup_child cs i c : NoDup (flat_map leaves_of cs) -> nth_error cs i = Some c -> NoDup (leaves_of c).
Proof.
  revert i. induction cs as [|c0 cs IH]; intros [|i] ND E; simpl in *; try discriminate;
    apply NoDup_app_inv in ND; destruct ND as [N0 N1].
  - inversion E; subst. assumption.
  - eapply IH; eauto.
Qed.

Lemma all_or_one {A} (f : A -> bool) (l : list A) :
  (forall x, In x l -> f x = true) \/ (exists x, In x l /\ f x = false).
Proof.
  induction l as [|a l [IH|(x & I & F)]].
  - left. intros x [].
  - destruct (f a) eqn:E; [left|right; exists a; split; [left; reflexivity|assumption]].
    intros x [<-|I]; auto.
  - right. exists x. split; [right; assumption|assumption].
Qed.

(* a displaying tree separates two of the leaves by a function that every triple respects *)
Lemma separated : forall T, NoDup (leaves_of T) ->
  forall (L : list nat) (triples : list triple) x0 y0,
  In x0 L -> In y0 L -> x0 <> y0 -> (forall x, In x L -> In x (leaves_of T)) ->
  (forall tr, In tr triples -> proper L tr /\ displays T tr) ->
  exists inv : nat -> nat,
    (forall a b c, In (a, b, c) triples -> inv a = inv b) /\
    exists x y, In x L /\ In y L /\ inv x <> inv y.
Proof.
  induction T as [a|cs IH] using tree_ind'; intros ND L triples x0 y0 Ix Iy Nxy Inc Ht.
  - exfalso. apply Nxy. destruct (Inc x0 Ix) as [<-|[]]. destruct (Inc y0 Iy) as [<-|[]]. reflexivity.
  - simpl in ND.
    assert (forall x, In x L -> exists p, leaf_path (Node cs) x (child_idx cs x :: p)) as PATH.
    { intros x I. destruct (leaf_path_exists _ _ (Inc x I)) as [p Hp].
      inversion Hp as [|? i c ? q E Hq]; subst. rewrite (child_idx_path cs x i q ND Hp). eauto. }
    destruct (all_or_one (fun x => child_idx cs x =? child_idx cs x0) L) as [ALL|(x & I & F)].
    + (* all the leaves below one child: descend *)
      destruct (PATH x0 Ix) as [p0 H0]. inversion H0 as [|? ? c0 ? ? E0 _]; subst.
      rewrite Forall_forall in IH.
      apply (IH c0 (nth_error_In _ _ E0) (NoDup_child _ _ _ ND E0) L triples x0 y0); auto.
      * intros x I. destruct (PATH x I) as [p H]. pose proof (ALL x I) as Ax. apply Nat.eqb_eq in Ax. rewrite Ax in H.
        inversion H as [|? ? c ? ? E Hq]; subst. rewrite E0 in E. inversion E; subst. eapply leaf_path_in; eauto.
      * intros [[a b] c] It. destruct (Ht _ It) as [Pr (pa & pb & pc & Ha & Hb & Hc & Lt)]. split; [assumption|].
        destruct Pr as (Ia & Ib & Ic & _).
        assert (forall z pz, In z L -> leaf_path (Node cs) z pz ->
                  exists q, pz = child_idx cs x0 :: q /\ leaf_path c0 z q) as SUBP.
        { intros z pz Iz Hz. inversion Hz as [|? i cz ? q E Hq]; subst.
          pose proof (child_idx_path cs z i q ND Hz) as Ci. pose proof (ALL z Iz) as Az. apply Nat.eqb_eq in Az.
          rewrite Az in Ci. subst i. rewrite E0 in E. inversion E; subst. eauto. }
        destruct (SUBP a pa Ia Ha) as (qa & -> & Ha'). destruct (SUBP b pb Ib Hb) as (qb & -> & Hb').
        destruct (SUBP c pc Ic Hc) as (qc & -> & Hc').
        exists qa, qb, qc. repeat split; auto. simpl in Lt. rewrite Nat.eqb_refl in Lt. simpl in Lt. lia.
    + (* two children are used *)
      exists (child_idx cs). split.
      * intros a b c It. destruct (Ht _ It) as [_ (pa & pb & pc & Ha & Hb & _ & Lt)].
        destruct pa as [|i pa]; [inversion Ha|]. destruct pb as [|j pb]; [inversion Hb|].
        simpl in Lt. destruct (Nat.eqb_spec i j) as [->|N]; [|simpl in Lt; lia].
        rewrite (child_idx_path cs a j pa ND Ha), (child_idx_path cs b j pb ND Hb). reflexivity.
      * exists x, x0. split; [assumption|]. split; [assumption|]. apply Nat.eqb_neq. assumption.
Qed.

Lemma eqv_respects leaves triples (inv : nat -> nat) :
  (forall tr, In tr triples -> proper leaves tr) ->
  (forall a b c, In (a, b, c) triples -> inv a = inv b) ->
  forall i j, eqv (map (idx leaves) triples) i j -> inv (nth i leaves 0) = inv (nth j leaves 0).
Proof.
  intros Hp H i j E. induction E as [i j I| | |]; try congruence.
  apply in_map_iff in I. destruct I as ([[a b] c] & E & I). simpl in E. inversion E; subst.
  destruct (Hp _ I) as (Ia & Ib & _).
  destruct (lookup_pos leaves a Ia) as [_ Ea]. destruct (lookup_pos leaves b Ib) as [_ Eb].
  rewrite (nth_error_nth _ _ 0 Ea), (nth_error_nth _ _ 0 Eb). eapply H; eauto.
Qed.

Lemma build_groups_some rec leaves triples : forall gs acc,
  (forall g, In g gs -> (forall i, In i g -> i < length leaves) /\
     exists s, rec (gl leaves g) (filter (inside (gl leaves g)) triples) = Ok (Some s)) ->
  exists t, build_groups rec leaves triples gs acc = Ok (Some t).
Proof.
  induction gs as [|g gs IH]; intros acc H; simpl; [eauto|].
  destruct (H g (or_introl eq_refl)) as [Hr (s & E)].
  rewrite (get_all_ok leaves g Hr). simpl. fold (gl leaves g). rewrite E. simpl.
  apply IH. intros h Ih. apply H. right; assumption.
Qed.

Lemma build_complete_aux T : NoDup (leaves_of T) -> forall fuel leaves triples,
  length leaves <= fuel -> leaves <> [] -> NoDup leaves ->
  (forall x, In x leaves -> In x (leaves_of T)) ->
  (forall tr, In tr triples -> proper leaves tr) ->
  (forall tr, In tr triples -> displays T tr) ->
  exists t, build fuel leaves triples = Ok (Some t).
Proof.
  intros NT. induction fuel as [|f IH]; intros leaves triples Lf NE NL Inc Hp Hd.
  - destruct leaves; [congruence|simpl in Lf; lia].
  - destruct leaves as [|a [|b [|c rest]]]; [congruence|eexists; reflexivity|eexists; reflexivity|].
    remember (a :: b :: c :: rest) as leaves eqn:EL.
    assert (build (S f) leaves triples =
            (d <- unite_triples leaves triples (make (length leaves)) ;;
             if (len d <=? 1)%Z then Ok None
             else ' (_, gs) <- to_list d ;; build_groups (build f) leaves triples gs [])) as ->
      by (subst leaves; reflexivity).
    assert (In a leaves /\ In b leaves /\ a <> b) as (Ia & Ib & Nab).
    { subst leaves. simpl. repeat split; auto. inversion NL as [|? ? NI _]; subst. intros ->. apply NI. left; reflexivity. }
    clear EL.
    destruct (unite_triples_reach leaves triples [] (make (length leaves)) (R_make _) Hp) as (d & -> & R).
    simpl in R. simpl bind.
    destruct (dsu_to_list _ _ _ R) as (d' & gs & TL & P & Ln & _).
    pose proof P as (NEg & ND & Cov & Q).
    destruct (separated T NT leaves triples a b Ia Ib Nab Inc) as (inv & Hinv & x & y & Ix & Iy & Nxy).
    { intros tr I. split; auto. }
    assert (2 <= length gs) as L2.
    { destruct gs as [|g [|g' gs]]; [| |simpl; lia]; exfalso.
      - assert (In (pos leaves x) (concat [])) as [] by (apply Cov; apply pos_lt; assumption).
      - apply Nxy.
        assert (eqv (map (idx leaves) triples) (pos leaves x) (pos leaves y)) as E.
        { apply Q; auto using pos_lt. exists g. split; [left; reflexivity|].
          split; [pose proof (proj2 (Cov (pos leaves x)) (pos_lt _ _ Ix)) as H|pose proof (proj2 (Cov (pos leaves y)) (pos_lt _ _ Iy)) as H];
            simpl in H; rewrite app_nil_r in H; assumption. }
        pose proof (eqv_respects leaves triples inv Hp Hinv _ _ E) as K.
        destruct (lookup_pos leaves x Ix) as [_ Ex]. destruct (lookup_pos leaves y Iy) as [_ Ey].
        rewrite (nth_error_nth _ _ 0 Ex), (nth_error_nth _ _ 0 Ey) in K. assumption. }
    destruct (Z.leb_spec (len d) 1) as [Le|Gt]; [lia|]. rewrite TL. simpl bind.
    pose proof (Permutation_length (partition_perm _ _ _ P)) as LC. rewrite seq_length in LC.
    assert (forall g, In g gs -> forall i, In i g -> i < length leaves) as RANGE.
    { intros g Ig i Ii. apply Cov. apply in_concat. eauto. }
    apply build_groups_some. intros g Ig. split; [apply RANGE; assumption|].
    apply IH.
    + unfold gl. rewrite map_length. pose proof (group_smaller gs g NEg L2 Ig). lia.
    + specialize (NEg g Ig). destruct g; [congruence|discriminate].
    + apply NoDup_gl; eauto using NoDup_concat_in.
    + intros z Iz. apply Inc. unfold gl in Iz. apply in_map_iff in Iz. destruct Iz as (i & <- & Ii).
      apply nth_In. apply (RANGE g Ig i Ii).
    + apply filter_proper; assumption.
    + intros tr I. apply filter_In in I. apply Hd. tauto.
Qed.

(* --- build_complete: if some tree displays every triple, tree_from_triples finds one --- *)
Theorem build_complete leaves triples T :
  leaves <> [] -> NoDup leaves -> (forall tr, In tr triples -> proper leaves tr) ->
  NoDup (leaves_of T) -> (forall x, In x leaves -> In x (leaves_of T)) ->
  (forall tr, In tr triples -> displays T tr) ->
  exists t, tree_from_triples leaves triples = Ok (Some t).
Proof. intros. eapply build_complete_aux; eauto. Qed.
(* --------------------------------------------------------- all_trees_complete *)
Lemma same_clades_root t t' : same_clades t t' -> seteq (leaves_of t) (leaves_of t').
Proof.
  intros [F G]. destruct (F t (st_refl t)) as (s2 & S2 & E2). destruct (G t' (st_refl t')) as (s1 & S1 & E1).
  intros x. split; intros H.
  - apply (subtree_leaves _ _ S2). apply E2. assumption.
  - apply (subtree_leaves _ _ S1). apply E1. assumption.
Qed.

Lemma same_clades_trans t1 t2 t3 : same_clades t1 t2 -> same_clades t2 t3 -> same_clades t1 t3.
Proof.
  intros [F1 G1] [F2 G2]. split; intros s S.
  - destruct (F1 s S) as (s2 & S2 & E2). destruct (F2 s2 S2) as (s3 & S3 & E3). exists s3. split; [assumption|].
    intros x. rewrite (E2 x). apply E3.
  - destruct (G2 s S) as (s2 & S2 & E2). destruct (G1 s2 S2) as (s1 & S1 & E1). exists s1. split; [assumption|].
    intros x. rewrite (E1 x). apply E2.
Qed.

Lemma same_clades_swap l r : same_clades (Node [l; r]) (Node [r; l]).
Proof.
  assert (forall u v s, subtree s (Node [u; v]) -> exists s2, subtree s2 (Node [v; u]) /\ seteq (leaves_of s) (leaves_of s2)) as H.
  { intros u v s S. destruct (subtree_inv2 _ _ _ S) as [-> |[S'|S']].
    - exists (Node [v; u]). split; [apply st_refl|]. intros x. rewrite !leaves_node2. tauto.
    - exists s. split; [eapply st_child; [|exact S']; simpl; auto|intros x; tauto].
    - exists s. split; [eapply st_child; [|exact S']; simpl; auto|intros x; tauto]. }
  split; intros s S.
  - apply H. assumption.
  - destruct (H r l s S) as (s1 & S1 & E). exists s1. split; [assumption|]. intros x. symmetry. apply E.
Qed.

Lemma same_clades_node l r l' r' : same_clades l l' -> same_clades r r' ->
  same_clades (Node [l; r]) (Node [l'; r']).
Proof.
  assert (forall u v u' v', same_clades u u' -> same_clades v v' -> forall s, subtree s (Node [u; v]) ->
            exists s2, subtree s2 (Node [u'; v']) /\ seteq (leaves_of s) (leaves_of s2)) as H.
  { intros u v u' v' Su Sv s S. destruct (subtree_inv2 _ _ _ S) as [-> |[S'|S']].
    - exists (Node [u'; v']). split; [apply st_refl|]. intros x. rewrite !leaves_node2.
      rewrite (same_clades_root _ _ Su x), (same_clades_root _ _ Sv x). tauto.
    - destruct (proj1 Su s S') as (s2 & S2 & E). exists s2. split; [eapply st_child; [|exact S2]; simpl; auto|assumption].
    - destruct (proj1 Sv s S') as (s2 & S2 & E). exists s2. split; [eapply st_child; [|exact S2]; simpl; auto|assumption]. }
  intros Sl Sr. split; intros s S.
  - eapply H; eauto.
  - destruct (H l' r' l r (same_clades_sym _ _ Sl) (same_clades_sym _ _ Sr) s S) as (s1 & S1 & E).
    exists s1. split; [assumption|]. intros x. symmetry. apply E.
Qed.

Lemma displays_child cs i c0 a b c : NoDup (flat_map leaves_of cs) -> nth_error cs i = Some c0 ->
  In a (leaves_of c0) -> In b (leaves_of c0) -> In c (leaves_of c0) ->
  displays (Node cs) (a, b, c) -> displays c0 (a, b, c).
Proof.
  intros ND E Ia Ib Ic (pa & pb & pc & Ha & Hb & Hc & Lt).
  assert (forall z pz, In z (leaves_of c0) -> leaf_path (Node cs) z pz -> exists q, pz = i :: q /\ leaf_path c0 z q) as SUBP.
  { intros z pz Iz Hz. destruct (leaf_path_exists _ _ Iz) as [q0 Hq0].
    assert (leaf_path (Node cs) z (i :: q0)) as H0 by (econstructor; eauto).
    inversion Hz as [|? j cz ? q Ez Hq]; subst.
    pose proof (child_idx_path cs z j q ND Hz) as C1. pose proof (child_idx_path cs z i q0 ND H0) as C2.
    assert (j = i) as -> by congruence. rewrite E in Ez. inversion Ez; subst. eauto. }
  destruct (SUBP a pa Ia Ha) as (qa & -> & Ha'). destruct (SUBP b pb Ib Hb) as (qb & -> & Hb').
  destruct (SUBP c pc Ic Hc) as (qc & -> & Hc').
  exists qa, qb, qc. repeat split; auto. simpl in Lt. rewrite Nat.eqb_refl in Lt. simpl in Lt. lia.
Qed.

Lemma all_bins_cons_inv rec leaves triples b rest ts :
  all_bins rec leaves triples (b :: rest) = Ok ts ->
  exists p more, ts = p ++ more /\ all_bins rec leaves triples rest = Ok more.
Proof.
  intros E. simpl in E.
  apply bind_ok in E. destruct E as ([d' gs] & _ & E).
  apply bind_ok in E. destruct E as (gls & _ & E).
  apply bind_ok in E. destruct E as (gl0 & _ & E).
  apply bind_ok in E. destruct E as (gl1 & _ & E).
  apply bind_ok in E. destruct E as (ls & _ & E).
  apply bind_ok in E. destruct E as (rs & _ & E).
  apply bind_ok in E. destruct E as (more & Em & E).
  inversion E; subst. eauto.
Qed.

Lemma all_bins_in rec leaves triples : forall bins ts b d' g0 g1 ls rs l r,
  all_bins rec leaves triples bins = Ok ts -> In b bins ->
  to_list b = Ok (d', [g0; g1]) ->
  (forall i, In i g0 -> i < length leaves) -> (forall i, In i g1 -> i < length leaves) ->
  rec (gl leaves g0) (filter (inside (gl leaves g0)) triples) = Ok ls ->
  rec (gl leaves g1) (filter (inside (gl leaves g1)) triples) = Ok rs ->
  In l ls -> In r rs -> In (Node [l; r]) ts.
Proof.
  induction bins as [|b0 rest IH]; intros ts b d' g0 g1 ls rs l r E Ib T R0 R1 El Er Il Ir; [destruct Ib|].
  destruct Ib as [-> |Ib].
  - destruct (all_bins_cons_inv _ _ _ _ _ _ E) as (p & more & _ & Em).
    simpl in E. rewrite T in E. simpl in E.
    rewrite (get_all_ok leaves g0 R0) in E. simpl in E. rewrite (get_all_ok leaves g1 R1) in E. simpl in E.
    fold (gl leaves g0) in E. fold (gl leaves g1) in E. rewrite El in E. simpl in E. rewrite Er in E. simpl in E.
    rewrite Em in E. simpl in E. inversion E; subst. apply in_or_app. left. apply in_product. eauto.
  - destruct (all_bins_cons_inv _ _ _ _ _ _ E) as (p & more & -> & Em).
    apply in_or_app. right. eapply IH; eauto.
Qed.

Lemma bin_one_leaf t a : bin t -> Permutation (leaves_of t) [a] -> t = Leaf a.
Proof.
  intros B P. destruct B as [x|l r Bl Br].
  - simpl in P. apply Permutation_length_1 in P. congruence.
  - exfalso. apply Permutation_length in P. simpl in P. rewrite app_nil_r, app_length in P.
    destruct (bin_has_leaf _ Bl) as [x Hx]. destruct (bin_has_leaf _ Br) as [y Hy].
    destruct (leaves_of l); [destruct Hx|]. destruct (leaves_of r); [destruct Hy|]. simpl in P. lia.
Qed.

Lemma all_trees_aux_complete ord : set_order ord -> forall fuel leaves triples T,
  length leaves <= fuel -> NoDup leaves -> (forall tr, In tr triples -> proper leaves tr) ->
  bin T -> Permutation (leaves_of T) leaves -> (forall tr, In tr triples -> displays T tr) ->
  exists ts t, all_trees_aux ord fuel leaves triples = Ok ts /\ In t ts /\ same_clades t T.
Proof.
  intros SO. induction fuel as [|f IH]; intros leaves triples T Lf NL Hp BT PT HT.
  - destruct leaves; [|simpl in Lf; lia]. destruct (bin_has_leaf _ BT) as [x Hx].
    apply (Permutation_in _ PT) in Hx. destruct Hx.
  - destruct leaves as [|a [|b [|c rest]]].
    + destruct (bin_has_leaf _ BT) as [x Hx]. apply (Permutation_in _ PT) in Hx. destruct Hx.
    + rewrite (bin_one_leaf T a BT PT). exists [Leaf a], (Leaf a). split; [reflexivity|].
      split; [left; reflexivity|apply same_clades_refl].
    + exists [Node [Leaf a; Leaf b]], (Node [Leaf a; Leaf b]). split; [reflexivity|]. split; [left; reflexivity|].
      destruct BT as [x|l r Bl Br]; [apply Permutation_length in PT; discriminate|].
      simpl in PT. rewrite app_nil_r in PT.
      destruct (bin_has_leaf _ Bl) as [x Hx]. destruct (bin_has_leaf _ Br) as [y Hy].
      pose proof (Permutation_length PT) as Ln. rewrite app_length in Ln. simpl in Ln.
      destruct (leaves_of l) as [|x' [|? ?]] eqn:Ll; [destruct Hx| |simpl in Ln; destruct (leaves_of r); [destruct Hy|simpl in Ln; lia]].
      destruct (leaves_of r) as [|y' [|? ?]] eqn:Lr; [destruct Hy| |simpl in Ln; lia].
      assert (l = Leaf x') as -> by (apply bin_one_leaf; [assumption|rewrite Ll; apply Permutation_refl]).
      assert (r = Leaf y') as -> by (apply bin_one_leaf; [assumption|rewrite Lr; apply Permutation_refl]).
      simpl in PT. apply Permutation_length_2 in PT. destruct PT as [[-> ->]|[-> ->]].
      * apply same_clades_refl.
      * apply same_clades_swap.
    + remember (a :: b :: c :: rest) as leaves eqn:EL.
      assert (all_trees_aux ord (S f) leaves triples =
              (d <- unite_triples leaves triples (make (length leaves)) ;;
               ' (_, bins) <- binary ord d ;;
               all_bins (all_trees_aux ord f) leaves triples bins)) as ->
        by (subst leaves; reflexivity).
      assert (3 <= length leaves) as L3 by (subst leaves; simpl; lia).
      clear a b c rest EL.
      destruct BT as [x|L R BL BR]; [apply Permutation_length in PT; simpl in PT; lia|].
      assert (NoDup (leaves_of (Node [L; R]))) as NT by (eapply Permutation_NoDup; [symmetry; exact PT|assumption]).
      pose proof NT as NT'. simpl in NT'.
      assert (forall x, In x (leaves_of L) -> ~ In x (leaves_of R)) as DLR.
      { intros x Hl Hr. rewrite app_nil_r in NT'. eapply NoDup_app_disj; eauto. }
      assert (forall x, In x leaves <-> In x (leaves_of L) \/ In x (leaves_of R)) as INL.
      { intros x. rewrite <- leaves_node2. split; apply Permutation_in; [symmetry|]; assumption. }
      destruct (unite_triples_reach leaves triples [] (make (length leaves)) (R_make _) Hp) as (d & -> & Rd).
      simpl in Rd. simpl bind.
      destruct (dsu_binary _ _ _ ord Rd SO) as (d1 & bs & -> & _ & Sound & Complete & Once). simpl bind.
      (* the colouring given by the root of T *)
      set (s := fun i => mem (nth i leaves 0) (leaves_of L)).
      assert (two_colouring (length leaves) (eqv (map (idx leaves) triples)) s) as TC.
      { split; [|split].
        - intros i j Hi Hj E. unfold s.
          pose proof (eqv_respects leaves triples (fun x => if mem x (leaves_of L) then 1 else 0) Hp) as K.
          simpl in K. specialize (fun H => K H i j E).
          assert (forall a b c, In (a, b, c) triples ->
                    (if mem a (leaves_of L) then 1 else 0) = (if mem b (leaves_of L) then 1 else 0)) as Q.
          { intros a b c I. destruct (HT _ I) as (pa & pb & pc & Ha & Hb & _ & Lt).
            destruct pa as [|h pa]; [inversion Ha|]. destruct pb as [|h' pb]; [inversion Hb|].
            simpl in Lt. destruct (Nat.eqb_spec h h') as [->|N]; [|simpl in Lt; lia].
            inversion Ha as [|? ? ca ? ? Ea Hpa]; subst. inversion Hb as [|? ? cb ? ? Eb Hpb]; subst.
            rewrite Ea in Eb. inversion Eb; subst cb. apply leaf_path_in in Hpa, Hpb.
            destruct h' as [|[|h']]; simpl in Ea; inversion Ea; subst.
            - rewrite (proj2 (mem_in a _) Hpa), (proj2 (mem_in b _) Hpb). reflexivity.
            - destruct (mem a (leaves_of L)) eqn:Ma; [apply mem_in in Ma; destruct (DLR a Ma Hpa)|].
              destruct (mem b (leaves_of L)) eqn:Mb; [apply mem_in in Mb; destruct (DLR b Mb Hpb)|]. reflexivity.
            - destruct h'; discriminate. }
          specialize (K Q). destruct (mem (nth i leaves 0) (leaves_of L)), (mem (nth j leaves 0) (leaves_of L)); congruence.
        - destruct (bin_has_leaf _ BL) as [x Hx]. assert (In x leaves) as Ix by (apply INL; auto).
          exists (pos leaves x). split; [apply pos_lt; assumption|]. unfold s.
          destruct (lookup_pos leaves x Ix) as [_ Ex]. rewrite (nth_error_nth _ _ 0 Ex). apply mem_in. assumption.
        - destruct (bin_has_leaf _ BR) as [y Hy]. assert (In y leaves) as Iy by (apply INL; auto).
          exists (pos leaves y). split; [apply pos_lt; assumption|]. unfold s.
          destruct (lookup_pos leaves y Iy) as [_ Ey]. rewrite (nth_error_nth _ _ 0 Ey).
          destruct (mem y (leaves_of L)) eqn:M; [|reflexivity]. apply mem_in in M. destruct (DLR y M Hy). }
      destruct (Complete s TC) as (b0 & Ib0 & Rb0).
      destruct (Sound b0 Ib0) as (Lb0 & _).
      destruct (represents_two leaves b0 _ Rb0 Lb0) as (d' & g0 & g1 & T0 & P).
      destruct (two_partition_facts leaves NL _ g0 g1 P) as (R0 & R1 & N0 & N1 & NE0 & NE1 & D).
      pose proof P as (_ & NDc & Cov & Q). simpl in NDc, Cov. rewrite app_nil_r in NDc, Cov.
      assert (length g0 < length leaves /\ length g1 < length leaves) as [L0 L1].
      { pose proof (Permutation_length (partition_perm _ _ _ P)) as LC. rewrite seq_length in LC.
        destruct P as (NE & _). split; rewrite <- LC; apply group_smaller; simpl; auto. }
      (* the existence of the result list *)
      destruct (all_bins_spec leaves triples NL Hp (all_trees_aux ord f)) with (bins := bs) as (ts & E & _).
      { intros g Ng Rg Lg. apply all_trees_aux_spec; auto.
        - unfold gl. rewrite map_length. lia.
        - apply NoDup_gl; assumption.
        - apply filter_proper; assumption. }
      { intros b1 Ib. destruct (Sound b1 Ib) as (L2 & s1 & (S1 & _) & Rs).
        exists (fun x y => s1 x = s1 y). split; [assumption|]. split; [assumption|].
        intros x y z I. destruct (Hp _ I) as (Ix & Iy & _).
        apply S1; auto using pos_lt. apply eqv_pair. apply (in_map (idx leaves) _ _ I). }
      { apply NoDupBy_of_nth. intros i j bi bj Ei Ej (R2 & Ri & Rj). eapply Once; eauto. }
      exists ts.
      (* colour of the two groups *)
      assert (forall g, In g [g0; g1] -> forall i j, In i g -> In j g -> s i = s j) as SAME.
      { intros g Ig i j Ii Ij. apply Q; [apply Cov; destruct Ig as [<-|[<-|[]]]; apply in_or_app; auto
                                        |apply Cov; destruct Ig as [<-|[<-|[]]]; apply in_or_app; auto|eauto]. }
      assert (forall i j, In i g0 -> In j g1 -> s i <> s j) as DIFF.
      { intros i j Ii Ij E'. apply Q in E'; [|apply R0; assumption|apply R1; assumption].
        destruct E' as (g & [<-|[<-|[]]] & Hi & Hj); eapply NoDup_app_disj; eauto. }
      (* generic step: a group whose colour is that of U *)
      assert (forall (g : list nat) (U : tree) (v : bool), In g [g0; g1] -> g <> [] -> NoDup g ->
                (forall i, In i g -> i < length leaves) -> length g < length leaves ->
                (forall i, In i g -> s i = v) -> (forall i, i < length leaves -> s i = v -> In i g) ->
                bin U -> (U = L \/ U = R) -> (forall x, In x (leaves_of U) <-> In x leaves /\ mem x (leaves_of L) = v) ->
                exists us u, all_trees_aux ord f (gl leaves g) (filter (inside (gl leaves g)) triples) = Ok us /\
                             In u us /\ same_clades u U) as STEP.
      { intros g U v Ig NEg Ng Rg Lg Cg Cg' BU HU LU.
        assert (NoDup (gl leaves g)) as NG by (apply NoDup_gl; assumption).
        assert (forall x, In x (gl leaves g) <-> In x (leaves_of U)) as SE.
        { intros x. rewrite LU. split.
          - intros Hx. unfold gl in Hx. apply in_map_iff in Hx. destruct Hx as (i & <- & Ii).
            split; [apply nth_In; apply Rg; assumption|apply (Cg i Ii)].
          - intros [Ix Mx]. apply in_gl; [|assumption]. apply Cg'; [apply pos_lt; assumption|].
            unfold s. destruct (lookup_pos leaves x Ix) as [_ Ex]. rewrite (nth_error_nth _ _ 0 Ex). assumption. }
        assert (exists k, nth_error [L; R] k = Some U) as [k Ek] by (destruct HU as [-> | ->]; [exists 0|exists 1]; reflexivity).
        apply IH; auto.
        - unfold gl. rewrite map_length. lia.
        - apply filter_proper; assumption.
        - apply NoDup_Permutation; [exact (NoDup_child [L; R] k U NT' Ek)|assumption|]. intros x. symmetry. apply SE.
        - intros [[x y] z] I. apply filter_In in I. destruct I as [I M]. simpl in M.
          apply andb_prop in M. destruct M as [M Mz]. apply andb_prop in M. destruct M as [Mx My].
          apply mem_in in Mx, My, Mz.
          apply (displays_child [L; R] k U x y z NT' Ek); try (apply SE; assumption). apply HT. assumption. }
      destruct (bin_has_leaf _ BL) as [xl Hxl]. assert (In xl leaves) as Ixl by (apply INL; auto).
      assert (s (pos leaves xl) = true) as Sxl.
      { unfold s. destruct (lookup_pos leaves xl Ixl) as [_ Ex]. rewrite (nth_error_nth _ _ 0 Ex). apply mem_in. assumption. }
      assert (forall x, In x (leaves_of L) <-> In x leaves /\ mem x (leaves_of L) = true) as LUL.
      { intros x. rewrite mem_in, INL. tauto. }
      assert (forall x, In x (leaves_of R) <-> In x leaves /\ mem x (leaves_of L) = false) as LUR.
      { intros x. rewrite INL. split.
        - intros Hr. split; [auto|]. destruct (mem x (leaves_of L)) eqn:M; [|reflexivity]. apply mem_in in M. destruct (DLR x M Hr).
        - intros [[Hl|Hr] M]; [|assumption]. apply mem_in in Hl. congruence. }
      assert (In (pos leaves xl) g0 \/ In (pos leaves xl) g1) as [I0|I1]
        by (apply in_app_or; apply Cov; apply pos_lt; assumption).
      * (* g0 is the side of L *)
        assert (forall i, In i g0 -> s i = true) as C0 by (intros i Ii; rewrite <- Sxl; apply (SAME g0); simpl; auto).
        assert (forall i, In i g1 -> s i = false) as C1.
        { intros i Ii. destruct (s i) eqn:Si; [|reflexivity]. exfalso. apply (DIFF (pos leaves xl) i I0 Ii). congruence. }
        assert (forall i, i < length leaves -> s i = true -> In i g0) as C0'.
        { intros i Hi Si. destruct (in_app_or _ _ _ (proj2 (Cov i) Hi)) as [?|I1]; [assumption|]. rewrite (C1 i I1) in Si. discriminate. }
        assert (forall i, i < length leaves -> s i = false -> In i g1) as C1'.
        { intros i Hi Si. destruct (in_app_or _ _ _ (proj2 (Cov i) Hi)) as [I0'|?]; [|assumption]. rewrite (C0 i I0') in Si. discriminate. }
        destruct (STEP g0 L true) as (ls & l & El & Il & Sl); simpl; auto.
        destruct (STEP g1 R false) as (rs & r & Er & Ir & Sr); simpl; auto.
        exists (Node [l; r]). split; [assumption|]. split.
        -- eapply all_bins_in; eauto.
        -- apply same_clades_node; assumption.
      * (* g1 is the side of L *)
        assert (forall i, In i g1 -> s i = true) as C1 by (intros i Ii; rewrite <- Sxl; apply (SAME g1); simpl; auto).
        assert (forall i, In i g0 -> s i = false) as C0.
        { intros i Ii. destruct (s i) eqn:Si; [|reflexivity]. exfalso. apply (DIFF i (pos leaves xl) Ii I1). congruence. }
        assert (forall i, i < length leaves -> s i = true -> In i g1) as C1'.
        { intros i Hi Si. destruct (in_app_or _ _ _ (proj2 (Cov i) Hi)) as [I0|?]; [|assumption]. rewrite (C0 i I0) in Si. discriminate. }
        assert (forall i, i < length leaves -> s i = false -> In i g0) as C0'.
        { intros i Hi Si. destruct (in_app_or _ _ _ (proj2 (Cov i) Hi)) as [?|I1']; [assumption|]. rewrite (C1 i I1') in Si. discriminate. }
        destruct (STEP g0 R false) as (ls & l & El & Il & Sl); simpl; auto.
        destruct (STEP g1 L true) as (rs & r & Er & Ir & Sr); simpl; auto.
        exists (Node [l; r]). split; [assumption|]. split.
        -- eapply all_bins_in; eauto.
        -- eapply same_clades_trans; [apply same_clades_node; eassumption|apply same_clades_swap].
Qed.

(* --- all_trees_complete: every binary tree on the leaf set displaying every triple is returned --- *)
Theorem all_trees_complete ord leaves triples T :
  set_order ord -> NoDup leaves -> (forall tr, In tr triples -> proper leaves tr) ->
  bin T -> Permutation (leaves_of T) leaves -> (forall tr, In tr triples -> displays T tr) ->
  exists ts t, all_trees ord leaves triples = Ok ts /\ In t ts /\ same_clades t T.
Proof.
  intros SO NL Hp BT PT HT. unfold all_trees.
  assert (NoDup (leaves_of T)) as NT by (eapply Permutation_NoDup; [symmetry; exact PT|assumption]).
  destruct (build_complete leaves triples T) as [t0 ->]; auto.
  - intros ->. destruct (bin_has_leaf _ BT) as [x Hx]. apply (Permutation_in _ PT) in Hx. destruct Hx.
  - intros x Hx. eapply Permutation_in; [symmetry; exact PT|assumption].
  - simpl. apply all_trees_aux_complete; auto.
Qed.
(* ======================================================= BreakUp: round trip *)

(* --- display in terms of clades --- *)
Definition cdisplays (t : tree) (tr : triple) : Prop :=
  let '(a, b, c) := tr in
  In c (leaves_of t) /\
  exists s, subtree s t /\ In a (leaves_of s) /\ In b (leaves_of s) /\ ~ In c (leaves_of s).

Inductive subtree_at : tree -> list nat -> tree -> Prop :=
| at_nil t : subtree_at t [] t
| at_cons cs i c p s : nth_error cs i = Some c -> subtree_at c p s -> subtree_at (Node cs) (i :: p) s.

Lemma subtree_at_subtree t p s : subtree_at t p s -> subtree s t.
Proof.
  induction 1 as [|cs i c p s E _ IH]; [apply st_refl|].
  eapply st_child; [eapply nth_error_In; eauto|assumption].
Qed.

Lemma leaf_path_split : forall q t a p, leaf_path t a (q ++ p) ->
  exists s, subtree_at t q s /\ leaf_path s a p.
Proof.
  induction q as [|i q IH]; intros t a p H; simpl in H.
  - exists t. split; [constructor|assumption].
  - inversion H as [|cs ? c ? ? E Hp]; subst. destruct (IH _ _ _ Hp) as (s & S & L).
    exists s. split; [econstructor; eauto|assumption].
Qed.

Lemma leaf_path_join t q s a p : subtree_at t q s -> leaf_path s a p -> leaf_path t a (q ++ p).
Proof. induction 1 as [|cs i c q s E _ IH]; intros H; simpl; [assumption|econstructor; eauto]. Qed.

Lemma NoDup_flat_same (cs : list tree) c1 c2 x : NoDup (flat_map leaves_of cs) ->
  In c1 cs -> In c2 cs -> In x (leaves_of c1) -> In x (leaves_of c2) -> c1 = c2.
Proof.
  induction cs as [|c cs IH]; intros ND I1 I2 H1 H2; [destruct I1|]. simpl in ND.
  destruct (NoDup_app_inv _ _ ND) as [_ ND'].
  assert (forall c', In c' cs -> In x (leaves_of c') -> In x (flat_map leaves_of cs)) as FM
    by (intros c' I H; apply in_flat_map; eauto).
  destruct I1 as [<-|I1], I2 as [<-|I2]; auto.
  - exfalso. eapply NoDup_app_disj; eauto.
  - exfalso. eapply NoDup_app_disj; eauto.
Qed.

Lemma NoDup_in_child (cs : list tree) c : NoDup (flat_map leaves_of cs) -> In c cs -> NoDup (leaves_of c).
Proof. intros ND I. apply In_nth_error in I. destruct I as [i E]. eapply NoDup_child; eauto. Qed.

Lemma leaf_path_unique : forall t a p q, NoDup (leaves_of t) ->
  leaf_path t a p -> leaf_path t a q -> p = q.
Proof.
  induction t as [b|cs IH] using tree_ind'; intros a p q ND Hp Hq.
  - inversion Hp; inversion Hq; subst. reflexivity.
  - inversion Hp as [|? i c ? p' E Hp']; subst. inversion Hq as [|? j c' ? q' E' Hq']; subst.
    simpl in ND. pose proof (child_idx_path cs a i p' ND Hp) as C1. pose proof (child_idx_path cs a j q' ND Hq) as C2.
    assert (i = j) as -> by congruence. rewrite E in E'. inversion E'; subst c'.
    f_equal. rewrite Forall_forall in IH. apply (IH c (nth_error_In _ _ E) a); auto. eapply NoDup_child; eauto.
Qed.

Lemma lcp_prefix : forall p q, exists p1 q1, p = lcp p q ++ p1 /\ q = lcp p q ++ q1.
Proof.
  induction p as [|x p IH]; intros [|y q]; simpl; try (eexists; eexists; split; reflexivity).
  destruct (Nat.eqb_spec x y) as [->|N]; [|eexists; eexists; split; reflexivity].
  destruct (IH q) as (p1 & q1 & E1 & E2). exists p1, q1. simpl. split; congruence.
Qed.

Lemma lcp_common : forall q0 p1 r1, length q0 <= length (lcp (q0 ++ p1) (q0 ++ r1)).
Proof. induction q0 as [|x q0 IH]; intros p1 r1; simpl; [lia|]. rewrite Nat.eqb_refl. simpl. specialize (IH p1 r1). lia. Qed.

Lemma displays_cdisplays t tr : NoDup (leaves_of t) -> displays t tr -> cdisplays t tr.
Proof.
  destruct tr as [[a b] c]. intros ND (pa & pb & pc & Ha & Hb & Hc & Lt). split; [eapply leaf_path_in; eauto|].
  destruct (lcp_prefix pa pb) as (a1 & b1 & Ea & Eb). remember (lcp pa pb) as q eqn:Eq.
  rewrite Ea in Ha. rewrite Eb in Hb.
  destruct (leaf_path_split _ _ _ _ Ha) as (s & S & La). destruct (leaf_path_split _ _ _ _ Hb) as (s' & S' & Lb).
  assert (s' = s) as ->.
  { clear - S S'. revert s' S'. induction S as [|cs i c p s E _ IH]; intros s' S'; inversion S'; subst; auto.
    match goal with H1 : nth_error cs i = Some _, H2 : nth_error cs i = Some _ |- _ => rewrite H1 in H2; inversion H2; subst end. auto. }
  exists s. split; [eapply subtree_at_subtree; eauto|]. split; [eapply leaf_path_in; eauto|]. split; [eapply leaf_path_in; eauto|].
  intros Ic. destruct (leaf_path_exists _ _ Ic) as [c1 Lc].
  pose proof (leaf_path_join _ _ _ _ _ S Lc) as Hc'. pose proof (leaf_path_unique _ _ _ _ ND Hc Hc') as ->.
  rewrite Ea in Lt. pose proof (lcp_common q a1 c1). lia.
Qed.

(* --- subtrees of a tree with distinct leaves are nested or disjoint --- *)
Lemma laminar : forall t s1 s2 x, NoDup (leaves_of t) -> subtree s1 t -> subtree s2 t ->
  In x (leaves_of s1) -> In x (leaves_of s2) -> subtree s1 s2 \/ subtree s2 s1.
Proof.
  induction t as [b|cs IH] using tree_ind'; intros s1 s2 x ND S1 S2 H1 H2.
  - inversion S1; inversion S2; subst. left. apply st_refl.
  - inversion S1 as [|? c1 ? I1 S1']; subst; [right; assumption|].
    inversion S2 as [|? c2 ? I2 S2']; subst; [left; eapply st_child; eauto|].
    simpl in ND.
    assert (c1 = c2) as <- by (apply (NoDup_flat_same cs c1 c2 x ND I1 I2); eapply subtree_leaves; eauto).
    rewrite Forall_forall in IH. apply (IH c1 I1 s1 s2 x); auto. eapply NoDup_in_child; eauto.
Qed.

Lemma subtree_NoDup s t : subtree s t -> NoDup (leaves_of t) -> NoDup (leaves_of s).
Proof.
  induction 1 as [|s c cs I _ IH]; intros ND; [assumption|]. apply IH. eapply NoDup_in_child; eauto.
Qed.

Lemma subtree_trans s t u : subtree s t -> subtree t u -> subtree s u.
Proof. intros S T. induction T as [|t c cs I _ IH]; [assumption|]. eapply st_child; eauto. Qed.

(* --- inference rules on displayed triples --- *)
Section Rules.
Variable X : tree.
Hypothesis NX : NoDup (leaves_of X).

Lemma nested s1 s2 x : subtree s1 X -> subtree s2 X -> In x (leaves_of s1) -> In x (leaves_of s2) ->
  (forall y, In y (leaves_of s1) -> In y (leaves_of s2)) \/ (forall y, In y (leaves_of s2) -> In y (leaves_of s1)).
Proof.
  intros S1 S2 H1 H2. destruct (laminar X s1 s2 x NX S1 S2 H1 H2) as [S|S]; [left|right]; apply subtree_leaves; assumption.
Qed.

(* (l,r|z), (z,c|r) => (l,r|c) *)
Lemma rule1 l r z c : cdisplays X (l, r, z) -> cdisplays X (z, c, r) -> cdisplays X (l, r, c).
Proof.
  intros (_ & s1 & S1 & A1 & B1 & C1) (_ & s2 & S2 & A2 & B2 & C2).
  split; [exact (subtree_leaves _ _ S2 _ B2)|]. exists s1. split; [assumption|]. split; [assumption|]. split; [assumption|].
  intros Hc. destruct (nested s1 s2 c S1 S2 Hc B2) as [N|N]; auto.
Qed.

(* (l,r|z), (r,z|c) => (l,r|c) *)
Lemma rule2 l r z c : cdisplays X (l, r, z) -> cdisplays X (r, z, c) -> cdisplays X (l, r, c).
Proof.
  intros (_ & s1 & S1 & A1 & B1 & C1) (Ic & s2 & S2 & A2 & B2 & C2).
  split; [assumption|]. exists s1. repeat split; auto.
  intros Hc. destruct (nested s1 s2 r S1 S2 B1 A2) as [N|N]; auto.
Qed.

(* (l,r|b), (r,b|c) => (l,b|c) *)
Lemma rule3 l r b c : cdisplays X (l, r, b) -> cdisplays X (r, b, c) -> cdisplays X (l, b, c).
Proof.
  intros (_ & s1 & S1 & A1 & B1 & C1) (Ic & s2 & S2 & A2 & B2 & C2).
  split; [assumption|]. exists s2. destruct (nested s1 s2 r S1 S2 B1 A2) as [N|N]; [|exfalso; auto].
  repeat split; auto.
Qed.

(* (l,r|b), (b,c|r) => (b,c|l) *)
Lemma rule4 l r b c : cdisplays X (l, r, b) -> cdisplays X (b, c, r) -> cdisplays X (b, c, l).
Proof.
  intros (_ & s1 & S1 & A1 & B1 & C1) (_ & s2 & S2 & A2 & B2 & C2).
  split; [exact (subtree_leaves _ _ S1 _ A1)|]. exists s2. split; [assumption|]. split; [assumption|]. split; [assumption|].
  intros Hl. destruct (nested s1 s2 l S1 S2 A1 Hl) as [N|N]; auto.
Qed.

Lemma cdisplays_swap a b c : cdisplays X (a, b, c) -> cdisplays X (b, a, c).
Proof. intros (Ic & s & S & A & B & C). split; [assumption|]. exists s. auto. Qed.

End Rules.
(* --- one iteration of BreakUp on a binary tree, abstractly --- *)
(* [popped l r z T T']: T' is T where the cherry (l, r), whose sister subtree has z among
   its leaves, is replaced by the leaf r (put last among the children of the parent) *)
Inductive popped (l r z : nat) : tree -> tree -> Prop :=
| pp_here0 S : In z (leaves_of S) -> popped l r z (Node [Node [Leaf l; Leaf r]; S]) (Node [S; Leaf r])
| pp_here1 S : In z (leaves_of S) -> popped l r z (Node [S; Node [Leaf l; Leaf r]]) (Node [S; Leaf r])
| pp_left A A' B : popped l r z A A' -> popped l r z (Node [A; B]) (Node [A'; B])
| pp_right A B B' : popped l r z B B' -> popped l r z (Node [A; B]) (Node [A; B']).

Lemma pop_at_popped : forall T, bin T -> forall p T' tr, pop_at p T = Ok (T', tr) ->
  exists l r z, popped l r z T T' /\ (tr = (l, r, z) \/ tr = (r, l, z)).
Proof.
  induction 1 as [a|A B BA IHA BB IHB]; intros p T' tr E.
  - destruct p as [|i [|j q]]; discriminate.
  - destruct p as [|i [|j q]]; [discriminate| |].
    + cbn [pop_at] in E. apply bind_ok in E. destruct E as ([cs' tr'] & PH & E). inversion E; subst. clear E.
      unfold pop_here in PH.
      destruct i as [|[|i]]; simpl in PH; [| |destruct i; discriminate].
      * apply bind_ok in PH. destruct PH as (z & Z & PH).
        destruct A as [|[|[l|] [|[r|] [|]]]]; try discriminate.
        exists l, r, z. split.
        -- inversion PH; subst. apply pp_here0. unfold get in Z. destruct (leaves_of B); [discriminate|inversion Z; left; reflexivity].
        -- inversion PH. destruct (l <=? r); auto.
      * apply bind_ok in PH. destruct PH as (z & Z & PH).
        destruct B as [|[|[l|] [|[r|] [|]]]]; try discriminate.
        exists l, r, z. split.
        -- inversion PH; subst. apply pp_here1. unfold get in Z. destruct (leaves_of A); [discriminate|inversion Z; left; reflexivity].
        -- inversion PH. destruct (l <=? r); auto.
    + change (pop_at (i :: j :: q) (Node [A; B])) with
        (c <- get [A; B] i ;; ' (c', tr) <- pop_at (j :: q) c ;; Ok (Node (set_nth i c' [A; B]), tr)) in E.
      apply bind_ok in E. destruct E as (c & G & E).
      apply bind_ok in E. destruct E as ([c' tr'] & PA & E). inversion E; subst. clear E.
      destruct i as [|[|i]]; simpl in G; inversion G; subst.
      * destruct (IHA _ _ _ PA) as (l & r & z & P & Etr). exists l, r, z. split; [apply pp_left; assumption|assumption].
      * destruct (IHB _ _ _ PA) as (l & r & z & P & Etr). exists l, r, z. split; [apply pp_right; assumption|assumption].
      * destruct i; discriminate.
Qed.

Lemma popped_bin l r z T T' : popped l r z T T' -> bin T -> bin T'.
Proof.
  induction 1 as [S I|S I|A A' B _ IH|A B B' _ IH]; intros BT; inversion BT; subst; constructor; auto; constructor.
Qed.

Lemma NoDup2 (A B : tree) : NoDup (leaves_of (Node [A; B])) ->
  NoDup (leaves_of A) /\ NoDup (leaves_of B) /\ forall x, In x (leaves_of A) -> ~ In x (leaves_of B).
Proof.
  simpl. rewrite app_nil_r. intros ND. destruct (NoDup_app_inv _ _ ND) as [NA NB].
  repeat split; auto. intros x Ha Hb. eapply NoDup_app_disj; eauto.
Qed.

Lemma NoDup2_intro (A B : tree) : NoDup (leaves_of A) -> NoDup (leaves_of B) ->
  (forall x, In x (leaves_of A) -> ~ In x (leaves_of B)) -> NoDup (leaves_of (Node [A; B])).
Proof. intros. simpl. rewrite app_nil_r. apply NoDup_app_intro; auto. Qed.

(* leaves after the step: exactly those of T except l *)
Lemma popped_leaves l r z T T' : popped l r z T T' -> NoDup (leaves_of T) ->
  (forall x, In x (leaves_of T') <-> In x (leaves_of T) /\ x <> l) /\
  NoDup (leaves_of T') /\ In l (leaves_of T) /\ In r (leaves_of T) /\ In z (leaves_of T) /\
  l <> r /\ z <> l /\ z <> r.
Proof.
  induction 1 as [S I|S I|A A' B _ IH|A B B' _ IH]; intros ND.
  - destruct (NoDup2 _ _ ND) as (NO & NS & D). simpl in NO, D.
    assert (l <> r) as Nlr by (inversion NO as [|? ? NI _]; subst; intros ->; apply NI; left; reflexivity).
    assert (~ In l (leaves_of S) /\ ~ In r (leaves_of S)) as [Nl Nr] by (split; apply D; auto).
    split; [|split; [|repeat split]].
    + intros x. rewrite !leaves_node2. simpl. clear D. intuition (subst; try congruence; auto).
    + apply NoDup2_intro; [assumption|repeat constructor; intros []|]. intros x Hs [<-|[]]. contradiction.
    + apply leaves_node2. left. simpl. auto.
    + apply leaves_node2. left. simpl. auto.
    + apply leaves_node2. right. assumption.
    + assumption.
    + intros ->. contradiction.
    + intros ->. contradiction.
  - destruct (NoDup2 _ _ ND) as (NS & NO & D). simpl in NO, D.
    assert (l <> r) as Nlr by (inversion NO as [|? ? NI _]; subst; intros ->; apply NI; left; reflexivity).
    assert (~ In l (leaves_of S) /\ ~ In r (leaves_of S)) as [Nl Nr] by (split; intros H; apply (D _ H); auto).
    split; [|split; [|repeat split]].
    + intros x. rewrite !leaves_node2. simpl. clear D. intuition (subst; try congruence; auto).
    + apply NoDup2_intro; [assumption|repeat constructor; intros []|]. intros x Hs [<-|[]]. contradiction.
    + apply leaves_node2. right. simpl. auto.
    + apply leaves_node2. right. simpl. auto.
    + apply leaves_node2. left. assumption.
    + assumption.
    + intros ->. contradiction.
    + intros ->. contradiction.
  - destruct (NoDup2 _ _ ND) as (NA & NB & D). destruct (IH NA) as (L & NA' & Il & Ir & Iz & N1 & N2 & N3).
    split; [|split; [|repeat split; auto; apply leaves_node2; auto]].
    + intros x. rewrite !leaves_node2, (L x). split; [intros [[H N]|H]; [auto|split; [auto|intros ->; apply (D l); auto]]|tauto].
    + apply NoDup2_intro; auto. intros x Hx. apply D. apply L in Hx. tauto.
  - destruct (NoDup2 _ _ ND) as (NA & NB & D). destruct (IH NB) as (L & NB' & Il & Ir & Iz & N1 & N2 & N3).
    split; [|split; [|repeat split; auto; apply leaves_node2; auto]].
    + intros x. rewrite !leaves_node2, (L x). split; [intros [H|[H N]]; [split; [auto|intros ->; apply (D l); auto]|auto]|tauto].
    + apply NoDup2_intro; auto. intros x Hx Hx'. apply L in Hx'. apply (D x); tauto.
Qed.

(* a subtree of T with a leaf other than l survives, losing l *)
Lemma popped_sub l r z T T' : popped l r z T T' -> NoDup (leaves_of T) ->
  forall s y, subtree s T -> In y (leaves_of s) -> y <> l ->
  exists s', subtree s' T' /\ forall x, In x (leaves_of s') <-> In x (leaves_of s) /\ x <> l.
Proof.
  intros P0. induction P0 as [S I|S I|A A' B P IH|A B B' P IH]; intros ND s y Ss Iy Ny.
  - pose proof (popped_leaves _ _ _ _ _ (pp_here0 l r z S I) ND) as (L & _ & _ & _ & _ & Nlr & _).
    destruct (NoDup2 _ _ ND) as (NO & NS & D). simpl in D.
    destruct (subtree_inv2 _ _ _ Ss) as [-> |[S1|S1]].
    + exists (Node [S; Leaf r]). split; [apply st_refl|exact L].
    + exists (Leaf r). split; [eapply st_child; [|apply st_refl]; simpl; auto|].
      destruct (subtree_inv2 _ _ _ S1) as [-> |[S2|S2]].
      * intros x. simpl. split; [intros [<-|[]]; split; auto; congruence|intros [[<-|[<-|[]]] N]; auto; congruence].
      * inversion S2; subst. simpl in Iy. destruct Iy as [<-|[]]. congruence.
      * inversion S2; subst. intros x. simpl. split; [intros [<-|[]]; split; auto; congruence|tauto].
    + exists s. split; [eapply st_child; [|exact S1]; simpl; auto|].
      intros x. split; [intros H; split; [assumption|intros ->; apply (D l); [auto|eapply subtree_leaves; eauto]]|tauto].
  - pose proof (popped_leaves _ _ _ _ _ (pp_here1 l r z S I) ND) as (L & _ & _ & _ & _ & Nlr & _).
    destruct (NoDup2 _ _ ND) as (NS & NO & D). simpl in D.
    destruct (subtree_inv2 _ _ _ Ss) as [-> |[S1|S1]].
    + exists (Node [S; Leaf r]). split; [apply st_refl|exact L].
    + exists s. split; [eapply st_child; [|exact S1]; simpl; auto|].
      intros x. split; [intros H; split; [assumption|intros ->; apply (D l); [eapply subtree_leaves; eauto|auto]]|tauto].
    + exists (Leaf r). split; [eapply st_child; [|apply st_refl]; simpl; auto|].
      destruct (subtree_inv2 _ _ _ S1) as [-> |[S2|S2]].
      * intros x. simpl. split; [intros [<-|[]]; split; auto; congruence|intros [[<-|[<-|[]]] N]; auto; congruence].
      * inversion S2; subst. simpl in Iy. destruct Iy as [<-|[]]. congruence.
      * inversion S2; subst. intros x. simpl. split; [intros [<-|[]]; split; auto; congruence|tauto].
  - destruct (NoDup2 _ _ ND) as (NA & NB & D).
    destruct (popped_leaves _ _ _ _ _ P NA) as (LA & _ & Il & _).
    destruct (subtree_inv2 _ _ _ Ss) as [-> |[S1|S1]].
    + exists (Node [A'; B]). split; [apply st_refl|].
      exact (proj1 (popped_leaves _ _ _ _ _ (pp_left l r z A A' B P) ND)).
    + destruct (IH NA s y S1 Iy Ny) as (s' & S' & E). exists s'. split; [eapply st_child; [|exact S']; simpl; auto|assumption].
    + exists s. split; [eapply st_child; [|exact S1]; simpl; auto|].
      intros x. split; [intros H; split; [assumption|intros ->; apply (D l); [assumption|eapply subtree_leaves; eauto]]|tauto].
  - destruct (NoDup2 _ _ ND) as (NA & NB & D).
    destruct (popped_leaves _ _ _ _ _ P NB) as (LB & _ & Il & _).
    destruct (subtree_inv2 _ _ _ Ss) as [-> |[S1|S1]].
    + exists (Node [A; B']). split; [apply st_refl|].
      exact (proj1 (popped_leaves _ _ _ _ _ (pp_right l r z A B B' P) ND)).
    + exists s. split; [eapply st_child; [|exact S1]; simpl; auto|].
      intros x. split; [intros H; split; [assumption|intros ->; apply (D l); [eapply subtree_leaves; eauto|assumption]]|tauto].
    + destruct (IH NB s y S1 Iy Ny) as (s' & S' & E). exists s'. split; [eapply st_child; [|exact S']; simpl; auto|assumption].
Qed.

(* conversely every subtree of T' comes from a subtree of T *)
Lemma popped_sub_back l r z T T' : popped l r z T T' -> NoDup (leaves_of T) ->
  forall s', subtree s' T' ->
  exists s, subtree s T /\ forall x, In x (leaves_of s') <-> In x (leaves_of s) /\ x <> l.
Proof.
  intros P0. induction P0 as [S I|S I|A A' B P IH|A B B' P IH]; intros ND s' Ss.
  - pose proof (popped_leaves _ _ _ _ _ (pp_here0 l r z S I) ND) as (L & _ & _ & _ & _ & Nlr & _).
    destruct (NoDup2 _ _ ND) as (NO & NS & D). simpl in D.
    destruct (subtree_inv2 _ _ _ Ss) as [-> |[S1|S1]].
    + eexists. split; [apply st_refl|exact L].
    + exists s'. split; [eapply st_child; [|exact S1]; simpl; auto|].
      intros x. split; [intros H; split; [assumption|intros ->; apply (D l); [auto|eapply subtree_leaves; eauto]]|tauto].
    + inversion S1; subst. exists (Leaf r). split.
      * eapply st_child; [left; reflexivity|]. eapply st_child; [right; left; reflexivity|apply st_refl].
      * intros x. simpl. split; [intros [<-|[]]; split; auto; congruence|tauto].
  - pose proof (popped_leaves _ _ _ _ _ (pp_here1 l r z S I) ND) as (L & _ & _ & _ & _ & Nlr & _).
    destruct (NoDup2 _ _ ND) as (NS & NO & D). simpl in D.
    destruct (subtree_inv2 _ _ _ Ss) as [-> |[S1|S1]].
    + eexists. split; [apply st_refl|exact L].
    + exists s'. split; [eapply st_child; [|exact S1]; simpl; auto|].
      intros x. split; [intros H; split; [assumption|intros ->; apply (D l); [eapply subtree_leaves; eauto|auto]]|tauto].
    + inversion S1; subst. exists (Leaf r). split.
      * eapply st_child; [right; left; reflexivity|]. eapply st_child; [right; left; reflexivity|apply st_refl].
      * intros x. simpl. split; [intros [<-|[]]; split; auto; congruence|tauto].
  - destruct (NoDup2 _ _ ND) as (NA & NB & D).
    destruct (popped_leaves _ _ _ _ _ P NA) as (LA & _ & Il & _).
    destruct (subtree_inv2 _ _ _ Ss) as [-> |[S1|S1]].
    + eexists. split; [apply st_refl|].
      exact (proj1 (popped_leaves _ _ _ _ _ (pp_left l r z A A' B P) ND)).
    + destruct (IH NA s' S1) as (s & S0 & E). exists s. split; [eapply st_child; [|exact S0]; simpl; auto|assumption].
    + exists s'. split; [eapply st_child; [|exact S1]; simpl; auto|].
      intros x. split; [intros H; split; [assumption|intros ->; apply (D l); [assumption|eapply subtree_leaves; eauto]]|tauto].
  - destruct (NoDup2 _ _ ND) as (NA & NB & D).
    destruct (popped_leaves _ _ _ _ _ P NB) as (LB & _ & Il & _).
    destruct (subtree_inv2 _ _ _ Ss) as [-> |[S1|S1]].
    + eexists. split; [apply st_refl|].
      exact (proj1 (popped_leaves _ _ _ _ _ (pp_right l r z A B B' P) ND)).
    + exists s'. split; [eapply st_child; [|exact S1]; simpl; auto|].
      intros x. split; [intros H; split; [assumption|intros ->; apply (D l); [eapply subtree_leaves; eauto|assumption]]|tauto].
    + destruct (IH NB s' S1) as (s & S0 & E). exists s. split; [eapply st_child; [|exact S0]; simpl; auto|assumption].
Qed.

(* the cherry, its parent and its sister inside T *)
Lemma popped_struct l r z T T' : popped l r z T T' -> NoDup (leaves_of T) ->
  exists P S, subtree (Node [Leaf l; Leaf r]) T /\ subtree P T /\ subtree S T /\ In z (leaves_of S) /\
    ~ In l (leaves_of S) /\ ~ In r (leaves_of S) /\
    (forall x, In x (leaves_of P) <-> x = l \/ x = r \/ In x (leaves_of S)).
Proof.
  induction 1 as [S I|S I|A A' B _ IH|A B B' _ IH]; intros ND.
  - destruct (NoDup2 _ _ ND) as (_ & _ & D). simpl in D.
    exists (Node [Node [Leaf l; Leaf r]; S]), S.
    split; [eapply st_child; [left; reflexivity|apply st_refl]|]. split; [apply st_refl|].
    split; [eapply st_child; [right; left; reflexivity|apply st_refl]|]. split; [assumption|].
    split; [apply D; auto|]. split; [apply D; auto|].
    intros x. rewrite leaves_node2. simpl. clear D. intuition (subst; auto).
  - destruct (NoDup2 _ _ ND) as (_ & _ & D). simpl in D.
    exists (Node [S; Node [Leaf l; Leaf r]]), S.
    split; [eapply st_child; [right; left; reflexivity|apply st_refl]|]. split; [apply st_refl|].
    split; [eapply st_child; [left; reflexivity|apply st_refl]|]. split; [assumption|].
    split; [intros H; apply (D _ H); auto|]. split; [intros H; apply (D _ H); auto|].
    intros x. rewrite leaves_node2. simpl. clear D. intuition (subst; auto).
  - destruct (NoDup2 _ _ ND) as (NA & _). destruct (IH NA) as (P & S & SO & SP & SS & Iz & Nl & Nr & LP). exists P, S.
    repeat split; try assumption; try (eapply st_child; [left; reflexivity|assumption]); apply LP.
  - destruct (NoDup2 _ _ ND) as (_ & NB & _). destruct (IH NB) as (P & S & SO & SP & SS & Iz & Nl & Nr & LP). exists P, S.
    repeat split; try assumption; try (eapply st_child; [right; left; reflexivity|assumption]); apply LP.
Qed.
(* --- the emitted triples determine every triple of the tree --- *)
Lemma closure_step l r z T T' X :
  NoDup (leaves_of T) -> popped l r z T T' -> NoDup (leaves_of X) ->
  cdisplays X (l, r, z) ->
  (forall a b c, a <> b -> cdisplays T' (a, b, c) -> cdisplays X (a, b, c)) ->
  forall a b c, a <> b -> cdisplays T (a, b, c) -> cdisplays X (a, b, c).
Proof.
  intros ND P NX Xlrz IH.
  destruct (popped_leaves _ _ _ _ _ P ND) as (L & ND' & Il & Ir & Iz & Nlr & Nzl & Nzr).
  destruct (popped_struct _ _ _ _ _ P ND) as (PP & S & SO & SP & SS & IzS & NlS & NrS & LP).
  assert (forall a b c, a <> b -> a <> l -> b <> l -> c <> l -> cdisplays T (a, b, c) -> cdisplays X (a, b, c)) as H1.
  { intros a b c Nab Na Nb Nc (Ic & s & Ss & A & B & C). apply IH; [assumption|].
    destruct (popped_sub _ _ _ _ _ P ND s a Ss A Na) as (s' & Ss' & E).
    split; [apply L; auto|]. exists s'. split; [assumption|]. rewrite !E. tauto. }
  assert (forall c, In c (leaves_of T) -> c <> l -> c <> r -> cdisplays X (l, r, c)) as F1.
  { intros c Ic Ncl Ncr. destruct (Nat.eq_dec c z) as [->|Ncz]; [assumption|].
    destruct (in_dec Nat.eq_dec c (leaves_of PP)) as [IP|NP].
    - apply LP in IP. destruct IP as [?|[?|IS]]; try congruence.
      apply (rule1 X NX l r z c Xlrz). apply H1; auto.
      split; [assumption|]. exists S. auto.
    - apply (rule2 X NX l r z c Xlrz). apply H1; auto.
      split; [assumption|]. exists PP. split; [assumption|]. split; [apply LP; auto|]. split; [apply LP; auto|assumption]. }
  assert (forall x, In x (leaves_of (Node [Leaf l; Leaf r])) -> x = l \/ x = r) as LO
    by (simpl; intros x [?|[?|[]]]; auto).
  (* a subtree of T containing l and another leaf contains r *)
  assert (forall s b, subtree s T -> In l (leaves_of s) -> In b (leaves_of s) -> b <> l -> b <> r -> In r (leaves_of s)) as WITHL.
  { intros s b Ss A B Nb Nb'. assert (In l (leaves_of (Node [Leaf l; Leaf r]))) as IlO by (simpl; auto).
    destruct (laminar T s _ l ND Ss SO A IlO) as [Q|Q].
    - destruct (LO b (subtree_leaves _ _ Q _ B)); congruence.
    - apply (subtree_leaves _ _ Q). simpl. auto. }
  intros a b c Nab (Ic & s & Ss & A & B & C).
  assert (c <> a /\ c <> b) as [Nca Ncb] by (split; intros ->; contradiction).
  destruct (Nat.eq_dec c l) as [->|Ncl].
  - (* c = l *)
    assert (~ In r (leaves_of s)) as Nr.
    { intros Hr. assert (In r (leaves_of (Node [Leaf l; Leaf r]))) as IrO by (simpl; auto).
      destruct (laminar T s _ r ND Ss SO Hr IrO) as [Q|Q].
      - destruct (LO a (subtree_leaves _ _ Q _ A)), (LO b (subtree_leaves _ _ Q _ B)); congruence.
      - apply C. apply (subtree_leaves _ _ Q). simpl. auto. }
    assert (a <> r) as Nar by (intros ->; contradiction).
    apply (rule4 X NX l r a b).
    + apply F1; auto. eapply subtree_leaves; eauto.
    + apply (H1 a b r Nab); [intros ->; contradiction|intros ->; contradiction|congruence|].
      split; [assumption|]. exists s. auto.
  - destruct (Nat.eq_dec a l) as [->|Nal]; [|destruct (Nat.eq_dec b l) as [->|Nbl]].
    + destruct (Nat.eq_dec b r) as [->|Nbr]; [apply F1; auto|].
      assert (In r (leaves_of s)) as Hr by (apply (WITHL s b); auto).
      assert (c <> r) as Ncr by (intros ->; contradiction).
      apply (rule3 X NX l r b c).
      * apply F1; auto. eapply subtree_leaves; eauto.
      * apply H1; auto. split; [assumption|]. exists s. auto.
    + apply cdisplays_swap.
      destruct (Nat.eq_dec a r) as [->|Nar]; [apply F1; auto|].
      assert (In r (leaves_of s)) as Hr by (apply (WITHL s a); auto).
      assert (c <> r) as Ncr by (intros ->; contradiction).
      apply (rule3 X NX l r a c).
      * apply F1; auto. eapply subtree_leaves; eauto.
      * apply H1; auto. split; [assumption|]. exists s. auto.
    + apply H1; auto. split; [assumption|]. exists s. auto.
Qed.
(* --- induction over a run of BreakUp on a binary tree --- *)
Lemma bin_min_paths T : bin T -> (exists a, T = Leaf a) \/ min_paths T <> [].
Proof.
  induction 1 as [a|A B BA IHA BB IHB]; [left; eauto|right].
  simpl. destruct (is_leaf A && (is_leaf B && true)) eqn:E; [discriminate|].
  destruct IHA as [[a ->]|NA].
  - destruct IHB as [[b ->]|NB]; [simpl in E; discriminate|].
    simpl. destruct (min_paths B); [congruence|discriminate].
  - destruct (min_paths A); [congruence|discriminate].
Qed.

Lemma min_paths_root T : In [] (min_paths T) -> exists cs, T = Node cs /\ forallb is_leaf cs = true.
Proof.
  destruct T as [a|cs]; simpl; [intros []|]. destruct (forallb is_leaf cs) eqn:E; [eauto|].
  intros I. exfalso. generalize dependent 0. clear E. induction cs as [|c cs IH]; intros n I; [destruct I|].
  apply in_app_or in I. destruct I as [I|I]; [|eapply IH; eauto].
  apply in_map_iff in I. destruct I as (p & E & _). discriminate.
Qed.

Lemma breakup_ind_bin (Q : tree -> list triple -> Prop) :
  (forall a, Q (Leaf a) []) -> (forall x y, Q (Node [Leaf x; Leaf y]) []) ->
  (forall T T' l r z tr ts, bin T -> NoDup (leaves_of T) -> popped l r z T T' ->
      tr = (l, r, z) \/ tr = (r, l, z) -> Q T' ts -> Q T (tr :: ts)) ->
  forall fuel choices T ts, bin T -> NoDup (leaves_of T) ->
  breakup fuel choices T = Ok (Some ts) -> Q T ts.
Proof.
  intros QL QC QS. induction fuel as [|f IH]; intros choices T ts BT ND E.
  - simpl in E. destruct (min_paths T) eqn:MP; [|discriminate]. inversion E; subst.
    destruct (bin_min_paths T BT) as [[a ->]|N]; [apply QL|congruence].
  - simpl in E. destruct (min_paths T) as [|p0 ps] eqn:MP.
    + inversion E; subst. destruct (bin_min_paths T BT) as [[a ->]|N]; [apply QL|congruence].
    + destruct choices as [|k ks]; [discriminate|].
      destruct (nth_error (p0 :: ps) k) as [[|i q]|] eqn:NE; [| |discriminate].
      * inversion E; subst. apply nth_error_In in NE. rewrite <- MP in NE.
        destruct (min_paths_root T NE) as (cs & -> & F). inversion BT; subst.
        destruct l, r; simpl in F; try discriminate. apply QC.
      * apply bind_ok in E. destruct E as ([T' tr] & PA & E). apply bind_ok in E. destruct E as (r0 & BR & E).
        destruct r0 as [ts'|]; [|discriminate]. inversion E; subst.
        destruct (pop_at_popped T BT _ _ _ PA) as (l & r & z & P & Etr).
        apply (QS T T' l r z); auto. apply (IH ks T'); auto.
        -- eapply popped_bin; eauto.
        -- apply (popped_leaves _ _ _ _ _ P ND).
Qed.

Lemma breakup_closure fuel choices T ts X : bin T -> NoDup (leaves_of T) ->
  breakup fuel choices T = Ok (Some ts) -> NoDup (leaves_of X) ->
  (forall tr, In tr ts -> cdisplays X tr) ->
  forall a b c, a <> b -> cdisplays T (a, b, c) -> cdisplays X (a, b, c).
Proof.
  intros BT ND E. revert X.
  apply (breakup_ind_bin (fun T ts => forall X, NoDup (leaves_of X) -> (forall tr, In tr ts -> cdisplays X tr) ->
            forall a b c, a <> b -> cdisplays T (a, b, c) -> cdisplays X (a, b, c))) with (fuel := fuel) (choices := choices); auto.
  - intros x X _ _ a b c Nab (_ & s & Ss & A & B & _). inversion Ss; subst. simpl in A, B. destruct A as [<-|[]], B as [<-|[]]. congruence.
  - intros x y X _ _ a b c Nab (Ic & s & Ss & A & B & C). exfalso.
    destruct (subtree_inv2 _ _ _ Ss) as [-> |[S1|S1]]; [contradiction| |];
      inversion S1; subst; simpl in A, B; destruct A as [<-|[]], B as [<-|[]]; congruence.
  - intros T0 T' l r z tr ts0 BT0 ND0 P Etr IH X NX HX.
    apply (closure_step l r z T0 T' X ND0 P NX).
    + destruct Etr as [-> | ->]; [apply HX; left; reflexivity|apply cdisplays_swap; apply HX; left; reflexivity].
    + apply IH; auto. intros tr' I. apply HX. right; assumption.
Qed.

Lemma breakup_displayed fuel choices T ts : bin T -> NoDup (leaves_of T) ->
  breakup fuel choices T = Ok (Some ts) ->
  forall tr, In tr ts -> cdisplays T tr /\ proper (leaves_of T) tr.
Proof.
  intros BT ND E.
  apply (breakup_ind_bin (fun T ts => forall tr, In tr ts -> cdisplays T tr /\ proper (leaves_of T) tr))
    with (fuel := fuel) (choices := choices); auto.
  - intros a tr [].
  - intros x y tr [].
  - intros T0 T' l r z tr0 ts0 BT0 ND0 P Etr IH tr [<-|I].
    + destruct (popped_leaves _ _ _ _ _ P ND0) as (L & ND' & Il & Ir & Iz & Nlr & Nzl & Nzr).
      destruct (popped_struct _ _ _ _ _ P ND0) as (PP & S & SO & _).
      assert (cdisplays T0 (l, r, z) /\ proper (leaves_of T0) (l, r, z)) as [D1 P1].
      { split; [|repeat split; auto]. split; [assumption|]. exists (Node [Leaf l; Leaf r]).
        split; [assumption|]. simpl. repeat split; auto. intros [?|[?|[]]]; congruence. }
      destruct Etr as [-> | ->]; [split; assumption|]. split; [apply cdisplays_swap; assumption|].
      destruct P1 as (A & B & C & D & E'). repeat split; auto.
    + destruct (IH tr I) as [D1 P1]. destruct (popped_leaves _ _ _ _ _ P ND0) as (L & _).
      destruct tr as [[a b] c]. split.
      * destruct D1 as (Ic & s' & Ss' & A & B & C). apply L in Ic. destruct Ic as [Ic Ncl].
        destruct (popped_sub_back _ _ _ _ _ P ND0 s' Ss') as (s & Ss & Es).
        split; [assumption|]. exists s. split; [assumption|]. rewrite Es in A, B, C. tauto.
      * destruct P1 as (A & B & C & D & E'). rewrite L in A, B, C. unfold proper. tauto.
Qed.

(* --- from clades back to paths --- *)
Lemma subtree_at_exists s t : subtree s t -> exists p, subtree_at t p s.
Proof.
  induction 1 as [t|s c cs I _ [p IH]]; [exists []; constructor|].
  apply In_nth_error in I. destruct I as [i E]. exists (i :: p). econstructor; eauto.
Qed.

Lemma subtree_at_det t p s1 : subtree_at t p s1 -> forall s2, subtree_at t p s2 -> s1 = s2.
Proof.
  induction 1 as [|cs i c p s E _ IH]; intros s2 S2; inversion S2; subst; auto.
  match goal with H1 : nth_error cs i = Some _, H2 : nth_error cs i = Some _ |- _ => rewrite H1 in H2; inversion H2; subst end. auto.
Qed.

Lemma lcp_ge_prefix : forall q p1 r, length q <= length (lcp (q ++ p1) r) -> exists r1, r = q ++ r1.
Proof.
  induction q as [|x q IH]; intros p1 r H; [exists r; reflexivity|].
  destruct r as [|y r]; simpl in H; [lia|]. destruct (Nat.eqb_spec x y) as [->|N]; [|simpl in H; lia].
  simpl in H. destruct (IH p1 r ltac:(lia)) as [r1 ->]. exists r1. reflexivity.
Qed.

Lemma cdisplays_displays t tr : NoDup (leaves_of t) -> cdisplays t tr -> displays t tr.
Proof.
  destruct tr as [[a b] c]. intros ND (Ic & s & Ss & A & B & C).
  destruct (subtree_at_exists _ _ Ss) as [q Sq].
  destruct (leaf_path_exists _ _ A) as [p1 Ha]. destruct (leaf_path_exists _ _ B) as [p2 Hb].
  destruct (leaf_path_exists _ _ Ic) as [pc Hc].
  exists (q ++ p1), (q ++ p2), pc. split; [eapply leaf_path_join; eauto|]. split; [eapply leaf_path_join; eauto|].
  split; [assumption|]. pose proof (lcp_common q p1 p2) as G.
  destruct (Nat.lt_ge_cases (length (lcp (q ++ p1) pc)) (length q)) as [Lt|Ge]; [lia|exfalso].
  destruct (lcp_ge_prefix q p1 pc Ge) as [r1 ->].
  destruct (leaf_path_split _ _ _ _ Hc) as (s2 & S2 & L2).
  rewrite (subtree_at_det _ _ _ Sq _ S2) in C. apply C. eapply leaf_path_in; eauto.
Qed.
(* --- a tree with the same leaves that displays every triple of a binary tree has its clades --- *)
Lemma leaf_subtree t a : In a (leaves_of t) -> subtree (Leaf a) t.
Proof.
  intros I. destruct (leaf_path_exists _ _ I) as [p H]. clear I.
  induction H as [a|cs i c a p E _ IH]; [apply st_refl|]. eapply st_child; [eapply nth_error_In; eauto|assumption].
Qed.

Lemma mca : forall X a b, NoDup (leaves_of X) -> In a (leaves_of X) -> In b (leaves_of X) ->
  exists u, subtree u X /\ In a (leaves_of u) /\ In b (leaves_of u) /\
    forall w, subtree w X -> In a (leaves_of w) -> In b (leaves_of w) ->
              forall y, In y (leaves_of u) -> In y (leaves_of w).
Proof.
  induction X as [x|cs IH] using tree_ind'; intros a b ND Ia Ib.
  - exists (Leaf x). split; [apply st_refl|]. repeat split; auto. intros w Sw _ _ y Hy. inversion Sw; subst. assumption.
  - simpl in ND.
    destruct (all_or_one (fun c => negb (mem a (leaves_of c) && mem b (leaves_of c))) cs) as [ALL|(c & Ic & F)].
    + exists (Node cs). split; [apply st_refl|]. repeat split; auto.
      intros w Sw Wa Wb y Hy. inversion Sw as [|? c ? Ic Sc]; subst; [assumption|exfalso].
      specialize (ALL c Ic). apply negb_true_iff in ALL. apply andb_false_iff in ALL.
      destruct ALL as [M|M]; apply Bool.not_true_iff_false in M; apply M; apply mem_in; eapply subtree_leaves; eauto.
    + apply negb_false_iff in F. apply andb_prop in F. destruct F as [Ma Mb]. apply mem_in in Ma, Mb.
      rewrite Forall_forall in IH. destruct (IH c Ic a b (NoDup_in_child _ _ ND Ic) Ma Mb) as (u & Su & Ua & Ub & MIN).
      exists u. split; [eapply st_child; eauto|]. repeat split; auto.
      intros w Sw Wa Wb y Hy. inversion Sw as [|? c' ? Ic' Sc']; subst.
      * apply in_flat_map. exists c. split; [assumption|]. eapply subtree_leaves; eauto.
      * assert (c' = c) as -> by (apply (NoDup_flat_same cs c' c a ND Ic' Ic); [eapply subtree_leaves; eauto|assumption]).
        apply MIN; auto.
Qed.

Section SameClades.
Variables T X : tree.
Hypothesis BT : bin T.
Hypothesis NT : NoDup (leaves_of T).
Hypothesis NX : NoDup (leaves_of X).
Hypothesis LE : seteq (leaves_of X) (leaves_of T).
Hypothesis NE : forall u, subtree u X -> leaves_of u <> [].
Hypothesis CL : forall a b c, a <> b -> cdisplays T (a, b, c) -> cdisplays X (a, b, c).

(* X has a subtree with leaves a and d but not b, sharing a with u which also has b: it lies inside u *)
Lemma pull_in u a d b : subtree u X -> In a (leaves_of u) -> In b (leaves_of u) ->
  a <> d -> cdisplays T (a, d, b) -> In d (leaves_of u).
Proof.
  intros Su Ua Ub Nad D. destruct (CL a d b Nad D) as (_ & w & Sw & Wa & Wd & Wb).
  destruct (nested X NX u w a Su Sw Ua Wa) as [N|N]; [exfalso; auto|auto].
Qed.

Lemma clade_of_T_in_X : forall s, subtree s T -> exists u, subtree u X /\ seteq (leaves_of u) (leaves_of s).
Proof.
  intros s Ss. pose proof (subtree_bin _ _ Ss BT) as Bs. pose proof (subtree_NoDup _ _ Ss NT) as Ns.
  destruct Bs as [a|s1 s2 B1 B2].
  - exists (Leaf a). split; [|intros x; tauto]. apply leaf_subtree. apply LE. apply (subtree_leaves _ _ Ss). left; reflexivity.
  - destruct (NoDup2 _ _ Ns) as (_ & _ & D).
    destruct (bin_has_leaf _ B1) as [a Ha]. destruct (bin_has_leaf _ B2) as [b Hb].
    assert (a <> b) as Nab by (intros ->; apply (D b); assumption).
    assert (subtree s1 T /\ subtree s2 T) as [S1 S2].
    { split; (eapply subtree_trans; [|exact Ss]); (eapply st_child; [|apply st_refl]); simpl; auto. }
    assert (forall x, In x (leaves_of (Node [s1; s2])) -> In x (leaves_of X)) as TOX
      by (intros x Hx; apply LE; apply (subtree_leaves _ _ Ss); assumption).
    destruct (mca X a b NX) as (u & Su & Ua & Ub & MIN); try (apply TOX; apply leaves_node2; auto).
    exists u. split; [assumption|]. intros y. split.
    + intros Hy. destruct (in_dec Nat.eq_dec y (leaves_of (Node [s1; s2]))) as [I|NI]; [assumption|exfalso].
      assert (cdisplays T (a, b, y)) as DT.
      { split; [apply LE; eapply subtree_leaves; eauto|]. exists (Node [s1; s2]).
        split; [assumption|]. split; [apply leaves_node2; auto|]. split; [apply leaves_node2; auto|assumption]. }
      destruct (CL a b y Nab DT) as (_ & w & Sw & Wa & Wb & Wy). apply Wy. apply MIN; auto.
    + intros Hy. apply leaves_node2 in Hy. destruct Hy as [H1|H2].
      * destruct (Nat.eq_dec a y) as [<-|N]; [assumption|]. apply (pull_in u a y b); auto.
        split; [exact (subtree_leaves _ _ S2 _ Hb)|]. exists s1. split; [assumption|]. split; [assumption|]. split; [assumption|]. intros H. apply (D b); assumption.
      * destruct (Nat.eq_dec b y) as [<-|N]; [assumption|]. apply (pull_in u b y a); auto.
        split; [exact (subtree_leaves _ _ S1 _ Ha)|]. exists s2. split; [assumption|]. split; [assumption|]. split; [assumption|]. intros H. apply (D a); assumption.
Qed.

Lemma clade_of_X_in_T u : subtree u X -> exists s, subtree s T /\ seteq (leaves_of u) (leaves_of s).
Proof.
  intros Su.
  assert (forall T0, bin T0 -> subtree T0 T -> (forall y, In y (leaves_of u) -> In y (leaves_of T0)) ->
            exists s, subtree s T0 /\ seteq (leaves_of u) (leaves_of s)) as AUX.
  { induction 1 as [x|A B BA IHA BB IHB]; intros S0 Inc.
    - exists (Leaf x). split; [apply st_refl|]. intros y. split; [apply Inc|].
      intros [<-|[]]. pose proof (NE u Su) as Nu. destruct (leaves_of u) as [|y l] eqn:Lu; [congruence|].
      destruct (Inc y (or_introl eq_refl)) as [->|[]]. left; reflexivity.
    - assert (subtree A T /\ subtree B T) as [SA SB].
      { split; (eapply subtree_trans; [|exact S0]); (eapply st_child; [|apply st_refl]); simpl; auto. }
      destruct (NoDup2 _ _ (subtree_NoDup _ _ S0 NT)) as (_ & _ & D).
      destruct (all_or_one (fun y => mem y (leaves_of A)) (leaves_of u)) as [ALLA|(yb & Ib & Fb)].
      { destruct (IHA SA) as (s & Ss & E); [intros y Hy; apply mem_in; auto|].
        exists s. split; [eapply st_child; [|exact Ss]; simpl; auto|assumption]. }
      destruct (all_or_one (fun y => mem y (leaves_of B)) (leaves_of u)) as [ALLB|(ya & Ia & Fa)].
      { destruct (IHB SB) as (s & Ss & E); [intros y Hy; apply mem_in; auto|].
        exists s. split; [eapply st_child; [|exact Ss]; simpl; auto|assumption]. }
      assert (In yb (leaves_of B)) as HB.
      { destruct (proj1 (leaves_node2 A B yb) (Inc yb Ib)) as [H|H]; [apply mem_in in H; congruence|assumption]. }
      assert (In ya (leaves_of A)) as HA.
      { destruct (proj1 (leaves_node2 A B ya) (Inc ya Ia)) as [H|H]; [assumption|apply mem_in in H; congruence]. }
      exists (Node [A; B]). split; [apply st_refl|]. intros y. split; [apply Inc|].
      intros Hy. apply leaves_node2 in Hy. destruct Hy as [H1|H2].
      + destruct (Nat.eq_dec ya y) as [<-|N]; [assumption|]. apply (pull_in u ya y yb); auto.
        split; [exact (subtree_leaves _ _ SB _ HB)|]. exists A. split; [assumption|]. split; [assumption|]. split; [assumption|]. intros H. apply mem_in in H. congruence.
      + destruct (Nat.eq_dec yb y) as [<-|N]; [assumption|]. apply (pull_in u yb y ya); auto.
        split; [exact (subtree_leaves _ _ SA _ HA)|]. exists B. split; [assumption|]. split; [assumption|]. split; [assumption|]. intros H. apply mem_in in H. congruence. }
  destruct (AUX T BT (st_refl T)) as (s & Ss & E); [|eauto].
  intros y Hy. apply LE. eapply subtree_leaves; eauto.
Qed.

Lemma closure_same_clades : same_clades X T.
Proof. split; [apply clade_of_X_in_T|apply clade_of_T_in_X]. Qed.

End SameClades.

(* --- every subtree of a tree returned by tree_from_triples has a leaf --- *)
Lemma bin_wf t : bin t -> forall s, subtree s t -> leaves_of s <> [].
Proof.
  intros B s S. destruct (bin_has_leaf _ (subtree_bin _ _ S B)) as [x Hx]. intros E. rewrite E in Hx. destruct Hx.
Qed.

Lemma build_wf : forall fuel leaves triples t,
  length leaves <= fuel -> NoDup leaves -> (forall tr, In tr triples -> proper leaves tr) ->
  build fuel leaves triples = Ok (Some t) -> forall s, subtree s t -> leaves_of s <> [].
Proof.
  induction fuel as [|f IH]; intros leaves triples t Lf NL Hp E.
  - destruct leaves; [discriminate|simpl in Lf; lia].
  - destruct leaves as [|a [|b [|c rest]]]; [discriminate| | |].
    + inversion E; subst. apply bin_wf. constructor.
    + inversion E; subst. apply bin_wf. repeat constructor.
    + remember (a :: b :: c :: rest) as leaves eqn:EL.
      assert (build (S f) leaves triples =
              (d <- unite_triples leaves triples (make (length leaves)) ;;
               if (len d <=? 1)%Z then Ok None
               else ' (_, gs) <- to_list d ;; build_groups (build f) leaves triples gs [])) as EQ
        by (subst leaves; reflexivity).
      rewrite EQ in E. clear a b c rest EL EQ.
      destruct (unite_triples_reach leaves triples [] (make (length leaves)) (R_make _) Hp) as (d & Ed & R).
      rewrite Ed in E. simpl in R. simpl bind in E.
      destruct (Z.leb_spec (len d) 1) as [Le|Gt]; [discriminate|].
      destruct (dsu_to_list _ _ _ R) as (d' & gs & TL & P & Ln & _). rewrite TL in E. simpl bind in E.
      pose proof P as (NEg & ND & Cov & Q).
      assert (2 <= length gs) as L2 by lia.
      pose proof (Permutation_length (partition_perm _ _ _ P)) as LC. rewrite seq_length in LC.
      assert (forall g, In g gs -> forall i, In i g -> i < length leaves) as RANGE.
      { intros g Ig i Ii. apply Cov. apply in_concat. eauto. }
      destruct (build_groups_gen (build f) leaves triples
                  (fun g s => leaves_of s <> [] /\ forall s', subtree s' s -> leaves_of s' <> []) gs [])
        as [E'|(ss & E' & F)].
      { intros g Ig. split; [apply RANGE; assumption|].
        assert (length (gl leaves g) <= f) as Lg by (unfold gl; rewrite map_length; pose proof (group_smaller gs g NEg L2 Ig); lia).
        assert (NoDup (gl leaves g)) as Ng by (apply NoDup_gl; eauto using NoDup_concat_in).
        destruct (build_spec f (gl leaves g) (filter (inside (gl leaves g)) triples) Lg Ng (filter_proper _ _ _ Hp))
          as [E0|(s0 & E0 & Ps & _)]; [left; assumption|right].
        exists s0. split; [assumption|]. split.
        - intros Z0. rewrite Z0 in Ps. apply Permutation_nil in Ps. specialize (NEg g Ig). destruct g; [congruence|discriminate].
        - apply (IH _ _ _ Lg Ng (filter_proper _ _ _ Hp) E0). }
      * rewrite E' in E. discriminate.
      * rewrite E' in E. inversion E; subst t. simpl.
        intros s Ss. inversion Ss as [|? c0 ? Ic Sc]; subst.
        -- destruct gs as [|g0 gs']; [simpl in L2; lia|]. inversion F as [|? s0 ? ss' [N0 _] _]; subst.
           simpl. destruct (leaves_of s0); [congruence|discriminate].
        -- destruct (Forall2_in_r _ _ _ _ F Ic) as (g & _ & _ & W). apply W. assumption.
Qed.

(* --- breakup_roundtrip --- *)
Theorem breakup_roundtrip : forall T choices ts, bin T -> NoDup (leaves_of T) ->
  breakup (size T) choices T = Ok (Some ts) ->
  exists t, tree_from_triples (leaves_of T) ts = Ok (Some t) /\ same_clades t T.
Proof.
  intros T choices ts BT ND E.
  pose proof (breakup_displayed _ _ _ _ BT ND E) as DP.
  assert (forall tr, In tr ts -> proper (leaves_of T) tr) as Hp by (intros tr I; apply DP; assumption).
  assert (leaves_of T <> []) as NEl by (destruct (bin_has_leaf _ BT) as [x Hx]; intros Z0; rewrite Z0 in Hx; destruct Hx).
  destruct (build_complete (leaves_of T) ts T NEl ND Hp ND (fun x H => H)) as [t Et].
  { intros tr I. apply cdisplays_displays; [assumption|apply DP; assumption]. }
  exists t. split; [assumption|].
  destruct (build_sound (leaves_of T) ts ND Hp) as [E0|(t' & E' & Pt & Dt)]; [congruence|].
  rewrite Et in E'. inversion E'; subst t'.
  assert (NoDup (leaves_of t)) as Nt by (eapply Permutation_NoDup; [symmetry; exact Pt|assumption]).
  apply closure_same_clades; auto.
  - intros x. split; apply Permutation_in; [assumption|symmetry; assumption].
  - apply (build_wf (length (leaves_of T)) (leaves_of T) ts t); auto.
  - apply (breakup_closure (size T) choices T ts t BT ND E Nt).
    intros tr I. apply displays_cdisplays; auto.
Qed.

(* --- supertree_displays: the tree built from the triples of several binary trees displays
       every (genuine) triple each of them displays --- *)
Theorem supertree_displays :
  forall (Ts : list tree) (tss : list (list triple)) (leaves : list nat) (triples : list triple) t,
  Forall2 (fun T ts => bin T /\ NoDup (leaves_of T) /\
                       exists choices, breakup (size T) choices T = Ok (Some ts)) Ts tss ->
  NoDup leaves -> (forall x, In x leaves <-> exists T, In T Ts /\ In x (leaves_of T)) ->
  (forall tr, In tr triples <-> In tr (concat tss)) ->
  tree_from_triples leaves triples = Ok (Some t) ->
  forall T a b c, In T Ts -> a <> b -> displays T (a, b, c) -> displays t (a, b, c).
Proof.
  intros Ts tss leaves triples t F2 NL LV TR E T a b c IT Nab DT.
  assert (forall tr, In tr triples -> proper leaves tr) as Hp.
  { intros tr I. apply TR in I. apply in_concat in I. destruct I as (ts' & Its & I).
    destruct (Forall2_in_r _ _ _ _ F2 Its) as (T' & IT' & BT' & ND' & ch & E').
    destruct (breakup_displayed _ _ _ _ BT' ND' E' tr I) as [_ Pr].
    destruct tr as [[x y] z]. destruct Pr as (A & B & C & D & E0).
    repeat split; auto; apply LV; eauto. }
  destruct (build_sound leaves triples NL Hp) as [E0|(t' & E' & Pt & Dt)]; [congruence|].
  rewrite E in E'. inversion E'; subst t'.
  assert (NoDup (leaves_of t)) as Nt by (eapply Permutation_NoDup; [symmetry; exact Pt|assumption]).
  destruct (Forall2_in_l _ _ _ _ F2 IT) as (ts & Its & BT & ND & ch & EB).
  apply cdisplays_displays; [assumption|].
  apply (breakup_closure (size T) ch T ts t BT ND EB Nt); [|assumption|apply displays_cdisplays; assumption].
  intros tr I. apply displays_cdisplays; [assumption|]. apply Dt. apply TR. apply in_concat. eauto.
Qed.
(* --- BreakUp never raises nor runs out of fuel on a binary tree --- *)
Lemma size_node2 A B : size (Node [A; B]) = S (size A + (size B + 0)).
Proof. reflexivity. Qed.

Lemma pop_at_ok : forall T, bin T -> forall p, In p (min_paths T) -> p <> [] ->
  exists T' tr, pop_at p T = Ok (T', tr) /\ bin T' /\ size T' < size T.
Proof.
  induction 1 as [a|A B BA IHA BB IHB]; intros p Ip Np; [destruct Ip|].
  assert (forall C D i (BC : bin C) (BD : bin D), In [] (min_paths C) ->
            (i = 0 /\ [C; D] = [A; B]) \/ (i = 1 /\ [D; C] = [A; B]) ->
            exists T' tr, pop_here i [A; B] = Ok (T', tr) /\ bin (Node T') /\ size (Node T') < size (Node [A; B])) as HERE.
  { intros C D i BC BD I0 Pos. destruct (min_paths_root C I0) as (cs & -> & F).
    inversion BC; subst. destruct l, r; simpl in F; try discriminate.
    destruct (bin_has_leaf _ BD) as [x Hx]. destruct (leaves_of D) as [|z zs] eqn:LD; [destruct Hx|].
    destruct Pos as [[-> E]|[-> E]]; inversion E; subst; unfold pop_here; simpl; rewrite LD; simpl;
      eexists; eexists; (split; [reflexivity|]); (split; [repeat constructor; assumption|]); simpl; lia. }
  simpl in Ip. destruct (is_leaf A && (is_leaf B && true)) eqn:E.
  - destruct Ip as [<-|[]]. congruence.
  - apply in_app_or in Ip. destruct Ip as [Ip|Ip].
    + apply in_map_iff in Ip. destruct Ip as (q & <- & Iq). destruct q as [|j q].
      * destruct (HERE A B 0 BA BB Iq (or_introl (conj eq_refl eq_refl))) as (cs' & tr & PH & B' & SZ).
        exists (Node cs'), tr. cbn [pop_at]. rewrite PH. auto.
      * destruct (IHA (j :: q) Iq ltac:(discriminate)) as (A' & tr & PA & BA' & SZ).
        exists (Node [A'; B]), tr.
        change (pop_at (0 :: j :: q) (Node [A; B])) with
          (' (c', tr) <- pop_at (j :: q) A ;; Ok (Node [c'; B], tr)).
        rewrite PA. simpl. split; [reflexivity|]. split; [constructor; assumption|]. simpl. lia.
    + apply in_app_or in Ip. destruct Ip as [Ip|[]].
      apply in_map_iff in Ip. destruct Ip as (q & <- & Iq). destruct q as [|j q].
      * destruct (HERE B A 1 BB BA Iq (or_intror (conj eq_refl eq_refl))) as (cs' & tr & PH & B' & SZ).
        exists (Node cs'), tr. cbn [pop_at]. rewrite PH. auto.
      * destruct (IHB (j :: q) Iq ltac:(discriminate)) as (B' & tr & PA & BB' & SZ).
        exists (Node [A; B']), tr.
        change (pop_at (1 :: j :: q) (Node [A; B])) with
          (' (c', tr) <- pop_at (j :: q) B ;; Ok (Node [A; c'], tr)).
        rewrite PA. simpl. split; [reflexivity|]. split; [constructor; assumption|]. simpl. lia.
Qed.

Lemma breakup_total : forall fuel T, bin T -> size T <= fuel ->
  forall choices, exists r, breakup fuel choices T = Ok r.
Proof.
  induction fuel as [|f IH]; intros T BT Sz choices.
  - destruct BT; simpl in Sz; lia.
  - simpl. destruct (min_paths T) as [|p0 ps] eqn:MP; [eauto|].
    destruct choices as [|k ks]; [eauto|].
    destruct (nth_error (p0 :: ps) k) as [[|i q]|] eqn:NE; [eauto| |eauto].
    apply nth_error_In in NE. rewrite <- MP in NE.
    destruct (pop_at_ok T BT (i :: q) NE ltac:(discriminate)) as (T' & tr & PA & BT' & SZ).
    rewrite PA. simpl. destruct (IH T' BT' ltac:(lia) ks) as [r ->]. simpl. eauto.
Qed.

(* the first pop order always fits: tree_to_triples returns a triple list for some oracle *)
Lemma breakup_first : forall fuel T, bin T -> size T <= fuel ->
  exists ts, breakup fuel (repeat 0 fuel) T = Ok (Some ts).
Proof.
  induction fuel as [|f IH]; intros T BT Sz.
  - destruct BT; simpl in Sz; lia.
  - simpl. destruct (min_paths T) as [|p0 ps] eqn:MP; [eauto|]. simpl.
    destruct p0 as [|i q]; [eauto|].
    assert (In (i :: q) (min_paths T)) as I by (rewrite MP; left; reflexivity).
    destruct (pop_at_ok T BT (i :: q) I ltac:(discriminate)) as (T' & tr & PA & BT' & SZ).
    rewrite PA. simpl. destruct (IH T' BT' ltac:(lia)) as [ts ->]. simpl. eauto.
Qed.

(* --- the round trip, in terms of the model of tree_to_triples --- *)
Theorem roundtrip : forall T choices ls ts, bin T -> NoDup (leaves_of T) ->
  tree_to_triples choices T = Ok (Some (ls, ts)) ->
  exists t, tree_from_triples ls ts = Ok (Some t) /\ same_clades t T.
Proof.
  intros T choices ls ts BT ND E. unfold tree_to_triples in E.
  apply bind_ok in E. destruct E as (r & B & E). destruct r as [ts'|]; [|discriminate].
  inversion E; subst. eapply breakup_roundtrip; eauto.
Qed.

Theorem tree_to_triples_total : forall T, bin T ->
  (forall choices, exists r, tree_to_triples choices T = Ok r) /\
  (exists choices ts, tree_to_triples choices T = Ok (Some (leaves_of T, ts))).
Proof.
  intros T BT. split.
  - intros choices. unfold tree_to_triples. destruct (breakup_total (size T) T BT (Nat.le_refl _) choices) as [r ->]. simpl. eauto.
  - destruct (breakup_first (size T) T BT (Nat.le_refl _)) as [ts E]. exists (repeat 0 (size T)), ts.
    unfold tree_to_triples. rewrite E. reflexivity.
Qed.
(* --- the enumerator used by the correspondence check lists exactly the outcomes of [breakup] --- *)
Lemma all_breakups_spec : forall fuel t l, all_breakups fuel t = Ok l ->
  forall ts, In ts l <-> exists choices, breakup fuel choices t = Ok (Some ts).
Proof.
  induction fuel as [|f IH]; intros t l E ts.
  - simpl in *. destruct (min_paths t); [|discriminate]. inversion E; subst. simpl. split.
    + intros [<-|[]]. exists []. reflexivity.
    + intros [ch H]. inversion H. auto.
  - simpl in E. simpl breakup. destruct (min_paths t) as [|p0 ps0] eqn:MP.
    + inversion E; subst. simpl. split; [intros [<-|[]]; exists []; reflexivity|intros [ch H]; inversion H; auto].
    + (* outcome through one popped node *)
      set (outcome := fun (p : list nat) (ts : list triple) =>
             match p with
             | [] => ts = []
             | _ => exists t' tr ts' ks, pop_at p t = Ok (t', tr) /\ breakup f ks t' = Ok (Some ts') /\ ts = tr :: ts'
             end).
      assert (forall ps l, (fix go (ps : list (list nat)) : res (list (list triple)) :=
                 match ps with
                 | [] => Ok []
                 | [] :: r => more <- go r ;; Ok ([] :: more)
                 | p :: r => ' (t', tr) <- pop_at p t ;; sub <- all_breakups f t' ;; more <- go r ;; Ok (map (cons tr) sub ++ more)
                 end) ps = Ok l ->
               forall ts, In ts l <-> exists p, In p ps /\ outcome p ts) as GO.
      { induction ps as [|p ps IHps]; intros l' E' ts'.
        - inversion E'; subst. simpl. split; [intros []|intros (p & [] & _)].
        - destruct p as [|i q].
          + apply bind_ok in E'. destruct E' as (more & Em & E'). inversion E'; subst. simpl. rewrite (IHps more Em ts'). split.
            * intros [<-|(p & I & O)]; [exists []; split; [auto|reflexivity]|exists p; auto].
            * intros (p & [<-|I] & O); [left; symmetry; exact O|right; eauto].
          + apply bind_ok in E'. destruct E' as ([t' tr] & PA & E'). apply bind_ok in E'. destruct E' as (sub & Es & E').
            apply bind_ok in E'. destruct E' as (more & Em & E'). inversion E'; subst.
            rewrite in_app_iff, (IHps more Em ts'), in_map_iff. split.
            * intros [(ts0 & <- & I0)|(p & I & O)].
              -- apply (IH t' sub Es) in I0. destruct I0 as [ks Hk]. exists (i :: q). split; [left; reflexivity|].
                 unfold outcome; cbv beta iota. exists t', tr, ts0, ks. auto.
              -- exists p. split; [right; assumption|assumption].
            * intros (p & [<-|I] & O).
              -- left. unfold outcome in O; cbv beta iota in O. destruct O as (t2 & tr2 & ts2 & ks & PA2 & B2 & ->). rewrite PA in PA2. inversion PA2; subst.
                 exists ts2. split; [reflexivity|]. apply (IH t2 sub Es). eauto.
              -- right. eauto. }
      rewrite (GO (p0 :: ps0) l E ts). split.
      * intros (p & I & O). apply In_nth_error in I. destruct I as [k Ek]. destruct p as [|i q].
        -- unfold outcome in O; cbv beta iota in O. subst ts. exists [k]. rewrite Ek. reflexivity.
        -- unfold outcome in O; cbv beta iota in O. destruct O as (t' & tr & ts' & ks & PA & B & ->). exists (k :: ks). rewrite Ek, PA. simpl. rewrite B. reflexivity.
      * intros [ch H]. destruct ch as [|k ks]; [discriminate|].
        destruct (nth_error (p0 :: ps0) k) as [p|] eqn:Ek; [|discriminate]. exists p. split; [eapply nth_error_In; eauto|].
        destruct p as [|i q]; [inversion H; reflexivity|].
        apply bind_ok in H. destruct H as ([t' tr] & PA & H). apply bind_ok in H. destruct H as (r0 & B & H).
        destruct r0 as [ts'|]; [|discriminate]. inversion H; subst. unfold outcome; cbv beta iota. exists t', tr, ts', ks. auto.
Qed.
