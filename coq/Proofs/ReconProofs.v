(** The evaluator against an independent recount (C06, plain part) and the
    enumeration of all valid reconciliations. *)
From Coq Require Import List Bool Arith ZArith Lia.
From SR Require Import Base.PathB Base.Ext Model.Recon Proofs.PathFacts.
Import ListNotations.
Local Open Scope Z_scope.

(** * Validity *)
Inductive valid_rec (S : stree) : otree -> rtree -> Prop :=
| v_leaf sp syn : valid_sp S sp = true -> valid_rec S (OLeaf sp syn) (RLeaf sp)
| v_node a b s ra rb :
    valid_sp S s = true -> event s (root ra) (root rb) <> Inv ->
    valid_rec S a ra -> valid_rec S b rb -> valid_rec S (ONode a b) (RNode s ra rb).

Fixpoint leaves_ok (S : stree) (o : otree) : Prop :=
  match o with OLeaf sp _ => valid_sp S sp = true | ONode a b => leaves_ok S a /\ leaves_ok S b end.

(** * The documented event model: explicit loss lists *)

(* the species [s], [s ++ d1], ... strictly above [s ++ d] *)
Fixpoint chain (s d : path) : list path :=
  match d with [] => [] | x :: d' => s :: chain (s ++ [x]) d' end.
Definition below (s t : path) : path := skipn (length s) t.

(* species in which the lineage from [s] down to a child at [t] loses the sister copy *)
Definition losses_vertical (s t : path) : list path := chain s (below s t).       (* [s] and the strict intermediates *)
Definition losses_speciation (s t : path) : list path := tl (chain s (below s t)). (* strict intermediates only *)

Definition node_losses (s l r : path) : list path :=
  match event s l r with
  | Spe => losses_speciation s l ++ losses_speciation s r
  | Dup => losses_vertical s l ++ losses_vertical s r
  | TrL => losses_vertical s l
  | TrR => losses_vertical s r
  | Inv => []
  end.

Fixpoint events (r : rtree) : list ev :=
  match r with RLeaf _ => [] | RNode s a b => event s (root a) (root b) :: events a ++ events b end.
Fixpoint all_losses (r : rtree) : list path :=
  match r with
  | RLeaf _ => []
  | RNode s a b => node_losses s (root a) (root b) ++ all_losses a ++ all_losses b
  end.

Definition is_ev (e f : ev) : bool :=
  match e, f with Spe, Spe | Dup, Dup | TrL, TrL | TrR, TrR | Inv, Inv => true | _, _ => false end.
Definition count_ev (e : ev) (l : list ev) : Z := Z.of_nat (length (filter (is_ev e) l)).
Definition n_transfers (r : rtree) : Z := count_ev TrL (events r) + count_ev TrR (events r).

(* [n] transfers at unit cost [h]: no charge at all when there is none, even if [h] is infinite *)
Definition hgt_times (h : ext) (n : Z) : ext :=
  if n =? 0 then Fin 0 else match h with Fin z => Fin (z * n) | x => x end.

Definition recount (c : costs) (r : rtree) : ext :=
  ext_add (Fin (c_spe c * count_ev Spe (events r) + c_dup c * count_ev Dup (events r)
                + c_floss c * Z.of_nat (length (all_losses r))))
          (hgt_times (c_hgt c) (n_transfers r)).

Lemma chain_length s d : length (chain s d) = length d.
Proof. revert s; induction d as [|x d IH]; intros s; simpl; auto. Qed.

Lemma below_length s t : anc s t = true -> Z.of_nat (length (below s t)) = dist s t.
Proof.
  intros H. rewrite (dist_anc _ _ H). unfold below, len.
  rewrite skipn_length. apply is_prefix_length in H. lia.
Qed.

Lemma losses_vertical_length s t : anc s t = true -> Z.of_nat (length (losses_vertical s t)) = dist s t.
Proof. intros H. unfold losses_vertical. rewrite chain_length. now apply below_length. Qed.

Lemma losses_speciation_length s t : anc s t = true -> s <> t ->
  Z.of_nat (length (losses_speciation s t)) = dist s t - 1.
Proof.
  intros H N. unfold losses_speciation. rewrite <- (below_length _ _ H).
  destruct (below s t) as [|x d] eqn:E.
  - exfalso. apply N. rewrite (anc_skipn _ _ H). fold (below s t). rewrite E. now rewrite app_nil_r.
  - cbn [chain tl length]. rewrite chain_length, Nat2Z.inj_succ. lia.
Qed.

(* every loss species lies on the branch: at or below [s], strictly above [t] *)
Lemma chain_on_branch s d p : In p (chain s d) -> anc s p = true /\ sanc p (s ++ d) = true.
Proof.
  revert s; induction d as [|x d IH]; intros s; simpl; [tauto|].
  intros [<-|H].
  - split; [apply is_prefix_refl|]. unfold sanc. rewrite anc_self_app. simpl.
    destruct (path_eqb_spec s (s ++ x :: d)) as [E|E]; auto.
    rewrite <- (app_nil_r s) in E at 1. apply app_inv_head in E. discriminate.
  - destruct (IH _ H) as [A B]. rewrite <- app_assoc in B. simpl in B. split; auto.
    eapply is_prefix_trans; [apply anc_self_app|exact A].
Qed.

Lemma ext_add_Fin x y : ext_add (Fin x) (Fin y) = Fin (x + y). Proof. reflexivity. Qed.

Lemma hgt_times_add h a b : 0 <= a -> 0 <= b ->
  hgt_times h (a + b) = ext_add (hgt_times h a) (hgt_times h b).
Proof.
  intros Ha Hb. unfold hgt_times.
  destruct (Z.eqb_spec a 0) as [->|Na], (Z.eqb_spec b 0) as [->|Nb]; simpl.
  - reflexivity.
  - destruct (Z.eqb_spec b 0); [lia|]. destruct h; reflexivity.
  - rewrite Z.add_0_r. destruct (Z.eqb_spec a 0); [lia|]. destruct h; simpl; auto. f_equal; lia.
  - destruct (Z.eqb_spec (a + b) 0); [lia|]. destruct h; simpl; auto. f_equal; lia.
Qed.

Lemma count_ev_app e l1 l2 : count_ev e (l1 ++ l2) = count_ev e l1 + count_ev e l2.
Proof. unfold count_ev. rewrite filter_app, app_length. lia. Qed.
Lemma count_ev_cons e f l : count_ev e (f :: l) = (if is_ev e f then 1 else 0) + count_ev e l.
Proof. unfold count_ev. cbn [filter]. destruct (is_ev e f); cbn [length]; rewrite ?Nat2Z.inj_succ; lia. Qed.
Lemma count_ev_nonneg e l : 0 <= count_ev e l.
Proof. unfold count_ev; lia. Qed.

(* a four-way normal form used to reassemble sums *)
Lemma recount_node c s a b :
  recount c (RNode s a b) =
  ext_add (ext_add (Fin ((if is_ev Spe (event s (root a) (root b)) then c_spe c else 0)
                         + (if is_ev Dup (event s (root a) (root b)) then c_dup c else 0)
                         + c_floss c * Z.of_nat (length (node_losses s (root a) (root b)))))
                   (hgt_times (c_hgt c) ((if is_ev TrL (event s (root a) (root b)) then 1 else 0)
                                         + (if is_ev TrR (event s (root a) (root b)) then 1 else 0))))
          (ext_add (recount c a) (recount c b)).
Proof.
  unfold recount, n_transfers. cbn [events all_losses].
  rewrite !count_ev_cons, !count_ev_app, !app_length, !Nat2Z.inj_add.
  set (e := event s (root a) (root b)).
  pose proof (count_ev_nonneg TrL (events a)). pose proof (count_ev_nonneg TrR (events a)).
  pose proof (count_ev_nonneg TrL (events b)). pose proof (count_ev_nonneg TrR (events b)).
  replace ((if is_ev TrL e then 1 else 0) + (count_ev TrL (events a) + count_ev TrL (events b)) +
           ((if is_ev TrR e then 1 else 0) + (count_ev TrR (events a) + count_ev TrR (events b))))
    with (((if is_ev TrL e then 1 else 0) + (if is_ev TrR e then 1 else 0)) +
          ((count_ev TrL (events a) + count_ev TrR (events a)) + (count_ev TrL (events b) + count_ev TrR (events b)))) by lia.
  set (te := (if is_ev TrL e then 1 else 0) + (if is_ev TrR e then 1 else 0)).
  set (ta := count_ev TrL (events a) + count_ev TrR (events a)).
  set (tb := count_ev TrL (events b) + count_ev TrR (events b)).
  assert (0 <= te) by (unfold te; destruct (is_ev TrL e), (is_ev TrR e); lia).
  rewrite (hgt_times_add (c_hgt c) te (ta + tb)) by (unfold ta, tb; lia).
  rewrite (hgt_times_add (c_hgt c) ta tb) by (unfold ta, tb; lia).
  generalize (hgt_times (c_hgt c) te) (hgt_times (c_hgt c) ta) (hgt_times (c_hgt c) tb).
  intros x y z.
  destruct (is_ev Spe e), (is_ev Dup e); destruct x, y, z; cbn [ext_add]; auto; f_equal; lia.
Qed.

Lemma valid_rec_root_leaf S sp syn r : valid_rec S (OLeaf sp syn) r -> r = RLeaf sp.
Proof. inversion 1; auto. Qed.

(** for every valid reconciliation the evaluator's cost is the recount *)
Theorem cost_recount c S O r : valid_rec S O r -> cost c O r = recount c r.
Proof.
  induction 1 as [sp syn Hs|a b s ra rb Hs He Va IHa Vb IHb].
  - simpl. rewrite path_eqb_refl. unfold recount, n_transfers, count_ev. simpl.
    rewrite !Z.mul_0_r. reflexivity.
  - rewrite recount_node, <- IHa, <- IHb. cbn [cost].
    remember (event s (root ra) (root rb)) as e eqn:E.
    assert (forall X, match e with Inv => PInf | _ => X end = X) as M by (destruct e; congruence).
    rewrite M. f_equal. unfold ecost, node_losses. rewrite <- E.
    destruct e; cbn [is_ev]; try congruence.
    + destruct (event_SD s (root ra) (root rb)) as [A B]; [left; auto|].
      destruct (event_Spe_inv _ _ _ (eq_sym E)) as [L [N1 N2]].
      assert (s <> root ra) as Na.
      { intros X. rewrite <- X in N1. congruence. }
      assert (s <> root rb) as Nb.
      { intros X. rewrite <- X in N2. congruence. }
      rewrite app_length, Nat2Z.inj_add, (losses_speciation_length _ _ A Na), (losses_speciation_length _ _ B Nb).
      unfold hgt_times; simpl. f_equal. lia.
    + destruct (event_SD s (root ra) (root rb)) as [A B]; [right; auto|].
      rewrite app_length, Nat2Z.inj_add, (losses_vertical_length _ _ A), (losses_vertical_length _ _ B).
      unfold hgt_times; simpl. f_equal. lia.
    + destruct (event_TrL_inv _ _ _ (eq_sym E)) as [A _].
      rewrite (losses_vertical_length _ _ A). unfold hgt_times; simpl.
      destruct (c_hgt c); simpl; auto. f_equal. lia.
    + destruct (event_TrR_inv _ _ _ (eq_sym E)) as [A _].
      rewrite (losses_vertical_length _ _ A). unfold hgt_times; simpl.
      destruct (c_hgt c); simpl; auto. f_equal. lia.
Qed.

(** an invalid node makes the cost infinite *)
Theorem cost_invalid_inf c oa ob s a b :
  event s (root a) (root b) = Inv -> cost c (ONode oa ob) (RNode s a b) = PInf.
Proof. intros E. simpl. now rewrite E. Qed.

(** exactly one classification, with its geometric meaning *)
Theorem event_exhaustive s l r :
  match event s l r with
  | Spe => anc s l = true /\ anc s r = true /\ s = lcp l r /\ anc l r = false /\ anc r l = false
  | Dup => anc s l = true /\ anc s r = true /\ (s <> lcp l r \/ comparable l r = true)
  | TrL => anc s l = true /\ anc s r = false /\ anc r s = false
  | TrR => anc s r = true /\ anc s l = false /\ anc l s = false
  | Inv => sanc l s = true \/ sanc r s = true \/ (anc s l = false /\ anc s r = false)
  end.
Proof.
  destruct (event s l r) eqn:E.
  - destruct (event_SD s l r) as [A B]; [left; auto|]. destruct (event_Spe_inv _ _ _ E) as [L [N1 N2]]. auto.
  - destruct (event_SD s l r) as [A B]; [right; auto|]. repeat split; auto.
    unfold event in E. destruct (sanc l s || sanc r s); [discriminate|]. rewrite A, B in E. simpl in E.
    destruct (path_eqb_spec s (lcp l r)); simpl in E; [|left; auto].
    destruct (comparable l r); simpl in E; [right; auto|discriminate].
  - now apply event_TrL_inv.
  - now apply event_TrR_inv.
  - unfold event in E. destruct (sanc l s) eqn:X; [left; auto|]. destruct (sanc r s) eqn:Y; [right; left; auto|].
    simpl in E. right; right. destruct (anc s l), (anc s r); simpl in E; auto; try discriminate.
    destruct (path_eqb s (lcp l r) && negb (comparable l r)); discriminate.
Qed.

(** * The enumeration of valid reconciliations *)
Lemma snodes_valid S p : In p (snodes S) <-> valid_sp S p = true.
Proof.
  revert p; induction S as [|l IHl r IHr]; intros p; simpl.
  - destruct p as [|[|] p]; simpl; split; auto; try discriminate; intros [H|[]]; discriminate.
  - rewrite in_app_iff, !in_map_iff. destruct p as [|[|] p]; simpl.
    + split; auto.
    + rewrite <- IHr. split.
      * intros [H|[[x [H _]]|[x [H I]]]]; try discriminate. now inversion H; subst.
      * intros H. right; right. eauto.
    + rewrite <- IHl. split.
      * intros [H|[[x [H I]]|[x [H _]]]]; try discriminate. now inversion H; subst.
      * intros H. right; left. eauto.
Qed.

Lemma NoDup_map_inj {A B} (f : A -> B) l : (forall x y, f x = f y -> x = y) -> NoDup l -> NoDup (map f l).
Proof.
  intros Inj. induction 1 as [|x l Hx ND IH]; simpl; constructor; auto.
  rewrite in_map_iff. intros [y [E I]]. apply Inj in E. subst. contradiction.
Qed.

Lemma NoDup_app_disj {A} (l1 l2 : list A) :
  NoDup l1 -> NoDup l2 -> (forall x, In x l1 -> In x l2 -> False) -> NoDup (l1 ++ l2).
Proof.
  induction 1 as [|x l Hx ND IH]; simpl; auto. intros N2 D. constructor.
  - rewrite in_app_iff. intros [H|H]; [contradiction|]. apply (D x); auto.
  - apply IH; auto. intros y H1 H2. apply (D y); auto.
Qed.

Lemma snodes_nodup S : NoDup (snodes S).
Proof.
  induction S as [|l IHl r IHr]; simpl; [repeat constructor; simpl; tauto|].
  constructor.
  - rewrite in_app_iff, !in_map_iff. intros [[x [H _]]|[x [H _]]]; discriminate.
  - apply NoDup_app_disj.
    + apply NoDup_map_inj; auto. intros x y H; now inversion H.
    + apply NoDup_map_inj; auto. intros x y H; now inversion H.
    + intros x H1 H2. apply in_map_iff in H1 as [y [<- _]]. apply in_map_iff in H2 as [z [H _]]. discriminate.
Qed.

Lemma NoDup_flat_map {A B} (f : A -> list B) l :
  NoDup l -> (forall x, In x l -> NoDup (f x)) ->
  (forall x y z, In x l -> In y l -> In z (f x) -> In z (f y) -> x = y) ->
  NoDup (flat_map f l).
Proof.
  induction 1 as [|x l Hx ND IH]; simpl; intros N D; [constructor|].
  apply NoDup_app_disj.
  - apply N. now left.
  - apply IH; [intros y Hy; apply N; now right|].
    intros a b z Ha Hb; apply D; now right.
  - intros z H1 H2. apply in_flat_map in H2 as [y [Hy Hz]].
    assert (x = y) by (apply (D x y z); simpl; auto). subst. contradiction.
Qed.

Theorem all_recs_spec S O : leaves_ok S O -> forall r, In r (all_recs S O) <-> valid_rec S O r.
Proof.
  induction O as [sp syn|a IHa b IHb]; intros L r; simpl in *.
  - split.
    + intros [<-|[]]. now constructor.
    + intros V. inversion V; subst. now left.
  - destruct L as [La Lb]. rewrite in_flat_map. split.
    + intros [ra [Ha H]]. apply in_flat_map in H as [rb [Hb H]]. apply in_flat_map in H as [s [Hs H]].
      destruct (event s (root ra) (root rb)) eqn:E; simpl in H; try tauto;
        destruct H as [<-|[]]; constructor; auto; try (now apply snodes_valid); try congruence;
        try (now apply IHa); now apply IHb.
    + intros V. inversion V as [|? ? s ra rb Hs He Va Vb]; subst.
      exists ra. split; [now apply IHa|]. apply in_flat_map. exists rb. split; [now apply IHb|].
      apply in_flat_map. exists s. split; [now apply snodes_valid|].
      destruct (event s (root ra) (root rb)); simpl; auto; congruence.
Qed.

Theorem all_recs_nodup S O : NoDup (all_recs S O).
Proof.
  induction O as [sp syn|a IHa b IHb]; simpl; [repeat constructor; simpl; tauto|].
  apply NoDup_flat_map; auto.
  - intros ra _. apply NoDup_flat_map; auto.
    + intros rb _. apply NoDup_flat_map; [apply snodes_nodup| |].
      * intros s _. destruct (event s (root ra) (root rb)); repeat constructor; simpl; tauto.
      * intros s s' z _ _ H1 H2.
        destruct (event s (root ra) (root rb)); simpl in H1; try tauto; destruct H1 as [<-|[]];
        destruct (event s' (root ra) (root rb)); simpl in H2; try tauto; destruct H2 as [H|[]]; now inversion H.
    + intros rb rb' z _ _ H1 H2.
      apply in_flat_map in H1 as [s [_ H1]]. apply in_flat_map in H2 as [s' [_ H2]].
      destruct (event s (root ra) (root rb)); simpl in H1; try tauto; destruct H1 as [<-|[]];
      destruct (event s' (root ra) (root rb')); simpl in H2; try tauto; destruct H2 as [H|[]]; now inversion H.
  - intros ra ra' z _ _ H1 H2.
    apply in_flat_map in H1 as [rb [_ H1]]. apply in_flat_map in H1 as [s [_ H1]].
    apply in_flat_map in H2 as [rb' [_ H2]]. apply in_flat_map in H2 as [s' [_ H2]].
    destruct (event s (root ra) (root rb)); simpl in H1; try tauto; destruct H1 as [<-|[]];
    destruct (event s' (root ra') (root rb')); simpl in H2; try tauto; destruct H2 as [H|[]]; now inversion H.
Qed.
