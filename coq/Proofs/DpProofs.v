(** The optimiser's view of one node ([ocost]: the candidate families of the table
    filling), its agreement with the evaluator inside the coherent cost region, and
    the clean dynamic-programming table [Tval] with its optimality (C01 core). *)
From Coq Require Import List Bool Arith ZArith Lia.
From SR Require Import Base.PathB Base.Ext Model.Recon Proofs.PathFacts Proofs.ReconProofs.
Import ListNotations.
Local Open Scope Z_scope.

Definition in_left (s x : path) : bool := anc (s ++ [false]) x.
Definition in_right (s x : path) : bool := anc (s ++ [true]) x.
Definition separate (s x : path) : bool := negb (anc s x) && negb (anc x s).
Definition guard (b : bool) (x : ext) : ext := if b then x else PInf.

Definition spe_cfg (s l r : path) : bool := (in_left s l && in_right s r) || (in_right s l && in_left s r).

(* the four candidate families of [_compute_thl_try_speciation/_duplication_transfer] *)
Definition ocost (c : costs) (s l r : path) : ext :=
  ext_min (guard (spe_cfg s l r) (Fin (c_spe c + c_floss c * (dist s l + dist s r - 2))))
 (ext_min (guard (anc s l && anc s r) (Fin (c_dup c + c_floss c * (dist s l + dist s r))))
 (ext_min (guard (anc s l && separate s r) (ext_add (c_hgt c) (Fin (c_floss c * dist s l))))
          (guard (separate s l && anc s r) (ext_add (c_hgt c) (Fin (c_floss c * dist s r)))))).

Definition coherent (c : costs) : Prop := c_spe c <= c_dup c + 2 * c_floss c.

Lemma ext_min_PInf_r x : ext_min x PInf = x.
Proof. unfold ext_min. destruct x; reflexivity. Qed.
Lemma ext_min_PInf_l x : ext_min PInf x = x.
Proof. unfold ext_min. destruct x; reflexivity. Qed.
Lemma ext_min_Fin a b : a <= b -> ext_min (Fin a) (Fin b) = Fin a.
Proof. intros H. unfold ext_min. simpl. destruct (Z.ltb_spec b a); [lia|reflexivity]. Qed.

(* characterisation of the speciation configuration *)
Lemma spe_config s l r :
  anc s l = true -> anc s r = true ->
  (path_eqb s (lcp l r) && negb (comparable l r) = true <-> spe_cfg s l r = true).
Proof.
  rewrite !is_prefix_spec. intros [a ->] [b ->].
  unfold spe_cfg, in_left, in_right, comparable.
  rewrite lcp_app, !anc_app_cancel.
  destruct (path_eqb_spec s (s ++ lcp a b)) as [E|E].
  - assert (lcp a b = []) as L.
    { rewrite <- (app_nil_r s) in E at 1. now apply app_inv_head in E. }
    destruct a as [|x a], b as [|y b]; simpl in *;
      try (split; [discriminate | rewrite ?andb_false_r; simpl; discriminate]).
    destruct (Bool.eqb x y) eqn:Exy; [discriminate|]. rewrite (eqb_sym y x), Exy. simpl.
    destruct x, y; simpl in *; try discriminate; split; auto.
  - simpl. split; [discriminate|]. intros H. exfalso. apply E.
    destruct a as [|x a], b as [|y b]; simpl in H; try discriminate;
      try (rewrite ?andb_false_r in H; simpl in H; discriminate).
    destruct x, y; simpl in *; try discriminate; rewrite app_nil_r; reflexivity.
Qed.

Lemma spe_cfg_anc s l r : spe_cfg s l r = true -> anc s l = true /\ anc s r = true.
Proof.
  unfold spe_cfg, in_left, in_right. intros H.
  apply orb_true_iff in H as [H|H]; apply andb_true_iff in H as [H1 H2];
    split; eapply is_prefix_trans; eauto; apply anc_self_app.
Qed.

Lemma not_anc_not_in s x b : anc s x = false -> anc (s ++ [b]) x = false.
Proof.
  intros H. destruct (anc (s ++ [b]) x) eqn:X; auto.
  rewrite (is_prefix_trans _ _ _ (anc_self_app s [b]) X) in H. discriminate.
Qed.

Lemma spe_cfg_false_l s l r : anc s l = false -> spe_cfg s l r = false.
Proof.
  intros H. unfold spe_cfg, in_left, in_right. now rewrite !(not_anc_not_in s l _ H).
Qed.
Lemma spe_cfg_false_r s l r : anc s r = false -> spe_cfg s l r = false.
Proof.
  intros H. unfold spe_cfg, in_left, in_right. rewrite !(not_anc_not_in s r _ H).
  now rewrite !andb_false_r.
Qed.

(** inside the coherent region the optimiser's minimum over its candidate families is
    exactly the evaluator's charge *)
Theorem ocost_ecost c s l r :
  0 <= c_floss c -> coherent c -> ocost c s l r = ecost c s l r.
Proof.
  intros Hf Hc. unfold ocost, ecost, event, separate.
  destruct (anc s l) eqn:Al, (anc s r) eqn:Ar; cbn [andb negb guard].
  - rewrite (sanc_false_of_anc _ _ Al), (sanc_false_of_anc _ _ Ar). cbn [orb].
    rewrite !ext_min_PInf_r.
    pose proof (spe_config s l r Al Ar) as SC.
    destruct (path_eqb s (lcp l r) && negb (comparable l r)) eqn:E1;
    destruct (spe_cfg s l r) eqn:E2;
      try (exfalso; destruct SC as [S1 S2]; (discriminate (S1 eq_refl) || discriminate (S2 eq_refl))).
    + cbn [guard]. apply ext_min_Fin. unfold coherent in Hc.
      assert (2 <= dist s l + dist s r).
      { rewrite (dist_anc _ _ Al), (dist_anc _ _ Ar). unfold spe_cfg, in_left, in_right in E2.
        apply orb_true_iff in E2 as [H|H]; apply andb_true_iff in H as [H1 H2];
          apply is_prefix_length in H1, H2; rewrite app_length in H1, H2; simpl in *; unfold len; lia. }
      nia.
    + cbn [guard]. apply ext_min_PInf_l.
  - rewrite (sanc_false_of_anc _ _ Al). rewrite (spe_cfg_false_r s l r Ar). cbn [guard orb].
    rewrite !ext_min_PInf_l. unfold sanc. destruct (anc r s) eqn:Rs; cbn [negb andb guard].
    + destruct (path_eqb_spec r s) as [->|NE]; [rewrite is_prefix_refl in Ar; discriminate|].
      cbn [negb]. rewrite ext_min_PInf_r. reflexivity.
    + cbn [andb]. apply ext_min_PInf_r.
  - rewrite (sanc_false_of_anc _ _ Ar). rewrite orb_false_r. rewrite (spe_cfg_false_l s l r Al).
    cbn [guard]. rewrite !ext_min_PInf_l. unfold sanc. destruct (anc l s) eqn:Ls; cbn [negb andb guard].
    + destruct (path_eqb_spec l s) as [->|NE]; [rewrite is_prefix_refl in Al; discriminate|]. reflexivity.
    + reflexivity.
  - rewrite (spe_cfg_false_l s l r Al). cbn [guard]. rewrite ?andb_false_r. cbn [guard].
    rewrite !ext_min_PInf_l. destruct (sanc l s || sanc r s); reflexivity.
Qed.

(** without any hypothesis on the costs: a finite optimiser charge means a valid event *)
Lemma ocost_fin_valid c s l r : ocost c s l r <> PInf -> event s l r <> Inv.
Proof.
  intros H. unfold event, ocost, separate in *.
  destruct (anc s l) eqn:Al, (anc s r) eqn:Ar.
  - rewrite (sanc_false_of_anc _ _ Al), (sanc_false_of_anc _ _ Ar). cbn [orb andb].
    destruct (path_eqb s (lcp l r) && negb (comparable l r)); discriminate.
  - rewrite (sanc_false_of_anc _ _ Al). rewrite (spe_cfg_false_r s l r Ar) in H. cbn [guard orb andb negb] in *.
    rewrite !ext_min_PInf_l in H. unfold sanc. destruct (anc r s) eqn:Rs; cbn [negb andb guard] in *.
    + destruct (path_eqb_spec r s) as [->|NE]; [rewrite is_prefix_refl in Ar; discriminate|].
      cbn [negb] in *. rewrite ext_min_PInf_r in H. contradiction.
    + discriminate.
  - rewrite (sanc_false_of_anc _ _ Ar). rewrite (spe_cfg_false_l s l r Al) in H. rewrite orb_false_r.
    cbn [guard andb negb] in *. rewrite !ext_min_PInf_l in H. unfold sanc.
    destruct (anc l s) eqn:Ls; cbn [negb andb guard] in *.
    + destruct (path_eqb_spec l s) as [->|NE]; [rewrite is_prefix_refl in Al; discriminate|]. contradiction.
    + discriminate.
  - rewrite (spe_cfg_false_l s l r Al) in H. cbn [guard] in H. rewrite ?andb_false_r in H. cbn [guard] in H.
    rewrite !ext_min_PInf_l in H. contradiction.
Qed.

(** outside the region the two views differ: F-COHERENCE at the level of one node *)
Example incoherent_step :
  let c := {| c_spe := 5; c_dup := 0; c_hgt := PInf; c_floss := 1; c_sloss := 0 |} in
  ocost c [] [false] [true] = Fin 2 /\ ecost c [] [false] [true] = Fin 5.
Proof. vm_compute. split; reflexivity. Qed.

(** * the clean table *)
Fixpoint minl {A} (f : A -> ext) (l : list A) : ext :=
  match l with [] => PInf | x :: l' => ext_min (f x) (minl f l') end.
Lemma minl_le {A} (f : A -> ext) l x : In x l -> ele (minl f l) (f x).
Proof.
  induction l as [|y l IH]; simpl; [tauto|]. intros [->|H].
  - apply ext_min_le_l.
  - eapply ele_trans; [apply ext_min_le_r|auto].
Qed.
Lemma minl_attained {A} (f : A -> ext) l : minl f l <> PInf -> exists x, In x l /\ f x = minl f l.
Proof.
  induction l as [|y l IH]; simpl; [congruence|]. intros H.
  destruct (ext_min_cases (f y) (minl f l)) as [E|E]; rewrite E in *.
  - exists y; auto.
  - destruct (IH H) as [x [I F]]. exists x; auto.
Qed.
Lemma minl_ext {A} (f g : A -> ext) l : (forall x, In x l -> f x = g x) -> minl f l = minl g l.
Proof.
  induction l as [|y l IH]; simpl; auto. intros H. rewrite (H y) by now left.
  rewrite IH; [reflexivity|]. intros x Hx. apply H. now right.
Qed.

Definition node_val (c : costs) (S : stree) (Ta Tb : path -> ext) (s : path) : ext :=
  minl (fun l => minl (fun r => ext_add (ocost c s l r) (ext_add (Ta l) (Tb r))) (snodes S)) (snodes S).

Fixpoint Tval (c : costs) (S : stree) (o : otree) (s : path) : ext :=
  match o with
  | OLeaf sp _ => if path_eqb s sp then Fin 0 else PInf
  | ONode a b => node_val c S (Tval c S a) (Tval c S b) s
  end.

Lemma valid_root_in S o r : valid_rec S o r -> In (root r) (snodes S).
Proof. intros V. apply snodes_valid. destruct V; simpl; auto. Qed.

(** lower bound for every valid reconciliation *)
Theorem Tval_lower c S o r :
  0 <= c_floss c -> coherent c -> valid_rec S o r -> ele (Tval c S o (root r)) (cost c o r).
Proof.
  intros Hf Hc. induction 1 as [sp syn H|a b s ra rb Hs He Va IHa Vb IHb].
  - simpl. rewrite path_eqb_refl. apply ele_refl.
  - cbn [Tval root cost]. unfold node_val.
    eapply ele_trans; [apply (minl_le _ (snodes S) (root ra)); eapply valid_root_in; eauto|]. cbv beta.
    eapply ele_trans; [apply (minl_le _ (snodes S) (root rb)); eapply valid_root_in; eauto|]. cbv beta.
    rewrite (ocost_ecost c s (root ra) (root rb) Hf Hc).
    destruct (event s (root ra) (root rb)) eqn:E; try congruence;
      (apply ext_add_mono; [apply ele_refl|apply ext_add_mono; auto]).
Qed.

(** every finite entry is attained by a valid reconciliation rooted there
    (validity needs no hypothesis on the costs) *)
Theorem Tval_attained_valid c S o : forall s, In s (snodes S) -> leaves_ok S o ->
  Tval c S o s <> PInf -> exists r, valid_rec S o r /\ root r = s.
Proof.
  induction o as [sp syn|a IHa b IHb]; intros s Hs HL HT; simpl in *.
  - destruct (path_eqb_spec s sp) as [->|NE]; [|congruence].
    exists (RLeaf sp). split; auto. constructor; auto.
  - destruct HL as [La Lb]. unfold node_val in HT.
    destruct (minl_attained _ _ HT) as [l [Il El]]. rewrite <- El in HT.
    destruct (minl_attained _ _ HT) as [r [Ir Er]]. rewrite <- Er in HT.
    assert (ocost c s l r <> PInf) as Ho by (intros X; rewrite X in HT; apply HT; reflexivity).
    assert (Tval c S a l <> PInf) as Ha.
    { intros X. rewrite X in HT. apply HT. destruct (ocost c s l r); reflexivity. }
    assert (Tval c S b r <> PInf) as Hb.
    { intros X. rewrite X in HT. apply HT. destruct (ocost c s l r), (Tval c S a l); reflexivity. }
    destruct (IHa l Il La Ha) as [ra [Va Ra]]. destruct (IHb r Ir Lb Hb) as [rb [Vb Rb]].
    exists (RNode s ra rb). split; auto. constructor; auto.
    + now apply snodes_valid.
    + rewrite Ra, Rb. now apply (ocost_fin_valid c).
Qed.

Theorem Tval_attained c S o :
  0 <= c_floss c -> coherent c ->
  forall s, In s (snodes S) -> leaves_ok S o -> Tval c S o s <> PInf ->
  exists r, valid_rec S o r /\ root r = s /\ cost c o r = Tval c S o s.
Proof.
  intros Hf Hc. induction o as [sp syn|a IHa b IHb]; intros s Hs HL HT; simpl in *.
  - destruct (path_eqb_spec s sp) as [->|NE]; [|congruence].
    exists (RLeaf sp). repeat split; auto; [constructor; auto|]. simpl. now rewrite path_eqb_refl.
  - destruct HL as [La Lb]. unfold node_val in *.
    destruct (minl_attained _ _ HT) as [l [Il El]]. rewrite <- El in HT.
    destruct (minl_attained _ _ HT) as [r [Ir Er]]. rewrite <- Er in HT.
    assert (ocost c s l r <> PInf) as Ho by (intros X; rewrite X in HT; apply HT; reflexivity).
    assert (Tval c S a l <> PInf) as Ha.
    { intros X. rewrite X in HT. apply HT. destruct (ocost c s l r); reflexivity. }
    assert (Tval c S b r <> PInf) as Hb.
    { intros X. rewrite X in HT. apply HT. destruct (ocost c s l r), (Tval c S a l); reflexivity. }
    destruct (IHa l Il La Ha) as [ra [Va [Ra Ca]]]. destruct (IHb r Ir Lb Hb) as [rb [Vb [Rb Cb]]].
    exists (RNode s ra rb). split; [|split; auto].
    + constructor; auto; [now apply snodes_valid|]. rewrite Ra, Rb. now apply (ocost_fin_valid c).
    + cbn [cost]. rewrite Ra, Rb, Ca, Cb, <- El, <- Er.
      pose proof (ocost_fin_valid c s l r Ho) as Ev.
      rewrite <- (ocost_ecost c s l r Hf Hc).
      destruct (event s l r); congruence.
Qed.
