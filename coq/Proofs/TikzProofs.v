(** Proofs about Model/Tikz.v and the generated template list (C15). *)
From Coq Require Import String Ascii List Bool Arith Lia.
From SR Require Import Model.Escape Model.Wrap Model.Colour Model.Tikz Gen.TikzTemplates.
From SR Require Import Proofs.EscapeProofs Proofs.WrapProofs Proofs.ColourProofs.
Import ListNotations.

(** * Brace scanning *)
Lemma scan_app : forall a b d,
  scan (a ++ b) d = match scan a d with Some d' => scan b d' | None => None end.
Proof.
  induction a as [| c a IH]; intros b d; simpl; [reflexivity |].
  destruct (Ascii.eqb c lbrace); [apply IH |].
  destruct (Ascii.eqb c rbrace); [destruct d; [reflexivity | apply IH] | apply IH].
Qed.

Lemma scan_shift : forall s d e k, scan s d = Some e -> scan s (d + k) = Some (e + k).
Proof.
  induction s as [| c s IH]; intros d e k H; simpl in *.
  - injection H as <-. reflexivity.
  - destruct (Ascii.eqb c lbrace); [apply (IH (S d)); exact H |].
    destruct (Ascii.eqb c rbrace); [| apply IH; exact H].
    destruct d as [| d]; [discriminate |]. simpl. apply IH. exact H.
Qed.

Lemma balanced_iff : forall s, balanced s = true <-> scan s 0 = Some 0.
Proof.
  intro s. unfold balanced. destruct (scan s 0) as [[| n] |]; split; intro H; try reflexivity; try discriminate.
Qed.

(** a balanced string leaves every depth unchanged *)
Lemma balanced_scan : forall s d, balanced s = true -> scan s d = Some d.
Proof. intros s d H. apply balanced_iff in H. apply (scan_shift s 0 0 d H). Qed.

(** ... and no prefix of it closes a brace that is not open *)
Theorem balanced_never_negative : forall a b, balanced (a ++ b) = true -> exists d, scan a 0 = Some d.
Proof.
  intros a b H. apply balanced_iff in H. rewrite scan_app in H.
  destruct (scan a 0) as [d |]; [exists d; reflexivity | discriminate].
Qed.

Lemma last_char_app : forall a b, b <> [] -> last_char (a ++ b) = last_char b.
Proof.
  induction a as [| c a IH]; intros b Hb; [reflexivity |].
  simpl. destruct (a ++ b) eqn:E.
  - destruct a; [simpl in E; subst; contradiction | discriminate].
  - rewrite <- E. apply IH. exact Hb.
Qed.

(** * Soundness of the template check *)
Lemma inst_scan : forall its vals s d,
  Forall (fun v => balanced v = true) vals -> inst its vals = Some s ->
  scan s d = scan_items its d.
Proof.
  induction its as [| x its IH]; intros vals s d Hv H; simpl in H.
  - destruct vals; [injection H as <-; reflexivity | discriminate].
  - destruct x as [lit | | h].
    + destruct (inst its vals) as [r |] eqn:E; [| discriminate]. injection H as <-.
      rewrite scan_app. simpl. destruct (scan (list_ascii_of_string lit) d); [eapply IH; eassumption | reflexivity].
    + destruct (inst its vals) as [r |] eqn:E; [| discriminate]. injection H as <-.
      simpl. eapply IH; eassumption.
    + destruct vals as [| v vs]; [discriminate |].
      destruct (inst its vs) as [r |] eqn:E; [| discriminate]. injection H as <-.
      inversion Hv as [| ? ? Hb Hvs]; subst.
      rewrite scan_app, (balanced_scan v d Hb). simpl. eapply IH; eassumption.
Qed.

Lemma inst_cons : forall x r vals,
  inst (x :: r) vals =
  match x with
  | Lit s => option_map (app (list_ascii_of_string s)) (inst r vals)
  | Nl => option_map (cons nl) (inst r vals)
  | Hole _ => match vals with v :: vs => option_map (app v) (inst r vs) | [] => None end
  end.
Proof. reflexivity. Qed.

Lemma inst_semi : forall its vals s,
  inst its vals = Some s -> ends_semi its = true -> ends_with_semi s = true.
Proof.
  induction its as [| x its IH]; intros vals s H Hs; [discriminate |].
  simpl in Hs. destruct its as [| y its].
  - destruct x as [lit | | h]; try discriminate. simpl in H.
    destruct vals; simpl in H; [| discriminate]. injection H as <-. rewrite app_nil_r. exact Hs.
  - assert (Hrest : forall vs r pre, inst (y :: its) vs = Some r -> ends_with_semi (pre ++ r) = true).
    { intros vs r pre Hr. pose proof (IH vs r Hr Hs) as Hl. unfold ends_with_semi in *.
      rewrite last_char_app; [exact Hl |]. intro E. subst r. simpl in Hl. discriminate Hl. }
    rewrite inst_cons in H. destruct x as [lit | | h].
    + destruct (inst (y :: its) vals) as [r |] eqn:E; [| discriminate]. injection H as <-.
      eapply Hrest. exact E.
    + destruct (inst (y :: its) vals) as [r |] eqn:E; [| discriminate]. injection H as <-.
      apply (Hrest vals r [nl] E).
    + destruct vals as [| v vs]; [discriminate |].
      destruct (inst (y :: its) vs) as [r |] eqn:E; [| discriminate]. injection H as <-.
      eapply Hrest. exact E.
Qed.

(** for every instantiation whose holes are brace-balanced strings, the text is balanced
    (so it never closes below depth 0) and a picture statement ends with a semicolon *)
Theorem template_ok_sound : forall e vals s,
  template_ok e = true ->
  Forall (fun v => balanced v = true) vals ->
  inst (e_items e) vals = Some s ->
  balanced s = true /\ (is_stmt (e_site e) = true -> ends_with_semi s = true).
Proof.
  intros e vals s Hok Hv Hi. unfold template_ok in Hok. apply andb_true_iff in Hok as [Hb Hs].
  split.
  - apply balanced_iff. rewrite (inst_scan _ _ _ 0 Hv Hi).
    destruct (scan_items (e_items e) 0) as [[| n] |]; try discriminate. reflexivity.
  - intro Hst. rewrite Hst in Hs. eapply inst_semi; eassumption.
Qed.

(** the kernel evaluates the check on the list regenerated from render/tikz.py *)
Theorem templates_checked : forallb template_ok templates = true.
Proof. vm_compute. reflexivity. Qed.

Theorem templates_balanced : forall e vals s,
  In e templates ->
  Forall (fun v => balanced v = true) vals ->
  inst (e_items e) vals = Some s ->
  balanced s = true /\ (is_stmt (e_site e) = true -> ends_with_semi s = true).
Proof.
  intros e vals s Hin. apply template_ok_sound.
  exact (proj1 (forallb_forall _ _) templates_checked e Hin).
Qed.

(** lines joined by newlines: the whole output is balanced when each line is *)
Theorem join_balanced : forall ls, Forall (fun l => balanced l = true) ls ->
  balanced (join_with [nl] ls) = true.
Proof.
  intros ls H. apply balanced_iff. induction H as [| l ls Hl Hls IH]; [reflexivity |].
  destruct ls as [| l2 ls].
  - simpl. apply balanced_iff. exact Hl.
  - rewrite join_with_cons by discriminate. rewrite scan_app, (balanced_scan l 0 Hl).
    simpl. exact IH.
Qed.

(** * Shape of the output of [render] *)
Theorem render_skeleton : skeleton = expected_skeleton.
Proof. reflexivity. Qed.

Theorem single_environment : environment_ok templates skeleton = true.
Proof. vm_compute. reflexivity. Qed.

Theorem colour_definition_names_colour : colourdef_ok templates = true.
Proof. vm_compute. reflexivity. Qed.

Lemma items_eqb_eq : forall a b, items_eqb a b = true -> a = b.
Proof.
  induction a as [| x a IH]; intros [| y b] H; simpl in H; try discriminate; [reflexivity |].
  apply andb_true_iff in H as [Hx Hr]. f_equal; [| apply IH; exact Hr].
  destruct x as [s | | h], y as [s' | | h']; simpl in Hx; try discriminate.
  - apply String.eqb_eq in Hx. subst. reflexivity.
  - reflexivity.
  - destruct h, h'; simpl in Hx; try discriminate; reflexivity.
Qed.

Lemma los_append : forall x y,
  list_ascii_of_string (String.append x y) = list_ascii_of_string x ++ list_ascii_of_string y.
Proof. induction x as [| ch x IHx]; intro y; simpl; [reflexivity | rewrite IHx; reflexivity]. Qed.

(** what [colourdef_ok] means: the definition line is [\definecolor{<name>}{HTML}{<html>}]
    where <name> is exactly what [get_color] returns for the same index *)
Lemma colourdef_sound : forall tpls, colourdef_ok tpls = true ->
  exists n d,
    filter (fun e => site_eqb (e_site e) SColourName) tpls = [n] /\
    filter (fun e => site_eqb (e_site e) SColourDef) tpls = [d] /\
    forall i h, exists name,
      inst (e_items n) [i] = Some name /\
      inst (e_items d) [i; h]
      = Some (list_ascii_of_string "\definecolor{" ++ name ++ list_ascii_of_string "}{HTML}{" ++ h ++ [rbrace]).
Proof.
  intros tpls H. unfold colourdef_ok in H.
  destruct (filter (fun e => site_eqb (e_site e) SColourName) tpls) as [| n [| ? ?]]; try discriminate H.
  destruct (filter (fun e => site_eqb (e_site e) SColourDef) tpls) as [| d [| ? ?]]; try discriminate H.
  exists n, d. split; [reflexivity |]. split; [reflexivity |].
  destruct (e_items n) as [| [p | | ?] [| [? | | hh] [| ? ?]]]; try discriminate H;
    destruct hh; try discriminate H.
  apply items_eqb_eq in H. rewrite H.
  intros i h. exists (list_ascii_of_string p ++ i). split; [simpl; rewrite app_nil_r; reflexivity |].
  simpl. rewrite <- ?app_assoc. simpl. rewrite ?app_nil_r. reflexivity.
Qed.

(** * Colour indexes handed out along the statements *)
Definition stmt_colour_ok (tbl : list string) (si : stmt * option nat) : Prop :=
  match s_colour (fst si), snd si with
  | Some c, Some i => nth_error tbl i = Some c
  | None, None => True
  | _, _ => False
  end.

Lemma nth_error_ext : forall (A : Type) (l e : list A) i c, nth_error l i = Some c -> nth_error (l ++ e) i = Some c.
Proof.
  intros A l e i c H. rewrite nth_error_app1; [exact H |]. apply nth_error_Some. rewrite H. discriminate.
Qed.

Lemma assign_spec : forall ss tbl tbl' out, assign tbl ss = (tbl', out) ->
  (exists ext, tbl' = tbl ++ ext) /\ map fst out = ss /\ Forall (stmt_colour_ok tbl') out.
Proof.
  induction ss as [| s ss IH]; intros tbl tbl' out H; simpl in H.
  - injection H as <- <-. split; [exists []; rewrite app_nil_r; reflexivity |]. split; [reflexivity | constructor].
  - destruct (s_colour s) as [c |] eqn:Ec.
    + destruct (intern1 String.eqb tbl c) as [t1 i] eqn:E1.
      destruct (assign t1 ss) as [t2 o] eqn:E2. injection H as <- <-.
      destruct (intern1_spec string String.eqb String.eqb_spec _ _ _ _ E1) as [[e1 ->] [Hi _]].
      destruct (IH _ _ _ E2) as [[e2 ->] [Hm Hf]].
      split; [exists (e1 ++ e2); rewrite app_assoc; reflexivity |]. split; [simpl; rewrite Hm; reflexivity |].
      constructor; [| exact Hf]. unfold stmt_colour_ok. simpl. rewrite Ec. apply nth_error_ext. exact Hi.
    + destruct (assign tbl ss) as [t2 o] eqn:E2. injection H as <- <-.
      destruct (IH _ _ _ E2) as [Hx [Hm Hf]].
      split; [exact Hx |]. split; [simpl; rewrite Hm; reflexivity |].
      constructor; [| exact Hf]. unfold stmt_colour_ok. simpl. rewrite Ec. exact I.
Qed.

Lemma enumerate_from_nth : forall (A : Type) (l : list A) k i c,
  nth_error l i = Some c -> In (k + i, c) (enumerate_from k l).
Proof.
  induction l as [| x l IH]; intros k i c H; [destruct i; discriminate |].
  destruct i as [| i]; simpl in *.
  - injection H as ->. left. rewrite Nat.add_0_r. reflexivity.
  - right. replace (k + S i) with (S k + i) by lia. apply IH. exact H.
Qed.

(** one definition line per interned colour, in index order *)
Lemma colour_lines : forall tpls layers vertical tbl ss t,
  site_entry tpls vertical SColourDef = Some t ->
  walk_skel tpls layers vertical tbl ss (SkEachColour [SColourDef])
  = Some (map (fun ih : nat * string => (t, Some (fst ih), Some (snd ih))) (enumerate_from 0 tbl)).
Proof.
  intros tpls layers vertical tbl ss t Ht. simpl. rewrite Ht. simpl.
  generalize 0. induction tbl as [| h tbl IH]; intro k; simpl; [reflexivity |].
  rewrite IH. reflexivity.
Qed.

(** every colour index used by a statement is defined: the colour definitions (emitted before
    [\begin{tikzpicture}], see [render_skeleton]) contain a line for that index with that colour *)
Theorem colours_defined_before_use : forall ems tbl ss,
  assign [] ems = (tbl, ss) ->
  skeleton = [SkSite SDefs; SkEachColour [SColourDef]; SkSite SBegin;
              SkEachLayer [LSite SComment; LBody]; SkSite SEnd; SkSite STrailer]
  /\ forall s i, In (s, Some i) ss ->
       i < length tbl /\
       exists c, s_colour s = Some c /\ In (i, c) (enumerate_from 0 tbl).
Proof.
  intros ems tbl ss H. split; [reflexivity |].
  destruct (assign_spec _ _ _ _ H) as [_ [_ Hf]].
  intros s i Hin. rewrite Forall_forall in Hf. specialize (Hf _ Hin).
  unfold stmt_colour_ok in Hf. simpl in Hf. destruct (s_colour s) as [c |]; [| contradiction].
  split; [apply nth_error_Some; rewrite Hf; discriminate |].
  exists c. split; [reflexivity |]. apply (enumerate_from_nth string tbl 0 i c Hf).
Qed.

(** * Braces of labels *)
Definition is_brace (c : ascii) : bool := Ascii.eqb c lbrace || Ascii.eqb c rbrace.
Definition bf (s : str) : str := filter is_brace s.
Definition brace_free (s : str) : Prop := bf s = [].

Lemma scan_bf : forall s d, scan s d = scan (bf s) d.
Proof.
  induction s as [| c s IH]; intro d; [reflexivity |].
  unfold bf. simpl. unfold is_brace.
  destruct (Ascii.eqb c lbrace) eqn:El; simpl.
  - rewrite El. apply IH.
  - destruct (Ascii.eqb c rbrace) eqn:Er; simpl.
    + rewrite El, Er. destruct d; [reflexivity | apply IH].
    + apply IH.
Qed.

Lemma brace_free_balanced : forall s, brace_free s -> balanced s = true.
Proof. intros s H. apply balanced_iff. rewrite scan_bf, H. reflexivity. Qed.

Lemma bf_app : forall a b, bf (a ++ b) = bf a ++ bf b.
Proof. intros. unfold bf. apply filter_app. Qed.

Lemma bf_concat : forall ls, bf (concat ls) = concat (map bf ls).
Proof. induction ls as [| l ls IH]; simpl; [reflexivity | rewrite bf_app, IH; reflexivity]. Qed.

Lemma bf_join : forall sep ls, bf sep = [] -> bf (join_with sep ls) = bf (concat ls).
Proof.
  intros sep ls Hs. induction ls as [| x ls IH]; [reflexivity |].
  destruct ls as [| y ls].
  - simpl. rewrite app_nil_r. reflexivity.
  - rewrite join_with_cons by discriminate. rewrite !bf_app, Hs, IH.
    change (concat (x :: y :: ls)) with (x ++ concat (y :: ls)). rewrite bf_app. reflexivity.
Qed.

Lemma bf_replace1 : forall c new s, is_brace c = false -> bf new = [] -> bf (replace1 c new s) = bf s.
Proof.
  intros c new s Hc Hn. induction s as [| x s IH]; [reflexivity |].
  simpl. rewrite bf_app, IH. destruct (Ascii.eqb_spec x c) as [-> | _].
  - rewrite Hn. unfold bf. simpl. rewrite Hc. reflexivity.
  - unfold bf. simpl. destruct (is_brace x); reflexivity.
Qed.

(** escaping adds and removes no brace *)
Theorem escape_bf : forall s, bf (escape s) = bf s.
Proof. intro s. unfold escape. rewrite !bf_replace1; reflexivity. Qed.

Theorem escape_scan : forall s d, scan (escape s) d = scan s d.
Proof. intros. rewrite scan_bf, escape_bf, <- scan_bf. reflexivity. Qed.

Lemma bf_split_sp : forall s, bf (concat (split_sp s)) = bf s.
Proof.
  induction s as [| c s IH]; [reflexivity |]. simpl.
  destruct (Ascii.eqb_spec c sp) as [-> | _].
  - simpl. rewrite IH. reflexivity.
  - destruct (split_sp s) as [| w ws]; simpl in *.
    + unfold bf in *. simpl. rewrite <- IH. reflexivity.
    + unfold bf in *. simpl. rewrite IH. reflexivity.
Qed.

Lemma concat_filter_nonempty : forall (ls : list word),
  concat (filter (fun w => negb (is_nil w)) ls) = concat ls.
Proof.
  induction ls as [| l ls IH]; [reflexivity |]. simpl.
  destruct l; simpl; [exact IH | rewrite IH; reflexivity].
Qed.

Lemma bf_words_of : forall s, bf (concat (words_of s)) = bf s.
Proof. intro s. unfold words_of. rewrite concat_filter_nonempty. apply bf_split_sp. Qed.

Lemma bf_lines : forall (ls : list line), bf (concat (map line_text ls)) = bf (concat (concat ls)).
Proof.
  induction ls as [| l ls IH]; [reflexivity |]. simpl. rewrite concat_app, !bf_app, IH.
  unfold line_text. rewrite bf_join by reflexivity. reflexivity.
Qed.

(** wrapping moves no brace *)
Theorem balanced_wrap_bf : forall text w r, balanced_wrap text w = Some r -> bf r = bf text.
Proof.
  intros text w r H. unfold balanced_wrap in H.
  destruct text as [| c text]; [injection H as <-; reflexivity |].
  destruct w as [| w]; [discriminate |].
  destruct (words_of (c :: text)) as [| x ws] eqn:E; [discriminate |]. injection H as <-.
  rewrite bf_join by reflexivity. rewrite bf_lines.
  rewrite wrap_keeps_words by lia. rewrite <- E. apply bf_words_of.
Qed.

Lemma synteny_text_bf : forall width fams r,
  synteny_text width (Some fams) = Some r -> bf r = concat (map bf fams).
Proof.
  intros width fams r H. unfold synteny_text, format_synteny in H.
  assert (Hj : bf (join_with comma_sp (map escape fams)) = concat (map bf fams)).
  { rewrite bf_join by reflexivity. rewrite bf_concat, map_map.
    f_equal. apply map_ext. intro. apply escape_bf. }
  destruct width as [w |].
  - destruct (balanced_wrap (join_with comma_sp (map escape fams)) w) as [x |] eqn:E; [| discriminate].
    injection H as <-. rewrite bf_replace1 by reflexivity.
    rewrite (balanced_wrap_bf _ _ _ E). exact Hj.
  - injection H as <-. rewrite bf_replace1 by reflexivity. exact Hj.
Qed.

Lemma rsplit_us_bf : forall s a b, rsplit_us s = Some (a, b) -> bf s = bf a ++ bf b.
Proof.
  induction s as [| c s IH]; intros a b H; [discriminate |]. simpl in H.
  destruct (rsplit_us s) as [[a' b'] |].
  - injection H as <- <-. unfold bf in *. simpl. rewrite (IH a' b' eq_refl).
    destruct (is_brace c); reflexivity.
  - destruct (Ascii.eqb_spec c us) as [-> | _]; [| discriminate]. injection H as <- <-. reflexivity.
Qed.

Lemma concat_bf_nil : forall fams, Forall brace_free fams -> concat (map bf fams) = [].
Proof. induction 1 as [| f fams Hf _ IH]; [reflexivity | simpl; rewrite Hf; exact IH]. Qed.

(** every label the layout hands to the renderer is a brace-balanced hole value, provided the
    names and families contain no brace *)
Theorem node_label_balanced : forall width is_leaf name syn psyn l,
  brace_free name ->
  match syn with Some fams => Forall brace_free fams | None => True end ->
  node_label width is_leaf name syn psyn = Some l ->
  balanced l = true.
Proof.
  intros width is_leaf name syn psyn l Hn Hs H. unfold node_label in H.
  destruct (synteny_text width syn) as [st |] eqn:Est; [| discriminate].
  assert (Hst : brace_free st).
  { destruct syn as [fams |].
    - unfold brace_free. rewrite (synteny_text_bf _ _ _ Est). apply concat_bf_nil. exact Hs.
    - simpl in Est. injection Est as <-. reflexivity. }
  destruct is_leaf.
  - destruct st as [| c st].
    + destruct name as [| n name]; [injection H as <-; reflexivity |].
      destruct (rsplit_us (n :: name)) as [[a b] |] eqn:Er; [| discriminate]. injection H as <-.
      pose proof (rsplit_us_bf _ _ _ Er) as Hab. rewrite Hn in Hab.
      symmetry in Hab. apply app_eq_nil in Hab as [Ha Hb].
      apply balanced_iff. rewrite scan_app, escape_scan, scan_bf, Ha. simpl.
      rewrite scan_app, escape_scan, scan_bf, Hb. reflexivity.
    + injection H as <-. apply brace_free_balanced. exact Hst.
  - injection H as <-. destruct (syn_eqb syn psyn); [reflexivity | apply brace_free_balanced; exact Hst].
Qed.

Theorem species_label_balanced : forall width name l,
  brace_free name -> species_label width name = Some l -> balanced l = true.
Proof.
  intros width name l Hn H. apply brace_free_balanced. unfold brace_free, species_label in *.
  destruct width as [w |].
  - destruct (balanced_wrap (escape name) w) as [x |] eqn:E; [| discriminate]. injection H as <-.
    rewrite bf_replace1 by reflexivity. rewrite (balanced_wrap_bf _ _ _ E), escape_bf. exact Hn.
  - injection H as <-. rewrite escape_bf. exact Hn.
Qed.

(** * Labels list the families *)
Definition name_ok (x : str) : Prop := x <> [] /\ ~ In sp x /\ ~ In nl x.

(** the words of [", ".join(names)] *)
Fixpoint add_commas (l : list str) : list word :=
  match l with
  | [] => []
  | x :: r => match r with [] => [x] | _ => (x ++ [","%char]) :: add_commas r end
  end.

Lemma add_commas_nonempty : forall l, l <> [] -> add_commas l <> [].
Proof. intros [| x [| y l]] H; [contradiction | discriminate | discriminate]. Qed.

Lemma join_comma_sp : forall l, join_with comma_sp l = join_with [sp] (add_commas l).
Proof.
  induction l as [| x l IH]; [reflexivity |]. destruct l as [| y l]; [reflexivity |].
  rewrite join_with_cons by discriminate.
  change (add_commas (x :: y :: l)) with ((x ++ [","%char]) :: add_commas (y :: l)).
  rewrite IH. remember (add_commas (y :: l)) as r eqn:Er.
  assert (Hr : r <> []) by (subst r; apply add_commas_nonempty; discriminate).
  rewrite (join_with_cons [sp] _ r) by exact Hr.
  unfold comma_sp. rewrite <- !app_assoc. reflexivity.
Qed.

Lemma escape_no_char : forall c s, c <> bs -> c <> us -> ~ In c s -> ~ In c (escape s).
Proof.
  intros c s Hb Hu H. rewrite escape_spec. unfold escape_map. rewrite in_flat_map.
  intros [x [Hx Hin]]. unfold esc_char in Hin.
  destruct (Ascii.eqb x bs).
  - simpl in Hin. destruct Hin as [E | [E | []]]; congruence.
  - destruct (Ascii.eqb x us).
    + simpl in Hin. destruct Hin as [E | [E | []]]; congruence.
    + simpl in Hin. destruct Hin as [E | []]. subst. contradiction.
Qed.

Lemma name_ok_escape : forall x, name_ok x -> name_ok (escape x).
Proof.
  intros x [H1 [H2 H3]]. split; [apply escape_nonempty; exact H1 |].
  split; apply escape_no_char; try assumption; discriminate.
Qed.

Lemma add_commas_ok : forall l, Forall name_ok l ->
  Forall word_ok (add_commas l) /\ Forall (fun x => ~ In nl x) (add_commas l).
Proof.
  induction 1 as [| x l [H1 [H2 H3]] Hl [IH1 IH2]]; [split; constructor |].
  destruct l as [| y l].
  - simpl. split; (constructor; [| constructor]); [split; assumption | assumption].
  - change (add_commas (x :: y :: l)) with ((x ++ [","%char]) :: add_commas (y :: l)).
    split; constructor; try assumption.
    + split; [destruct x; discriminate |]. rewrite in_app_iff. intros [H | [H | []]]; [contradiction | discriminate].
    + rewrite in_app_iff. intros [H | [H | []]]; [contradiction | discriminate].
Qed.

Lemma replace1_id : forall c new s, ~ In c s -> replace1 c new s = s.
Proof.
  induction s as [| x s IH]; intro H; [reflexivity |]. simpl.
  destruct (Ascii.eqb_spec x c) as [-> | _]; [exfalso; apply H; left; reflexivity |].
  rewrite IH by (intro; apply H; right; assumption). reflexivity.
Qed.

Lemma replace1_join_nl : forall new ls, Forall (fun l => ~ In nl l) ls ->
  replace1 nl new (join_with [nl] ls) = join_with new ls.
Proof.
  intros new ls H. induction H as [| l ls Hl Hls IH]; [reflexivity |].
  destruct ls as [| l2 ls].
  - simpl. apply replace1_id. exact Hl.
  - rewrite !join_with_cons by discriminate. rewrite !replace1_app, IH, (replace1_id nl new l Hl).
    simpl. change (Ascii.eqb nl nl) with true. rewrite app_nil_r. reflexivity.
Qed.

Lemma line_text_no_nl : forall l, Forall (fun x => ~ In nl x) l -> ~ In nl (line_text l).
Proof.
  unfold line_text. induction 1 as [| x l Hx Hl IH]; [intros [] |].
  destruct l as [| y l]; [exact Hx |].
  rewrite join_with_cons by discriminate. rewrite !in_app_iff.
  intros [H | [[H | []] | H]]; [contradiction | discriminate | contradiction].
Qed.

Lemma concat_Forall : forall (A : Type) (P : A -> Prop) (ls : list (list A)),
  Forall P (concat ls) -> Forall (Forall P) ls.
Proof.
  induction ls as [| l ls IH]; intro H; [constructor |]. simpl in H.
  apply Forall_app in H as [H1 H2]. constructor; [exact H1 | apply IH; exact H2].
Qed.

(** a displayed synteny label is the escaped families in order joined by ", ", with some of
    the spaces turned into line breaks ([\\]); it has as many lines as greedy wrapping at the
    wrap width, and no line exceeds the width unless it is a single word *)
Theorem label_lists_families : forall w fams, 1 <= w -> fams <> [] -> Forall name_ok fams ->
  exists lines,
    synteny_text (Some w) (Some fams) = Some (join_with bsbs lines)
    /\ join_with [sp] lines = join_with comma_sp (map escape fams)
    /\ length lines = length (greedy w (add_commas (map escape fams)))
    /\ Forall (fun l => length l <= w \/ ~ In sp l) lines.
Proof.
  intros w fams Hw Hne Hok.
  assert (Hok' : Forall name_ok (map escape fams)).
  { apply Forall_forall. intros x Hx. apply in_map_iff in Hx as [y [<- Hy]].
    apply name_ok_escape. rewrite Forall_forall in Hok. apply Hok. exact Hy. }
  destruct (add_commas_ok _ Hok') as [Hwords Hnl].
  set (ws := add_commas (map escape fams)) in *.
  assert (Hws : ws <> []) by (apply add_commas_nonempty; destruct fams; [contradiction | discriminate]).
  exists (map line_text (balanced_wrap_lines w ws)).
  assert (Hlines : Forall (Forall word_ok) (balanced_wrap_lines w ws) /\
                   Forall (Forall (fun x => ~ In nl x)) (balanced_wrap_lines w ws)).
  { split; apply concat_Forall; rewrite wrap_keeps_words by assumption; assumption. }
  destruct Hlines as [Hl1 Hl2].
  split; [| split; [| split]].
  - unfold synteny_text, format_synteny. rewrite join_comma_sp. fold ws.
    rewrite (balanced_wrap_text w ws Hw Hws Hwords). simpl option_map. f_equal.
    apply replace1_join_nl. apply Forall_forall. intros t Ht. apply in_map_iff in Ht as [l [<- Hl]].
    apply line_text_no_nl. rewrite Forall_forall in Hl2. apply Hl2. exact Hl.
  - rewrite join_comma_sp. apply wrap_text_keeps_words. exact Hw.
  - rewrite map_length. apply wrap_lines_eq_greedy. exact Hw.
  - apply Forall_forall. intros t Ht. apply in_map_iff in Ht as [l [<- Hl]].
    apply fits_text.
    + rewrite Forall_forall in Hl1. apply Hl1. exact Hl.
    + pose proof (wrap_width w ws Hw) as Hf. rewrite Forall_forall in Hf. apply Hf. exact Hl.
Qed.

(** without a wrap width the label is the plain list *)
Theorem label_unwrapped : forall fams, Forall name_ok fams ->
  synteny_text None (Some fams) = Some (join_with comma_sp (map escape fams)).
Proof.
  intros fams Hok. unfold synteny_text, format_synteny. simpl. f_equal.
  apply replace1_id. rewrite join_comma_sp. apply line_text_no_nl.
  apply add_commas_ok. apply Forall_forall. intros x Hx. apply in_map_iff in Hx as [y [<- Hy]].
  apply name_ok_escape. rewrite Forall_forall in Hok. apply Hok. exact Hy.
Qed.

(** an ancestral label is omitted exactly when the synteny equals the parent's *)
Theorem label_omitted_iff : forall width name syn psyn st,
  synteny_text width syn = Some st ->
  node_label width false name syn psyn = Some (if syn_eqb syn psyn then [] else st)
  /\ (syn_eqb syn psyn = true <-> syn = psyn).
Proof.
  intros width name syn psyn st H. split.
  - unfold node_label. rewrite H. reflexivity.
  - unfold syn_eqb. destruct syn as [x |], psyn as [y |]; try (split; [discriminate | congruence]).
    + destruct (list_eq_dec (list_eq_dec ascii_dec) x y); split; congruence.
    + split; reflexivity.
Qed.

(** a leaf always shows its synteny when it has one *)
Theorem leaf_label_shown : forall width name syn psyn c st,
  synteny_text width syn = Some (c :: st) ->
  node_label width true name syn psyn = Some (c :: st).
Proof. intros. unfold node_label. rewrite H. reflexivity. Qed.

Example label_example :
  option_map sol (synteny_text (Some 9) (Some (map los ["a_1"; "b\c"; "dd"; "e"]%string)))
  = Some "a\_1,\\b\\c,\\dd, e"%string.
Proof. reflexivity. Qed.
