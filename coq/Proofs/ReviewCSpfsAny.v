(** review C, item 4: the generated ordered entry points under ANY *)
From Coq Require Import List Bool Arith ZArith NArith Lia Permutation.
From SR Require Import Base.PathB Base.Ext Model.Subseq Model.Entry Model.Recon Model.LcaRec Model.Thl Model.Spfs
  Proofs.PathFacts Proofs.EntryProofs Proofs.EntryGenProofs Proofs.EvalGenProofs Proofs.TableGenProofs Proofs.ThlGenProofs
  Proofs.ReconProofs Proofs.LcaProofs Proofs.ThlProofs Proofs.SpfsProofs Proofs.SpfsGenProofs Proofs.SpfsFinal Proofs.AllAnyProofs Proofs.SubseqProofs.
Import ListNotations.
Local Open Scope Z_scope.

Module PartCspfs.

(* ------------------------------------------------------------------ *)
(** * Entries under ANY against entries under ALL
    [esub e e']: the same value, tags empty together, every tag of [e] is a tag of [e'].
    [csub cs cs']: candidate lists, all tagged, with the same values, [cs] included in [cs']. *)
Section Sub.
  Context {X : Type} (eqb : X -> X -> bool).
  Hypothesis eqb_spec : forall x y, reflect (x = y) (eqb x y).

  Definition esub (e e' : entry X) : Prop :=
    val e = val e' /\ (tags e = [] <-> tags e' = []) /\ (forall t, In t (tags e) -> In t (tags e')).
  Definition csub (cs cs' : list (ext * option X)) : Prop :=
    tagged cs /\ tagged cs' /\ vsame cs cs' /\ (forall x, In x cs -> In x cs').

  Notation upd rp cs := (update eqb MIN rp (default_entry MIN) cs).

  Lemma upd_val_any_all cs cs' : vsame cs cs' -> val (upd RANY cs) = val (upd RALL cs').
  Proof.
    intros V. rewrite (upd_val_vsame eqb RANY cs cs' V).
    apply (upd_val_set eqb cs' cs' (fun x => iff_refl _) RANY RALL).
  Qed.

  Lemma upd_sub cs cs' : csub cs cs' -> esub (upd RANY cs) (upd RALL cs').
  Proof.
    intros [Tg [Tg' [V I]]]. pose proof (upd_val_any_all cs cs' V) as Ev. split; [exact Ev|]. split.
    - rewrite (upd_tags_empty eqb eqb_spec RANY cs ltac:(discriminate) Tg),
        (upd_tags_empty eqb eqb_spec RALL cs' ltac:(discriminate) Tg'), <- Ev.
      now rewrite (V (val (upd RANY cs))).
    - intros t Ht. destruct (entry_tags_any eqb MIN cs) as [[E _]|[u [E Hu]]]; cbv zeta in *.
      + rewrite E in Ht. destruct Ht.
      + rewrite E in Ht. destruct Ht as [<-|[]].
        apply (entry_tags_all eqb eqb_spec MIN cs' u). cbv zeta. rewrite <- Ev. now apply I.
  Qed.

  Lemma csub_app a a' b b' : csub a a' -> csub b b' -> csub (a ++ b) (a' ++ b').
  Proof.
    intros [T1 [T1' [V1 S1]]] [T2 [T2' [V2 S2]]]. repeat split.
    - intros v o I. apply in_app_or in I as [I|I]; eauto.
    - intros v o I. apply in_app_or in I as [I|I]; eauto.
    - intros [o I]. apply in_app_or in I as [I|I].
      + destruct (proj1 (V1 v) (ex_intro _ o I)) as [o' I']. exists o'. apply in_or_app. now left.
      + destruct (proj1 (V2 v) (ex_intro _ o I)) as [o' I']. exists o'. apply in_or_app. now right.
    - intros [o I]. apply in_app_or in I as [I|I].
      + destruct (proj2 (V1 v) (ex_intro _ o I)) as [o' I']. exists o'. apply in_or_app. now left.
      + destruct (proj2 (V2 v) (ex_intro _ o I)) as [o' I']. exists o'. apply in_or_app. now right.
    - intros x I. apply in_app_or in I as [I|I]; apply in_or_app; [left; now apply S1|right; now apply S2].
  Qed.

  Lemma csub_nil : csub [] [].
  Proof. split; [intros ? ? []|]. split; [intros ? ? []|]. split; [intros v; split; intros [? []]|intros ? []]. Qed.

  Lemma csub_refl cs : tagged cs -> csub cs cs.
  Proof. intros T. split; [exact T|]. split; [exact T|]. split; [intros v; apply iff_refl|auto]. Qed.

  Lemma cands_sub (e e' : entry X) : esub e e' -> csub (cands e) (cands e').
  Proof.
    intros [Ev [Ee Es]]. unfold cands. repeat split.
    - intros v o I. apply in_map_iff in I as [t [E _]]. inversion E. eauto.
    - intros v o I. apply in_map_iff in I as [t [E _]]. inversion E. eauto.
    - intros [o I]. apply in_map_iff in I as [t [E I]]. inversion E; subst.
      destruct (tags e') as [|t' l'] eqn:E'; [rewrite (proj2 Ee eq_refl) in I; destruct I|].
      exists (Some t'). apply in_map_iff. exists t'. split; [now rewrite Ev|now left].
    - intros [o I]. apply in_map_iff in I as [t [E I]]. inversion E; subst.
      destruct (tags e) as [|t' l'] eqn:E'; [rewrite (proj1 Ee eq_refl) in I; destruct I|].
      exists (Some t'). apply in_map_iff. exists t'. split; [now rewrite Ev|now left].
    - intros x I. apply in_map_iff in I as [t [<- I]]. apply in_map_iff. exists t. split; [now rewrite Ev|now apply Es].
  Qed.
End Sub.

Lemma esub_refl_notags {X} (e : entry X) : tags e = [] -> esub e e.
Proof. intros E. repeat split; auto. Qed.

(* ------------------------------------------------------------------ *)
(** * One cell of the SPFS table: the policy only matters through the aggregators *)
Lemma pick_tagged S c (f : sassign -> ext) s m ks i : tagged (pick_o i (flat_map (one_cands S c f s m) ks)).
Proof. intros v o I. apply In_pick in I as [k [_ I]]. apply one_tagged in I. eauto. Qed.

Lemma aggp_sub l : tagged l -> esub (aggp RANY l) (aggp RALL l).
Proof. intros T. unfold aggp. apply (upd_sub sassign_eqb sassign_eqb_spec). now apply csub_refl. Qed.

Lemma choices_o_sub S c (f g : sassign -> ext) s m ks : (forall k, f k = g k) ->
  esub (ch_left (choices_o S c RANY f s m ks)) (ch_left (choices_o S c RALL g s m ks)) /\
  esub (ch_right (choices_o S c RANY f s m ks)) (ch_right (choices_o S c RALL g s m ks)) /\
  esub (ch_conserved (choices_o S c RANY f s m ks)) (ch_conserved (choices_o S c RALL g s m ks)) /\
  esub (ch_segment (choices_o S c RANY f s m ks)) (ch_segment (choices_o S c RALL g s m ks)) /\
  esub (ch_separate (choices_o S c RANY f s m ks)) (ch_separate (choices_o S c RALL g s m ks)).
Proof.
  intros E. rewrite (choices_o_ext S c RANY f g s m ks (fun k _ => E k)).
  unfold choices_o. cbn [ch_left ch_right ch_conserved ch_segment ch_separate].
  split; [|split; [|split; [|split]]]; apply aggp_sub; apply pick_tagged.
Qed.

Lemma comb2_sub k (a b a' b' : entry sassign) : esub a a' -> esub b b' -> csub (comb2 RANY k a b) (comb2 RALL k a' b').
Proof.
  intros [V1 [N1 S1]] [V2 [N2 S2]]. unfold comb2. apply cands_sub. unfold combine.
  apply (upd_sub stag_eqb stag_eqb_spec). rewrite <- V1, <- V2.
  change (csub (pairs a b (scomb k (val a) (val b))) (pairs a' b' (scomb k (val a) (val b)))).
  split; [|split; [|split; [intros v; split|]]].
  - intros v o I. apply In_pairs in I as [x [y [_ [_ E]]]]. inversion E. eauto.
  - intros v o I. apply In_pairs in I as [x [y [_ [_ E]]]]. inversion E. eauto.
  - intros [o I]. apply In_pairs in I as [x [y [Ia [Ib E]]]]. inversion E; subst.
    destruct (tags a') as [|x' l1] eqn:T1; [rewrite (proj2 N1 eq_refl) in Ia; destruct Ia|].
    destruct (tags b') as [|y' l2] eqn:T2; [rewrite (proj2 N2 eq_refl) in Ib; destruct Ib|].
    exists (Some (x', y')). apply In_pairs. exists x', y'. rewrite T1, T2. repeat split; now left.
  - intros [o I]. apply In_pairs in I as [x [y [Ia [Ib E]]]]. inversion E; subst.
    destruct (tags a) as [|x' l1] eqn:T1; [rewrite (proj1 N1 eq_refl) in Ia; destruct Ia|].
    destruct (tags b) as [|y' l2] eqn:T2; [rewrite (proj1 N2 eq_refl) in Ib; destruct Ib|].
    exists (Some (x', y')). apply In_pairs. exists x', y'. rewrite T1, T2. repeat split; now left.
  - intros x I. apply In_pairs in I as [u [w [Ia [Ib ->]]]]. apply In_pairs. exists u, w.
    repeat split; [now apply S1|now apply S2].
Qed.

Lemma sbatch_o_sub S c (f f' g g' : sassign -> ext) ksA ksB s m : (forall k, f k = f' k) -> (forall k, g k = g' k) ->
  csub (sbatch_o S c RANY f g ksA ksB s m) (sbatch_o S c RALL f' g' ksA ksB s m).
Proof.
  intros EA EB. unfold sbatch_o. cbv zeta.
  destruct (choices_o_sub S c f f' s m ksA EA) as [A0 [A1 [A2 [A3 A4]]]].
  destruct (choices_o_sub S c g g' s m ksB EB) as [B0 [B1 [B2 [B3 B4]]]].
  repeat apply csub_app; apply comb2_sub; assumption.
Qed.

Lemma first_write_sub b b' : csub b b' -> esub (first_write RANY b) (first_write RALL b').
Proof.
  intros C. rewrite !first_write_upd. apply (upd_sub stag_eqb stag_eqb_spec).
  pose proof C as [_ [_ [V _]]]. rewrite (has_finite_vsame b b' V). destruct (Thl.has_finite b'); [exact C|apply csub_nil].
Qed.

(** the cell of [ModelO.scell_o] under ANY against the same cell under ALL *)
Theorem scell_o_any_all S c (f f' g g' : sassign -> ext) ksA ksB s m : (forall k, f k = f' k) -> (forall k, g k = g' k) ->
  esub (scell_o S c RANY f g ksA ksB s m) (scell_o S c RALL f' g' ksA ksB s m).
Proof. intros EA EB. unfold scell_o. apply first_write_sub. now apply sbatch_o_sub. Qed.
Print Assumptions scell_o_any_all.

Lemma kl_ext (K K' : path -> list N) xs : (forall s, K s = K' s) -> kl K xs = kl K' xs.
Proof. intros E. unfold kl. apply flat_map_ext. intros x. now rewrite E. Qed.

(** (a) every cell of the table of the code (for the enumeration orders of the code) under ANY against the cell under ALL;
    the key lists (the masks of the finite cells) do not depend on the policy *)
Section TAny.
  Context {node_id : Type}.
  Variables (S : stree) (c : costs) (ord : list fam) (leafsp : node_id -> path) (syn : node_id -> list fam)
            (lev : list path) (AS : EVo.TreeNode node_id -> list path) (AM : EVo.TreeNode node_id -> list N).
  Notation TC rp := (tcell3 S c rp ord leafsp syn lev AS AM).
  Notation TK rp := (tkeys3 S c rp ord leafsp syn lev AS AM).

  Theorem trow3_any_all t : (forall k, esub (TC RANY t k) (TC RALL t k)) /\ (forall s, TK RANY t s = TK RALL t s).
  Proof.
    induction t as [i|i a [IHa Ka] b [IHb Kb]].
    - split.
      + intros k. rewrite !tcell3_leaf. destruct (sassign_eqb _ _); apply esub_refl_notags; reflexivity.
      + intros s. now rewrite !tkeys3_leaf.
    - assert (Bsub : forall s m, csub (batchC S c RANY ord leafsp syn lev AS AM a b s m) (batchC S c RALL ord leafsp syn lev AS AM a b s m)).
      { intros s m. unfold batchC. rewrite (kl_ext (TK RANY a) (TK RALL a) lev Ka), (kl_ext (TK RANY b) (TK RALL b) lev Kb).
        apply sbatch_o_sub; intros k; [apply (IHa k)|apply (IHb k)]. }
      split.
      + intros k. rewrite !tcell3_node. destruct (_ && _); [apply first_write_sub, Bsub|apply esub_refl_notags; reflexivity].
      + intros s. rewrite !tkeys3_node. destruct (existsb _ _); [|reflexivity]. apply filter_ext. intros m.
        apply has_finite_vsame. apply (Bsub s m).
  Qed.

  Corollary tcell3_any_all t k : esub (TC RANY t k) (TC RALL t k).
  Proof. apply trow3_any_all. Qed.
  Corollary tkeys3_any_all t s : TK RANY t s = TK RALL t s.
  Proof. apply trow3_any_all. Qed.
End TAny.
Print Assumptions trow3_any_all.

(* ------------------------------------------------------------------ *)
(** * Decoding: what a tag of a finite cell points at, and the decoder on the ANY table against the ALL table *)
Lemma one_cands_finite S c (f : sassign -> ext) s m k i v o : In (i, (v, o)) (one_cands S c f s m k) -> v <> PInf -> f k <> PInf.
Proof.
  unfold one_cands. destruct k as [d cm]. cbv zeta. intros I NV E. rewrite E in I.
  repeat match type of I with context [if ?b then _ else _] => destruct b end; cbn [app In ext_add] in I;
    repeat match type of I with _ \/ _ => destruct I as [I|I] end; try contradiction; inversion I; subst; now apply NV.
Qed.

Lemma agg_tag_finite S c rp (f : sassign -> ext) s m ks i l :
  In l (tags (aggp rp (pick_o i (flat_map (one_cands S c f s m) ks)))) ->
  val (aggp rp (pick_o i (flat_map (one_cands S c f s m) ks))) <> PInf -> f l <> PInf.
Proof.
  unfold aggp. intros H NV. apply (upd_tags_sound sassign_eqb sassign_eqb_spec) in H.
  apply In_pick in H as [k [_ H]]. pose proof (one_tagged _ _ _ _ _ _ _ _ _ H) as Ek. inversion Ek; subst k.
  exact (one_cands_finite _ _ _ _ _ _ _ _ _ H NV).
Qed.

Lemma fw_tags_notPInf rp cs t : In t (tags (first_write rp cs)) -> val (first_write rp cs) <> PInf.
Proof.
  unfold first_write. destruct (Thl.has_finite cs) eqn:F; [|intros []]. intros _.
  destruct (has_finite_true_ex _ F) as [w [ot [Iw Ew]]]. pose proof (upd_le stag_eqb rp cs w ot Iw) as L.
  destruct w as [|z|]; try discriminate. exact (ele_fin_not_PInf _ _ L).
Qed.

Lemma tag_children_finite S c rp (f g : sassign -> ext) ksA ksB s m l r :
  In (l, r) (tags (first_write rp (sbatch_o S c rp f g ksA ksB s m))) -> f l <> PInf /\ g r <> PInf.
Proof.
  intros H. pose proof (fw_tags_notPInf _ _ _ H) as NV. apply fw_tags_sound in H.
  remember (val (first_write rp (sbatch_o S c rp f g ksA ksB s m))) as w eqn:Ew. clear Ew.
  assert (K : forall k A B, In (w, Some (l, r)) (comb2 rp k A B) -> (val A <> PInf /\ In l (tags A)) /\ (val B <> PInf /\ In r (tags B))).
  { intros k A B I. apply scomb_sound in I as [Hl [Hr E]]. split; (split; [|assumption]); intros X; rewrite X in E; apply NV; rewrite E.
    - destruct k; reflexivity.
    - destruct (ext_add k (val A)); reflexivity. }
  unfold sbatch_o, choices_o in H. cbv zeta in H. cbn [ch_left ch_right ch_conserved ch_segment ch_separate] in H.
  repeat (apply in_app_or in H as [H|H]; [apply K in H as [[VA HA] [VB HB]]; split; eapply agg_tag_finite; eassumption|]).
  apply K in H as [[VA HA] [VB HB]]; split; eapply agg_tag_finite; eassumption.
Qed.

Lemma sbatch_o_tagged S c rp (f g : sassign -> ext) ksA ksB s m : tagged (sbatch_o S c rp f g ksA ksB s m).
Proof.
  exact (proj1 (sbatch_o_sim S c rp f f g g ksA ksA ksB ksB s m (fun x => iff_refl _) (fun x => iff_refl _)
                  (fun k _ => eq_refl) (fun k _ => eq_refl))).
Qed.

Lemma ocat_some_inv {X Y} (f : X -> option (list Y)) l r : ocat f l = Some r -> forall x, In x l -> exists a, f x = Some a.
Proof.
  revert r. induction l as [|x l IH]; intros r E y Hy; [destruct Hy|]. cbn [ocat] in E.
  destruct (f x) as [a|] eqn:Ex; [|discriminate]. destruct (ocat f l) as [r'|]; [|discriminate].
  destruct Hy as [<-|Hy]; [eauto|]. eapply IH; eauto.
Qed.

Section DecAny.
  Context {node_id : Type}.
  Variables (S : stree) (c : costs) (ro : list fam) (leafsp : node_id -> path) (syn : node_id -> list fam)
            (lev : list path) (AS : EVo.TreeNode node_id -> list path) (AM : EVo.TreeNode node_id -> list N).
  Variable ord_infos : list ca -> list ca.
  Hypothesis ord_same : forall l, sameset (ord_infos l) l.
  Hypothesis AM_lt : forall u m, In m (AM u) -> (m < 2 ^ N.of_nat (length ro))%N.
  Notation tree := (EV.TreeNode node_id).
  Notation post := (@SG.TreeNode_postorder node_id).
  Notation tid := (@EV.TreeNode_id node_id).
  Notation TC rp := (tcell3 S c rp ro leafsp syn lev AS AM).
  Notation B := (2 ^ N.of_nat (length ro))%N.
  Notation DEC G := (decode3_g ord_infos ro G).

  Lemma ord_incl' : forall l m, In m (ord_infos l) -> In m l.
  Proof. intros l m. apply ord_same. Qed.

  Lemma post_l i (a b : tree) u : In u (post a) -> In u (post (EV.TreeNode_node i a b)).
  Proof. intros H. cbn [SG.TreeNode_postorder]. rewrite !in_app_iff. now left. Qed.
  Lemma post_r i (a b : tree) u : In u (post b) -> In u (post (EV.TreeNode_node i a b)).
  Proof. intros H. cbn [SG.TreeNode_postorder]. rewrite !in_app_iff. right. now left. Qed.
  Lemma post_root (t : tree) : In t (post t).
  Proof. destruct t; cbn; [now left|]. rewrite !in_app_iff. right; right. now left. Qed.

  (** the masks the tags hold are masks of subsequences of the root ordering *)
  Lemma masks_ok_of rp G (t : tree) :
    (forall u, In u (post t) -> forall x k, G (tid u) x k = emap tag_ca (TC rp u (x, k))) -> masks_ok ro G t.
  Proof.
    intros HG u Hu x k tg Htg o Ho. rewrite (HG u Hu) in Htg. cbn [emap tags] in Htg. apply in_map_iff in Htg as [[l r] [<- Hlr]].
    destruct u as [i|i a b]; [rewrite tcell3_leaf_tags in Hlr; destruct Hlr|].
    apply (tcell3_tag_lt S c rp ro leafsp syn lev AS AM AM_lt) in Hlr as [Hl Hr].
    cbn [tag_ca SG.ChildrenAssignment_left SG.ChildrenAssignment_right fst snd] in Ho.
    destruct Ho as [Ho|Ho]; inversion Ho; subst; cbn [oa_of SG.ObjectAssignment_synteny]; assumption.
  Qed.

  (** (b1) a finite cell decodes to something, whatever the policy *)
  Lemma decode_nonempty rp G (t : tree) : rp <> RNONE ->
    (forall u, In u (post t) -> forall x k, G (tid u) x k = emap tag_ca (TC rp u (x, k))) ->
    forall s m, (m < B)%N -> val (TC rp t (s, m)) <> PInf ->
    exists outs d, DEC G t s m = Some outs /\ In d outs.
  Proof.
    intros Hrp. induction t as [i|i a IHa b IHb]; intros HG s m Lm NV.
    - destruct (from_mask_lt ro m Lm) as [y Ey]. cbn [decode3_g]. rewrite Ey.
      pose proof (HG _ (or_introl eq_refl) s m) as HGi. cbn [EV.TreeNode_id] in HGi. rewrite HGi. cbn [emap val].
      rewrite tcell3_leaf in *. destruct (sassign_eqb _ _); cbn [val ext_is_inf] in *.
      + eexists. eexists. split; [reflexivity|now left].
      + exfalso. now apply NV.
    - remember (EV.TreeNode_node i a b) as t eqn:Et.
      assert (HGa : forall u, In u (post a) -> forall x k, G (tid u) x k = emap tag_ca (TC rp u (x, k))).
      { intros u Hu. apply HG. subst t. now apply post_l. }
      assert (HGb : forall u, In u (post b) -> forall x k, G (tid u) x k = emap tag_ca (TC rp u (x, k))).
      { intros u Hu. apply HG. subst t. now apply post_r. }
      assert (HGt : G i s m = emap tag_ca (TC rp t (s, m))).
      { replace i with (tid t) by (subst t; reflexivity). apply HG. apply post_root. }
      destruct (from_mask_lt ro m Lm) as [y Ey].
      (* a tag of the cell *)
      assert (NT : tags (TC rp t (s, m)) <> []).
      { subst t. rewrite tcell3_node in *. destruct (_ && _); [|exfalso; now apply NV].
        apply (fw_tags_nonempty rp _ Hrp); [|exact NV]. unfold batchC.
        apply sbatch_o_tagged. }
      destruct (tags (TC rp t (s, m))) as [|[[ls lm] [rs rm]] tl] eqn:Etags; [congruence|]. clear NT.
      assert (Hlr : In ((ls, lm), (rs, rm)) (tags (TC rp t (s, m)))) by (rewrite Etags; now left).
      assert (Llr : (lm < B)%N /\ (rm < B)%N).
      { subst t. exact (tcell3_tag_lt S c rp ro leafsp syn lev AS AM AM_lt i a b (s, m) _ _ Hlr). }
      assert (Flr : val (TC rp a (ls, lm)) <> PInf /\ val (TC rp b (rs, rm)) <> PInf).
      { subst t. rewrite tcell3_node in Hlr. destruct (_ && _); [|destruct Hlr]. unfold batchC in Hlr.
        exact (tag_children_finite _ _ _ _ _ _ _ _ _ _ _ Hlr). }
      destruct (IHa HGa ls lm (proj1 Llr) (proj1 Flr)) as [dl [d1 [E1 H1]]].
      destruct (IHb HGb rs rm (proj2 Llr) (proj2 Flr)) as [dr [d2 [E2 H2]]].
      destruct (decode3_g_some ord_infos ord_incl' ro G t (masks_ok_of rp G t HG) s m Lm) as [outs Eo].
      exists outs. pose proof Eo as Eo'. subst t. cbn [decode3_g] in Eo'. rewrite Ey in Eo'.
      pose proof (ocat_in _ _ outs Eo') as Io. eexists. split; [exact Eo|]. apply Io.
      exists (tag_ca ((ls, lm), (rs, rm))), (prod3 i s y dl dr). split; [|split].
      + apply (proj2 (ord_same _ _)). rewrite HGt. cbn [emap tags]. apply in_map. exact Hlr.
      + cbn [tag_ca oa_of SG.ChildrenAssignment_left SG.ChildrenAssignment_right SG.ObjectAssignment_species
             SG.ObjectAssignment_synteny fst snd]. now rewrite E1, E2.
      + unfold prod3. apply in_flat_map. exists d1. split; [exact H1|]. apply in_map_iff. exists d2. split; [reflexivity|exact H2].
  Qed.

  (** (b2) a cell that decodes to something is not infinite *)
  Lemma decoded_finite rp G (t : tree) s m outs d :
    G (tid t) s m = emap tag_ca (TC rp t (s, m)) -> DEC G t s m = Some outs -> In d outs -> val (TC rp t (s, m)) <> PInf.
  Proof.
    destruct t as [i|i a b]; intros HG E Hd; cbn [decode3_g] in E; destruct (subseq_from_mask m ro) as [y|]; try discriminate;
      cbn [EV.TreeNode_id] in HG.
    - rewrite HG in E. cbn [emap val] in E. destruct (ext_is_inf _) eqn:F; [inversion E; subst; destruct Hd|].
      intros X. rewrite X in F. discriminate.
    - pose proof (ocat_in _ _ outs E) as Io. apply Io in Hd as [info [a' [Hi _]]]. apply ord_incl' in Hi.
      rewrite HG in Hi. cbn [emap tags] in Hi. apply in_map_iff in Hi as [lr [_ Hlr]].
      rewrite tcell3_node in *. destruct (_ && _); [|destruct Hlr]. eapply fw_tags_notPInf; eauto.
  Qed.

  (** (b3) everything decoded from the ANY table is decoded from the ALL table *)
  Variables GA GL : node_id -> path -> N -> entry ca.
  Lemma decode_any_all (t : tree) :
    (forall u, In u (post t) -> forall x k, GA (tid u) x k = emap tag_ca (TC RANY u (x, k))) ->
    (forall u, In u (post t) -> forall x k, GL (tid u) x k = emap tag_ca (TC RALL u (x, k))) ->
    forall s m oa ol, DEC GA t s m = Some oa -> DEC GL t s m = Some ol -> forall d, In d oa -> In d ol.
  Proof.
    induction t as [i|i a IHa b IHb]; intros HA HL s m oa ol Ea El d Hd.
    - cbn [decode3_g] in Ea, El. destruct (subseq_from_mask m ro) as [y|]; [|discriminate].
      pose proof (HA _ (or_introl eq_refl) s m) as Ga. pose proof (HL _ (or_introl eq_refl) s m) as Gl. cbn [EV.TreeNode_id] in Ga, Gl.
      rewrite Ga in Ea. rewrite Gl in El. cbn [emap val] in Ea, El.
      rewrite <- (proj1 (tcell3_any_all S c ro leafsp syn lev AS AM (EV.TreeNode_leaf i) (s, m))) in El.
      rewrite Ea in El. inversion El; subst. exact Hd.
    - remember (EV.TreeNode_node i a b) as t eqn:Et.
      assert (HAa : forall u, In u (post a) -> forall x k, GA (tid u) x k = emap tag_ca (TC RANY u (x, k))).
      { intros u Hu. apply HA. subst t. now apply post_l. }
      assert (HAb : forall u, In u (post b) -> forall x k, GA (tid u) x k = emap tag_ca (TC RANY u (x, k))).
      { intros u Hu. apply HA. subst t. now apply post_r. }
      assert (HLa : forall u, In u (post a) -> forall x k, GL (tid u) x k = emap tag_ca (TC RALL u (x, k))).
      { intros u Hu. apply HL. subst t. now apply post_l. }
      assert (HLb : forall u, In u (post b) -> forall x k, GL (tid u) x k = emap tag_ca (TC RALL u (x, k))).
      { intros u Hu. apply HL. subst t. now apply post_r. }
      assert (Ga : GA i s m = emap tag_ca (TC RANY t (s, m))).
      { replace i with (tid t) by (subst t; reflexivity). apply HA. apply post_root. }
      assert (Gl : GL i s m = emap tag_ca (TC RALL t (s, m))).
      { replace i with (tid t) by (subst t; reflexivity). apply HL. apply post_root. }
      pose proof (tcell3_any_all S c ro leafsp syn lev AS AM t (s, m)) as [_ [_ Hsub]].
      specialize (IHa HAa HLa). specialize (IHb HAb HLb).
      clear HA HL HAa HAb HLa HLb. subst t.
      cbn [decode3_g] in Ea, El. destruct (subseq_from_mask m ro) as [y|]; [|discriminate].
      pose proof (ocat_in _ _ oa Ea) as IA. pose proof (ocat_in _ _ ol El) as IL.
      apply IA in Hd as [info [a' [Hi [Ea' Hd]]]]. apply IL.
      apply ord_incl' in Hi. rewrite Ga in Hi. cbn [emap tags] in Hi. apply in_map_iff in Hi as [[[ls lm] [rs rm]] [<- Hlr]].
      apply Hsub in Hlr.
      assert (HiL : In (tag_ca ((ls, lm), (rs, rm))) (ord_infos (tags (GL i s m)))).
      { apply (proj2 (ord_same _ _)). rewrite Gl. cbn [emap tags]. now apply in_map. }
      destruct (ocat_some_inv _ _ ol El _ HiL) as [a'' Ea''].
      exists (tag_ca ((ls, lm), (rs, rm))), a''. split; [exact HiL|]. split; [exact Ea''|].
      cbn [tag_ca oa_of SG.ChildrenAssignment_left SG.ChildrenAssignment_right SG.ObjectAssignment_species
           SG.ObjectAssignment_synteny fst snd] in Ea', Ea''.
      destruct (DEC GA a ls lm) as [dlA|] eqn:E1; [|discriminate].
      destruct (DEC GA b rs rm) as [drA|] eqn:E2; [|discriminate].
      destruct (DEC GL a ls lm) as [dlL|] eqn:E3; [|discriminate].
      destruct (DEC GL b rs rm) as [drL|] eqn:E4; [|discriminate].
      inversion Ea'; subst a'. inversion Ea''; subst a''. unfold prod3 in *.
      apply in_flat_map in Hd as [d1 [H1 Hd]]. apply in_map_iff in Hd as [d2 [<- H2]].
      apply in_flat_map. exists d1. split; [exact (IHa ls lm dlA dlL E1 E3 d1 H1)|].
      apply in_map_iff. exists d2. split; [reflexivity|exact (IHb rs rm drA drL E2 E4 d2 H2)].
  Qed.
End DecAny.
Print Assumptions decode_nonempty.
Print Assumptions decoded_finite.
Print Assumptions decode_any_all.

(* ------------------------------------------------------------------ *)
(** * The candidates of the ANY run against the candidates of the ALL run *)
Lemma rall_nn : RALL <> RNONE. Proof. discriminate. Qed.
Lemma rany_nn : RANY <> RNONE. Proof. discriminate. Qed.

(** [csubb a' a]: [a'] is included in [a] and every value of [a] is the value of a tagged member of [a'] *)
Definition csubb {Z} (a' a : list (ext * option Z)) : Prop :=
  (forall y, In y a' -> In y a) /\ (forall v o, In (v, o) a -> exists o', In (v, Some o') a').

Lemma rcat_subb {X Z} (fL fA : X -> SG.res (list (ext * option Z))) l :
  (forall x, In x l -> forall a, fL x = SG.Ok a -> exists a', fA x = SG.Ok a' /\ csubb a' a) ->
  forall r, rcat fL l = SG.Ok r -> exists r', rcat fA l = SG.Ok r' /\ csubb r' r.
Proof.
  induction l as [|x l IH]; intros H r E; cbn [rcat] in *.
  - inversion E; subst. exists []. split; [reflexivity|]. split; [auto|intros v o []].
  - destruct (fL x) as [a|] eqn:Ex; [|discriminate]. destruct (rcat fL l) as [r0|] eqn:Er; [|discriminate]. inversion E; subst. clear E.
    destruct (H x (or_introl eq_refl) a Ex) as [a' [Ea' [I1 B1]]].
    destruct (IH (fun y Hy => H y (or_intror Hy)) r0 eq_refl) as [r' [Er' [I2 B2]]].
    rewrite Ea', Er'. exists (a' ++ r'). split; [reflexivity|]. split.
    + intros y Hy. apply in_app_or in Hy as [Hy|Hy]; apply in_or_app; [left; auto|right; auto].
    + intros v o Hy. apply in_app_or in Hy as [Hy|Hy].
      * destruct (B1 v o Hy) as [o' Ho']. exists o'. apply in_or_app. now left.
      * destruct (B2 v o Hy) as [o' Ho']. exists o'. apply in_or_app. now right.
Qed.

Section AnyLink.
  Context {lca node_id : Type} (nid_eqb : node_id -> node_id -> bool).
  Hypothesis nid_eqb_spec : forall a b, reflect (a = b) (nid_eqb a b).
  Notation tree := (EV.TreeNode node_id).
  Notation gsem3 := (gsem3 nid_eqb).
  Notation oids l := (map (@EV.TreeNode_id node_id) l).
  Notation post := (@SG.TreeNode_postorder node_id).
  Notation tid := (@EV.TreeNode_id node_id).
  Variables (lcaobj : lca) (S : stree) (c : costs) (leafsp : node_id -> path) (syn : node_id -> list fam) (O : tree).
  Variables (missing : node_id -> path) (missing_syn : node_id -> list fam) (ord_infos : list ca -> list ca).
  Notation ST := (sembed3 S []).
  Notation OT := (otree_of leafsp syn).
  Notation lev := (sids3 (SG.STree_levelorder ST)).
  Notation sin := (EV.mk_sin O lcaobj leafsp (stsocc c) syn).
  Notation DIST := (fun (_ : lca) => dist).
  Notation ANC := (fun (_ : lca) => anc).
  Notation SANC := (fun (_ : lca) => sanc).
  Notation COMP := (fun (_ : lca) => comparable).
  Notation LCP := (fun (_ : lca) => lcp).
  Variables (extended : bool) (AS : @SG.STree path -> tree -> list (@SG.STree path)).
  Notation AM := (std_syntenies nid_eqb O).
  Notation AS' := (fun u : tree => sids3 (AS ST u)).
  Notation TC rp ro := (tcell3 S c rp ro leafsp syn lev AS' (AM ro)).
  Notation COMPUTE rp ro := (SG.gen_compute_spfs_table fam_eqb path_eqb nid_eqb ANC DIST (fun _ => ST) sin ro AS AM (prc rp)).

  Hypothesis Hh : nn (c_hgt c).
  Hypothesis ND : NoDup (oids (post O)).
  Hypothesis Lv : leaves_ok S (OT O).
  Hypothesis ord_same : forall l, sameset (ord_infos l) l.
  Hypothesis HAS : forall u, In u (post O) -> EV.TreeNode_is_leaf u = false ->
    (forall rs, In rs (AS ST u) -> rs_ok S rs) /\ NoDup (sids3 (AS ST u)) /\
    sameset (sids3 (AS ST u)) (allowed_species S extended (OT u)).
  Hypothesis Hc : coherent_ord c.
  Variable orders : list (list fam).
  Hypothesis HO : orders_ok S (OT O) orders.

  (** the facts about the table of the code the exact layer needs, for every policy *)
  Lemma table_facts_rp rp ro : exists tb,
    COMPUTE rp ro = SG.Ok tb /\ inv3 rp tb /\ tags_ok3 nid_eqb tb O /\ leaf_tags_ok nid_eqb tb O /\
    (forall u, In u (post O) -> forall s m, gsem3 tb (tid u) s m = emap tag_ca (TC rp ro u (s, m))).
  Proof.
    destruct (gen_compute_spfs_table_eq nid_eqb nid_eqb_spec lcaobj rp S c ST leafsp syn O ro AS AM ND) as [tb [E [I [Sc _]]]].
    { intros u Hu Hl. destruct (HAS u Hu Hl) as [H1 [H2 _]]. split; [exact H1|]. split; [exact H2|apply std_nodup]. }
    exists tb. split; [exact E|]. split; [exact I|]. split; [|split; [|exact Sc]].
    - intros u Hu x m tg Htg. rewrite (Sc u Hu) in Htg. cbn [emap tags] in Htg. apply in_map_iff in Htg as [lr [<- _]]. eauto.
    - intros i Hi x m _. rewrite (Sc _ Hi). cbn [emap tags]. now rewrite tcell3_leaf_tags.
  Qed.

  Lemma tables_ok_rp rp : tables_ok nid_eqb lcaobj c rp ST leafsp syn O AS AM orders.
  Proof.
    intros ro tb _ Ec. destruct (table_facts_rp rp ro) as [tb' [E' [I [Ht [Hl _]]]]]. rewrite E' in Ec. inversion Ec; subst tb'. auto.
  Qed.

  Notation spout := (@SG.spout_state fam path lca node_id).
  Notation MKO := (mk_out lcaobj c leafsp syn O).
  Notation OCOSTS := (ocosts nid_eqb lcaobj c leafsp syn O missing missing_syn).
  Notation COST := (cost_of3 nid_eqb c leafsp syn O missing missing_syn).
  Notation SCANDS := (species_cands nid_eqb lcaobj c leafsp syn O ord_infos missing missing_syn).
  Notation ORES rp := (order_res nid_eqb lcaobj c rp ST leafsp syn O ord_infos missing missing_syn AS AM).
  Notation sid := (@SG.STree_id path).
  Notation LTO := (lt_out (lca := lca) nid_eqb O missing missing_syn).
  Notation LTA := (lt_at nid_eqb missing missing_syn O).
  Notation tbl ro := (spfs_table S c RALL extended ro true (OT O)).

  (** inside the coherent region, what is decoded from a root cell of the model costs that cell *)
  Lemma root_cost ro s lt : In ro orders -> In (Some lt) (sdecode ro (tbl ro) (s, subseq_complete ro)) ->
    total_cost c (OT O) true lt = Some (val (sread (tbl ro) (s, subseq_complete ro))).
  Proof.
    intros Io D. destruct (HO ro Io) as [NDo L].
    pose proof (sdecode_cost S c RALL extended ro Hh rall_nn NDo Hc (OT O) L true _ lt D) as Cx.
    destruct (sdecode_valid S c RALL extended ro Hh (OT O) L true _ _ D) as [x' [Ex [Vx [_ [Syx _]]]]].
    inversion Ex; subst x'. cbn [snd] in Syx. rewrite (complete_mask ro) in Syx.
    assert (VO : valid_ordered S ro (OT O) lt) by (split; auto; now inversion Syx).
    rewrite (total_cost_tcost c S ro (OT O) lt NDo VO). now rewrite Cx.
  Qed.

  Lemma ocosts_sub outsA outsL aL : (forall d, In d outsA -> In d outsL) -> OCOSTS outsL = SG.Ok aL ->
    exists aA, OCOSTS outsA = SG.Ok aA /\ forall y, In y aA -> In y aL.
  Proof.
    intros I EL. pose proof EL as EL'. apply ocosts_ok in EL' as [AL BL]. destruct (OCOSTS outsA) as [aA|e] eqn:EA.
    - exists aA. split; [reflexivity|]. intros y Hy. apply ocosts_ok in EA as [_ BA]. apply BA in Hy as [d [v [Hd [Ev ->]]]].
      apply BL. exists d, v. auto.
    - exfalso. apply ocosts_err in EA as [d [Hd Ec]]. destruct (AL d (I d Hd)) as [v Ev]. congruence.
  Qed.

  (** one root ordering *)
  Lemma order_any ro : In ro orders -> forall csL, ORES RALL ro = SG.Ok csL ->
    exists csA, ORES RANY ro = SG.Ok csA /\ csubb csA csL.
  Proof.
    intros Io. destruct (table_facts_rp RANY ro) as [tbA [EA [_ [_ [_ HGA]]]]].
    destruct (table_facts_rp RALL ro) as [tbL [EL [_ [_ [_ HGL]]]]].
    unfold order_res. rewrite EA, EL. unfold order_cands. apply rcat_subb. intros x Hx aL EaL.
    pose proof (ok_root nid_eqb nid_eqb_spec S leafsp syn O extended AS ND Lv HAS ro) as OK.
    destruct (decode_model3 nid_eqb nid_eqb_spec S c leafsp syn O missing missing_syn ord_infos extended AS Hh ord_same
                ro (gsem3 tbL) O true OK ND HGL (sid x, subseq_complete ro) (complete_lt ro)) as [outsL [EdL [Sd _]]].
    cbn [fst snd] in EdL.
    destruct (decode3_g_some ord_infos (ord_incl' ord_infos ord_same) ro (gsem3 tbA) O
                (masks_ok_of S c ro leafsp syn lev AS' (AM ro) (std_lt nid_eqb O ro) RANY (gsem3 tbA) O HGA)
                (sid x) (subseq_complete ro) (complete_lt ro)) as [outsA EdA].
    pose proof (decode_any_all S c ro leafsp syn lev AS' (AM ro) ord_infos ord_same (gsem3 tbA) (gsem3 tbL) O HGA HGL
                  (sid x) (subseq_complete ro) outsA outsL EdA EdL) as Incl.
    unfold species_cands in EaL |- *. rewrite EdL in EaL. rewrite EdA.
    destruct (ocosts_sub outsA outsL aL Incl EaL) as [aA [EaA IA]]. exists aA. split; [exact EaA|]. split; [exact IA|].
    intros v o Hvo. pose proof EaL as EaL'. apply ocosts_ok in EaL' as [AL BL]. apply BL in Hvo as [d [w [Hd [Ew E]]]].
    inversion E; subst w o. clear E.
    (* the root cell is finite: the ANY table decodes to something *)
    pose proof (decoded_finite S c ro leafsp syn lev AS' (AM ro) ord_infos ord_same RALL (gsem3 tbL) O (sid x) (subseq_complete ro)
                  outsL d (HGL O (post_root O) _ _) EdL Hd) as FL.
    rewrite <- (proj1 (tcell3_any_all S c ro leafsp syn lev AS' (AM ro) O (sid x, subseq_complete ro))) in FL.
    destruct (decode_nonempty S c ro leafsp syn lev AS' (AM ro) ord_infos ord_same (std_lt nid_eqb O ro) RANY (gsem3 tbA) O rany_nn HGA
                (sid x) (subseq_complete ro) (complete_lt ro) FL) as [outs' [d' [Ed' Hd']]].
    rewrite EdA in Ed'. inversion Ed'; subst outs'. clear Ed'.
    (* its cost is the cost of the cell, as is [v] *)
    destruct (AL d' (Incl d' Hd')) as [v' Ev'].
    assert (Cd : forall d0 v0, In d0 outsL -> COST d0 = Some v0 -> v0 = val (sread (tbl ro) (sid x, subseq_complete ro))).
    { intros d0 v0 H0 E0. unfold cost_of3 in E0.
      assert (D0 : In (Some (LTA d0)) (sdecode ro (tbl ro) (sid x, subseq_complete ro))).
      { apply Sd. apply (in_map (fun d => Some (LTA d))). exact H0. }
      pose proof (root_cost ro (sid x) (LTA d0) Io D0) as R0. unfold lt_at in R0. unfold lt_of3 in E0. congruence. }
    rewrite (Cd d v Hd Ew), <- (Cd d' v' (Incl d' Hd') Ev').
    exists (MKO d'). pose proof EaA as EaA'. apply ocosts_ok in EaA' as [_ BA]. apply BA. exists d', v'. auto.
  Qed.

  (** all root orderings *)
  Lemma orders_any csL : rcat (ORES RALL) orders = SG.Ok csL -> exists csA, rcat (ORES RANY) orders = SG.Ok csA /\ csubb csA csL.
  Proof. apply rcat_subb. intros ro Hro a Ea. now apply order_any. Qed.

  (** ** the result entry, read as labelled trees *)
  Section Result.
  Variables csA csL : list (ext * option spout).
  Hypothesis Hsub : csubb csA csL.
  Notation CA := (map (cmap LTO) csA).
  Notation CL := (map (cmap LTO) csL).
  Notation updl rp cs := (update ltree_eqb MIN rp (default_entry MIN) cs).

  Lemma CA_in_CL q : In q CA -> In q CL.
  Proof. intros H. apply in_map_iff in H as [p [<- Hp]]. apply in_map. now apply (proj1 Hsub). Qed.
  Lemma CL_best v o : In (v, o) CL -> exists r, In (v, Some r) CA.
  Proof.
    intros H. apply in_map_iff in H as [[w o0] [E Hp]]. unfold cmap in E. cbn [fst snd] in E. injection E as <- <-. destruct (proj2 Hsub _ _ Hp) as [o' Ho'].
    exists (LTO o'). apply in_map_iff. exists (w, Some o'). split; [reflexivity|exact Ho'].
  Qed.

  Lemma any_value : val (updl RANY CA) = val (updl RALL CL).
  Proof.
    apply ele_antisym.
    - destruct (ext_eqb (val (updl RALL CL)) PInf) eqn:Ep.
      + apply ext_eqb_eq in Ep. rewrite Ep. apply ele_PInf.
      + assert (NV : val (updl RALL CL) <> PInf) by (intros X; rewrite X in Ep; discriminate).
        destruct (upd_attained ltree_eqb RALL _ NV) as [ot Io]. destruct (CL_best _ _ Io) as [r Hr].
        exact (upd_le ltree_eqb RANY _ _ _ Hr).
    - destruct (ext_eqb (val (updl RANY CA)) PInf) eqn:Ep.
      + apply ext_eqb_eq in Ep. rewrite Ep. apply ele_PInf.
      + assert (NV : val (updl RANY CA) <> PInf) by (intros X; rewrite X in Ep; discriminate).
        destruct (upd_attained ltree_eqb RANY _ NV) as [ot Io]. apply CA_in_CL in Io.
        exact (upd_le ltree_eqb RALL _ _ _ Io).
  Qed.

  (** the entry under ANY holds one labelled reconciliation, one of those of the entry under ALL -- or both are empty *)
  Lemma any_result : (tags (updl RANY CA) = [] /\ tags (updl RALL CL) = []) \/
    exists t, tags (updl RANY CA) = [t] /\ In t (tags (updl RALL CL)).
  Proof.
    destruct (entry_tags_any ltree_eqb MIN CA) as [[Et No]|[t [Et It]]]; cbv zeta in *.
    - left. split; [exact Et|]. destruct (tags (updl RALL CL)) as [|t tl] eqn:E; [reflexivity|]. exfalso.
      assert (Ht : In t (tags (updl RALL CL))) by (rewrite E; now left).
      apply (upd_tags_sound ltree_eqb ltree_eqb_spec) in Ht. destruct (CL_best _ _ Ht) as [r Hr].
      apply (No r). now rewrite any_value.
    - right. exists t. split; [exact Et|]. rewrite any_value in It. apply CA_in_CL in It.
      now apply (entry_tags_all ltree_eqb ltree_eqb_spec MIN CL t).
  Qed.
  End Result.

  (** ** [_spfs] under ANY with the callbacks [AS] / the standard masks *)
  Variable oeqb : spout -> spout -> bool.
  Hypothesis sloss_nn : 0 <= c_sloss c.
  Hypothesis oeqb_lt : forall a b, ltree_eqb (LTO a) (LTO b) = oeqb a b.
  Variables (syn_mem : (node_id -> list fam) -> node_id -> bool) (syn_items : (node_id -> list fam) -> list (fam * list fam))
            (set_order : list fam -> list fam) (graph_of_prec : list (fam * list fam) -> list (fam * list fam))
            (find_cycle_fn : list (fam * list fam) -> list fam).
  Hypothesis Ho : spfs_orders syn O syn_mem syn_items set_order graph_of_prec orders.
  Notation SPFS rp := (SG.gen_spfs fam_eqb path_eqb nid_eqb ANC LCP DIST (fun _ => ST) SANC COMP oeqb missing missing_syn ord_infos
                      syn_mem syn_items set_order graph_of_prec find_cycle_fn sin (prc rp) AS AM).

  Theorem gen_spfs_any e : spfs S c RALL extended orders (OT O) = Some e ->
    exists outs, SPFS RANY = SG.Ok outs /\
      (outs = [] \/ exists o, outs = [o] /\ In (LTO o) (tags e)) /\ (outs = [] <-> tags e = []).
  Proof.
    intros Es.
    rewrite (gen_spfs_exact nid_eqb nid_eqb_spec lcaobj c RANY ST leafsp syn O ord_infos (ord_incl' ord_infos ord_same) oeqb missing missing_syn
               sloss_nn syn_mem syn_items set_order graph_of_prec find_cycle_fn AS AM orders Ho (tables_ok_rp RANY)).
    pose proof (candidates_model3 nid_eqb nid_eqb_spec lcaobj S c leafsp syn O missing missing_syn ord_infos extended AS
                  Hh ND Lv ord_same HAS orders) as C.
    unfold spfs in Es. destruct (rcat (ORES RALL) orders) as [csL|err] eqn:ER.
    2:{ destruct C as [_ El]. rewrite El in Es. discriminate. }
    destruct C as [l' [El C]]. rewrite El in Es. cbn [option_map] in Es. inversion Es; subst e. clear Es.
    destruct (orders_any csL ER) as [csA [EA Hsub]]. rewrite EA. eexists. split; [reflexivity|].
    apply (upd_sim ltree_eqb ltree_eqb_spec) in C as [_ [Ee Ss]]. specialize (Ss eq_refl).
    pose proof (update_emap oeqb ltree_eqb LTO oeqb_lt MIN RANY csA (default_entry MIN)) as E2.
    change (emap LTO (default_entry MIN)) with (@default_entry ltree MIN) in E2.
    destruct (any_result csA csL Hsub) as [[Ea0 El0]|[t [Ea1 Il1]]].
    - rewrite E2 in Ea0. cbn [emap tags] in Ea0. apply map_eq_nil in Ea0. rewrite Ea0.
      split; [now left|]. split; intros _; [now apply Ee|reflexivity].
    - rewrite E2 in Ea1. cbn [emap tags] in Ea1.
      destruct (tags (update oeqb MIN RANY (default_entry MIN) csA)) as [|o [|o' tl]]; cbn [map] in Ea1; try discriminate.
      inversion Ea1 as [Eo]. apply Ss in Il1. split; [right; exists o; split; [reflexivity|now rewrite Eo]|].
      split; intros X; [discriminate|]. rewrite X in Il1. destruct Il1.
  Qed.
End AnyLink.
Print Assumptions gen_spfs_any.

(* ------------------------------------------------------------------ *)
(** * The two entry points under ANY *)
Section FinalAny.
  Context {lca node_id : Type} (nid_eqb : node_id -> node_id -> bool).
  Hypothesis nid_eqb_spec : forall a b, reflect (a = b) (nid_eqb a b).
  Notation tree := (EV.TreeNode node_id).
  Notation spout := (@SG.spout_state fam path lca node_id).
  Variables (lcaobj : lca) (S : stree) (c : costs) (leafsp : node_id -> path) (syn : node_id -> list fam) (O : tree).
  Variables (missing : node_id -> path) (missing_syn : node_id -> list fam) (ord_infos : list ca -> list ca).
  Variable oeqb : spout -> spout -> bool.
  Variables (syn_mem : (node_id -> list fam) -> node_id -> bool) (syn_items : (node_id -> list fam) -> list (fam * list fam))
            (set_order : list fam -> list fam) (graph_of_prec : list (fam * list fam) -> list (fam * list fam))
            (find_cycle_fn : list (fam * list fam) -> list fam).
  Variable orders : list (list fam).
  Notation ST := (sembed3 S []).
  Notation OT := (otree_of leafsp syn).
  Notation sin := (EV.mk_sin O lcaobj leafsp (stsocc c) syn).
  Notation DIST := (fun (_ : lca) => dist).
  Notation ANC := (fun (_ : lca) => anc).
  Notation SANC := (fun (_ : lca) => sanc).
  Notation COMP := (fun (_ : lca) => comparable).
  Notation LCP := (fun (_ : lca) => lcp).
  Notation LT := (lt_out (lca := lca) nid_eqb O missing missing_syn).
  Notation EXT rp := (SG.gen_sreconcile_extended_spfs fam_eqb path_eqb nid_eqb ANC LCP DIST (fun _ => ST) SANC COMP oeqb missing missing_syn
                        ord_infos syn_mem syn_items set_order graph_of_prec find_cycle_fn sin (prc rp)).
  Notation BASE rp := (SG.gen_sreconcile_base_spfs fam_eqb path_eqb nid_eqb ANC LCP DIST (fun _ => ST) SANC COMP oeqb missing missing_syn
                        ord_infos syn_mem syn_items set_order graph_of_prec find_cycle_fn sin (prc rp)).

  (** [sreconcile_extended_spfs] under ANY: the generated code does not fail and returns at most one output; its labelled
      reconciliation is one of those the model holds under ALL; nothing is returned exactly when the model holds nothing *)
  Theorem gen_sreconcile_extended_spfs_any e :
    W nid_eqb S c leafsp syn O missing missing_syn ord_infos oeqb ->
    spfs_orders syn O syn_mem syn_items set_order graph_of_prec orders ->
    orders_ok S (OT O) orders -> coherent_ord c ->
    spfs S c RALL true orders (OT O) = Some e ->
    exists outs, EXT RANY = SG.Ok outs /\
      (outs = [] \/ exists o, outs = [o] /\ In (LT o) (tags e)) /\ (outs = [] <-> tags e = []).
  Proof.
    intros [Hh [Hs [ND [Lv [Hord Heq]]]]] Ho HO Hc Es. rewrite gen_sreconcile_extended_spfs_eq.
    refine (gen_spfs_any nid_eqb nid_eqb_spec lcaobj S c leafsp syn O missing missing_syn ord_infos true
              (fun (species : @SG.STree path) (_ : tree) => SG.STree_postorder species) Hh ND Lv Hord _ Hc orders HO oeqb Hs Heq
              syn_mem syn_items set_order graph_of_prec find_cycle_fn Ho e Es).
    intros u _ _. split; [apply post_rs_ok|split; [apply post_nodup|apply post_sameset]].
  Qed.

  (** [sreconcile_base_spfs] under ANY *)
  Theorem gen_sreconcile_base_spfs_any e :
    W nid_eqb S c leafsp syn O missing missing_syn ord_infos oeqb ->
    spfs_orders syn O syn_mem syn_items set_order graph_of_prec orders ->
    orders_ok S (OT O) orders -> coherent_ord c ->
    spfs S c RALL false orders (OT O) = Some e ->
    exists outs, BASE RANY = SG.Ok outs /\
      (outs = [] \/ exists o, outs = [o] /\ In (LT o) (tags e)) /\ (outs = [] <-> tags e = []).
  Proof.
    intros [Hh [Hs [ND [Lv [Hord Heq]]]]] Ho HO Hc Es.
    destruct (gen_sreconcile_base_spfs_eq nid_eqb nid_eqb_spec lcaobj c RANY ST leafsp syn O ord_infos oeqb missing missing_syn
                syn_mem syn_items set_order graph_of_prec find_cycle_fn ND) as [d [Hd E]].
    rewrite E.
    refine (gen_spfs_any nid_eqb nid_eqb_spec lcaobj S c leafsp syn O missing missing_syn ord_infos false
              (fun (_ : @SG.STree path) (obj : tree) => SG.base_species path_eqb nid_eqb ST d obj) Hh ND Lv Hord _ Hc orders HO oeqb Hs Heq
              syn_mem syn_items set_order graph_of_prec find_cycle_fn Ho e Es).
    intros u Hu _. pose proof (leaves_ok_sub S leafsp syn O u Lv Hu) as Lu.
    pose proof (allowed_species_valid S false (OT u) (root (lca_rec (OT u))) Lu (or_introl eq_refl)) as V.
    apply snodes_valid, (post_sameset S) in V. destruct (find_sid _ _ V) as [rs [E1 [E2 E3]]].
    rewrite (base_species_eq nid_eqb ST d u _ rs (Hd u Hu) E1). split; [|split].
    - intros rs' [<-|[]]. now apply post_rs_ok.
    - cbn. constructor; [intros []|constructor].
    - cbn [sids3 map allowed_species]. rewrite E3. intros x; tauto.
  Qed.

  (** the same with the optimality of what is returned spelled out ([SpfsFinal.spfs_all_exact]); the model entry exists
      ([spfs_returns]) *)
  Corollary gen_sreconcile_extended_spfs_any_optimal :
    W nid_eqb S c leafsp syn O missing missing_syn ord_infos oeqb ->
    spfs_orders syn O syn_mem syn_items set_order graph_of_prec orders ->
    orders_ok S (OT O) orders -> coherent_ord c ->
    exists e outs, spfs S c RALL true orders (OT O) = Some e /\ EXT RANY = SG.Ok outs /\
      (outs = [] \/ exists o, outs = [o] /\ In (LT o) (tags e) /\ optimal_sol S c true orders (OT O) (LT o)) /\
      (outs = [] <-> tags e = []).
  Proof.
    intros Hw Ho HO Hc. pose proof Hw as [Hh _]. destruct (spfs_returns S c RALL true orders (OT O) Hh HO) as [e Es].
    destruct (gen_sreconcile_extended_spfs_any e Hw Ho HO Hc Es) as [outs [E [[->|[o [-> Io]]] Hn]]]; exists e, outs || idtac.
    - exists e, []. split; [exact Es|]. split; [exact E|]. split; [now left|exact Hn].
    - exists e, [o]. split; [exact Es|]. split; [exact E|]. split; [|exact Hn]. right. exists o. split; [reflexivity|]. split; [exact Io|].
      now apply (spfs_all_exact S c true orders (OT O) Hh HO Hc e Es).
  Qed.

  Corollary gen_sreconcile_base_spfs_any_optimal :
    W nid_eqb S c leafsp syn O missing missing_syn ord_infos oeqb ->
    spfs_orders syn O syn_mem syn_items set_order graph_of_prec orders ->
    orders_ok S (OT O) orders -> coherent_ord c ->
    exists e outs, spfs S c RALL false orders (OT O) = Some e /\ BASE RANY = SG.Ok outs /\
      (outs = [] \/ exists o, outs = [o] /\ In (LT o) (tags e) /\ optimal_sol S c false orders (OT O) (LT o)) /\
      (outs = [] <-> tags e = []).
  Proof.
    intros Hw Ho HO Hc. pose proof Hw as [Hh _]. destruct (spfs_returns S c RALL false orders (OT O) Hh HO) as [e Es].
    destruct (gen_sreconcile_base_spfs_any e Hw Ho HO Hc Es) as [outs [E [[->|[o [-> Io]]] Hn]]].
    - exists e, []. split; [exact Es|]. split; [exact E|]. split; [now left|exact Hn].
    - exists e, [o]. split; [exact Es|]. split; [exact E|]. split; [|exact Hn]. right. exists o. split; [reflexivity|]. split; [exact Io|].
      now apply (spfs_all_exact S c false orders (OT O) Hh HO Hc e Es).
  Qed.
End FinalAny.
Print Assumptions gen_sreconcile_extended_spfs_any.
Print Assumptions gen_sreconcile_base_spfs_any.
Print Assumptions gen_sreconcile_extended_spfs_any_optimal.
Print Assumptions gen_sreconcile_base_spfs_any_optimal.
Check @scell_o_any_all.
Check @trow3_any_all.
Check @decode_nonempty.
Check @decoded_finite.
Check @decode_any_all.
Check @gen_spfs_any.
Check @gen_sreconcile_extended_spfs_any.
Check @gen_sreconcile_base_spfs_any.
Check @gen_sreconcile_extended_spfs_any_optimal.
Check @gen_sreconcile_base_spfs_any_optimal.

(* ------------------------------------------------------------------ *)
(** * The hypotheses are satisfiable ([SpfsLink.Ex]: two leaves, a species tree with two leaves); the generated code run
    under ANY on that instance returns one of the three optimal labelled reconciliations *)
Module ExAny.
  Import Ex.
  Example coherent_satisfiable : coherent_ord c0.
  Proof. unfold coherent_ord, c0. cbn. lia. Qed.
  Example orders_ok_satisfiable : orders_ok S0 (otree_of leafsp0 syn0 O0) orders0.
  Proof.
    intros ord [<-|[]]. split.
    - repeat constructor; cbn; intuition discriminate.
    - cbn. repeat split; try discriminate; repeat constructor.
  Qed.
  Notation GEN_EXT_ANY := (SG.gen_sreconcile_extended_spfs fam_eqb path_eqb Nat.eqb (fun _ : unit => anc) (fun _ => lcp) (fun _ => dist)
                         (fun _ => sembed3 S0 []) (fun _ => sanc) (fun _ => comparable) oeqb0 miss0 msyn0 ord0
                         syn_mem0 syn_items0 set_order0 graph0 (fun _ => []) (EV.mk_sin O0 tt leafsp0 (stsocc c0) syn0) (prc RANY)).
  Example instance_extended_any_evaluated :
    match GEN_EXT_ANY with SG.Ok outs => Some (map (lt_out Nat.eqb O0 miss0 msyn0) outs) | SG.Err _ => None end =
      Some [LNode [] [1; 2; 3]%N (LLeaf [false] [1; 2]%N) (LLeaf [true] [2; 3]%N)].
  Proof. vm_compute. reflexivity. Qed.
  Example instance_extended_any_theorem : exists o, GEN_EXT_ANY = SG.Ok [o] /\
    optimal_sol S0 c0 true orders0 (otree_of leafsp0 syn0 O0) (lt_out Nat.eqb O0 miss0 msyn0 o).
  Proof.
    destruct (gen_sreconcile_extended_spfs_any_optimal Nat.eqb Nat.eqb_spec tt S0 c0 leafsp0 syn0 O0 miss0 msyn0 ord0 oeqb0
                syn_mem0 syn_items0 set_order0 graph0 (fun _ => []) orders0 W_satisfiable orders0_ok orders_ok_satisfiable
                coherent_satisfiable) as [e [outs [Es [E [[->|[o [-> [_ Opt]]]] Hn]]]]].
    - exfalso. remember (spfs S0 c0 RALL true orders0 (otree_of leafsp0 syn0 O0)) as r eqn:Er. vm_compute in Er. subst r.
      inversion Es; subst e. cbn [tags] in Hn. destruct Hn as [Hn _]. specialize (Hn eq_refl). discriminate.
    - exists o. split; [exact E|exact Opt].
  Qed.
End ExAny.
Print Assumptions ExAny.instance_extended_any_theorem.

End PartCspfs.
