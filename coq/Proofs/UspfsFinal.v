(** Correctness of the unordered super-reconciliation solver model ([Model/Uspfs.v]), second half:
    - canonical labellings (each node holds its LCA set or its parent's content plus its gains),
      agreement of the optimiser's charges with the evaluator's for them ([charge_consistent],
      [canon_node_charge]), lower bound [UTval_lower];
    - the decoded trees: canonical, cost = cell ([udecode_cost]), existence, completeness under ALL;
    - [uspfs_all_exact], [uspfs_any], [uspfs_value], [uspfs_all_nonempty];
    - [canonical_suffices], [superdtl_optimum], [superdtl_solutions_optimal];
    - summary [uspfs_valid_full], the region, witnesses. *)
From Coq Require Import List Bool Arith ZArith NArith Lia.
From SR Require Import Base.PathB Base.Ext Model.Entry Model.Recon Model.LcaRec Model.Thl Model.Uspfs
  Proofs.PathFacts Proofs.ReconProofs Proofs.EntryProofs Proofs.DpProofs Proofs.LcaProofs Proofs.ExhProofs
  Proofs.ThlProofs Proofs.ThlFinal Proofs.LabelCostProofs Proofs.UspfsProofs.
Import ListNotations.
Local Open Scope Z_scope.

(** * part 6: canonical labellings, lower bound, cost of the decoded trees, completeness *)

Lemma ext_node_regroup e k ca cb ua ub :
  ext_add (ext_add e (ext_add ca cb)) (Fin (k + ua + ub)) =
  ext_add (ext_add e (Fin k)) (ext_add (ext_add ca (Fin ua)) (ext_add cb (Fin ub))).
Proof. destruct e, ca, cb; simpl; auto; f_equal; ring. Qed.

Lemma ucost_node c a b s y ta tb : event s (lroot ta) (lroot tb) <> Inv ->
  ucost c (ONode a b) (LNode s y ta tb) =
  ext_add (ext_add (ecost c s (lroot ta) (lroot tb))
                   (Fin (c_sloss c * ucharge_ev (event s (lroot ta) (lroot tb)) (lossy y (lsyn ta)) (lossy y (lsyn tb)))))
          (ext_add (ucost c a ta) (ucost c b tb)).
Proof.
  intros Ev. unfold ucost. cbn [forget cost ulab_spec]. rewrite !forget_root, ulab_node_charge.
  rewrite <- ext_node_regroup.
  replace (c_sloss c * (ucharge_ev (event s (lroot ta) (lroot tb)) (lossy y (lsyn ta)) (lossy y (lsyn tb)) + ulab_spec ta + ulab_spec tb))
    with (c_sloss c * ucharge_ev (event s (lroot ta) (lroot tb)) (lossy y (lsyn ta)) (lossy y (lsyn tb)) + c_sloss c * ulab_spec ta + c_sloss c * ulab_spec tb) by ring.
  destruct (event s (lroot ta) (lroot tb)); try congruence; reflexivity.
Qed.

Lemma lossy_0 P C : (forall f, In f P -> In f C) -> lossy P C = 0.
Proof. intros H. unfold lossy. apply subset_spec in H. now rewrite H. Qed.
Lemma lossy_1 P C f : In f P -> ~ In f C -> lossy P C = 1.
Proof. intros H1 H2. apply lossy_iff. eauto. Qed.
Lemma lossy_01 P C : lossy P C = 0 \/ lossy P C = 1.
Proof. unfold lossy. destruct (subset P C); auto. Qed.
Lemma subset_false_witness a b : subset a b = false -> exists f, In f a /\ ~ In f b.
Proof. intros H. apply lossy_iff. unfold lossy. now rewrite H. Qed.

(** ** children of an object node *)
Definition is_child (o x : otree) : Prop := match o with ONode a b => x = a \/ x = b | OLeaf _ _ => False end.

Section Kinds.
  Variables (total : fam -> nat) (c : costs).
  Notation Lca o := (u_lca (annotate total o)).
  Notation Gain o := (u_gain (annotate total o)).

  Lemma child_bounded o x : is_child o x -> bounded total o -> bounded total x.
  Proof. destruct o as [|a b]; [intros []|]. intros [-> | ->] B; [eapply bounded_l|eapply bounded_r]; eauto. Qed.
  Lemma child_needed o x f : is_child o x -> bounded total o ->
    needed_here total x f = true -> gained_here total x f = false -> needed_here total o f = true.
  Proof.
    destruct o as [|a b]; [intros []|]. intros [-> | ->] B; [now apply needed_child_l|now apply needed_child_r].
  Qed.
  Lemma child_le o x f : is_child o x -> (carriers f x <= carriers f o)%nat.
  Proof. destruct o as [|a b]; [intros []|]. intros [-> | ->]; cbn [carriers]; lia. Qed.
  Lemma child_top o x f : is_child o x -> needed_here total o f = true -> (carriers f x < total f)%nat.
  Proof.
    destruct o as [|a b]; [intros []|]. unfold needed_here. cbn [top]. intros H N.
    apply andb_true_iff in N as [_ N]. apply andb_true_iff in N as [N1 N2]. apply Nat.ltb_lt in N1, N2.
    destruct H as [-> | ->]; auto.
  Qed.

  (* families of the parent's content all have carriers outside the node *)
  Definition ulow (P : list fam) (o : otree) : Prop := forall f, In f P -> (carriers f o < total f)%nat.
  (* an INHERIT node really holds more than its LCA set *)
  Definition uextra (P : list fam) (o : otree) (kind : bool) : Prop :=
    kind = true -> exists f, In f P /\ needed_here total o f = false.

  Lemma In_Lca o f : bounded total o -> (In f (Lca o) <-> needed_here total o f = true).
  Proof. intros B. now apply In_u_lca. Qed.

  (* under a lossless edge from an LCA parent, INHERIT and LCA coincide *)
  Lemma ucontent_lca_eq o x : is_child o x -> bounded total o ->
    uflag total o x = true -> set_union (Lca o) (Gain x) = Lca x.
  Proof.
    intros Ch B F. pose proof (child_bounded o x Ch B) as Bx. unfold uflag in F.
    apply ssorted_ext; [apply ssorted_set_union, ssorted_u_gain|apply ssorted_u_lca|].
    intros f. rewrite In_set_union, In_u_gain, (In_Lca x f Bx). split.
    - intros [H|H]; [|now apply gained_needed]. apply (In_Lca x f Bx). now apply (proj1 (subset_spec _ _) F).
    - intros N. destruct (gained_here total x f) eqn:G; auto. left.
      apply (In_Lca o f B). eapply child_needed; eauto.
  Qed.

  Section OneEdge.
    Variables (P : list fam) (o x : otree) (kind kl : bool).
    Hypothesis Ch : is_child o x.
    Hypothesis B : bounded total o.
    Hypothesis Cv : ucovers total P o.
    Hypothesis Lw : ulow P o.
    Hypothesis Ex : uextra P o kind.
    (* an INHERIT child of an LCA parent sits below a lossy edge *)
    Hypothesis FT : kind = false -> kl = true -> uflag total o x = false.
    Notation y := (ucontent total P o kind).
    Notation yx := (ucontent total y x kl).

    Lemma extra_not_needed_child f : In f P -> needed_here total o f = false -> needed_here total x f = false.
    Proof.
      intros I N. destruct (needed_here total x f) eqn:Nx; auto. exfalso.
      destruct (gained_here total x f) eqn:G.
      - rewrite gained_here_eq in G. apply andb_true_iff in G as [G _]. apply Nat.eqb_eq in G.
        pose proof (Lw f I). pose proof (child_le o x f Ch). lia.
      - rewrite (child_needed o x f Ch B Nx G) in N. discriminate.
    Qed.

    Lemma charge_consistent :
      ucc c kind (uflag total o x) kl = Fin (c_sloss c * lossy y yx) /\ ufc kind (uflag total o x) kl = Fin 0.
    Proof.
      pose proof (child_bounded o x Ch B) as Bx.
      unfold ucc, ufc. destruct kind, kl.
      - split; auto. rewrite lossy_0; [now rewrite Z.mul_0_r|].
        intros f Hf. unfold ucontent at 1. rewrite In_set_union. auto.
      - split; auto. destruct (Ex eq_refl) as [f [If Nf]].
        rewrite (lossy_1 _ _ f); [now rewrite Z.mul_1_r| |].
        + unfold ucontent. rewrite In_set_union. auto.
        + unfold ucontent at 1. rewrite (In_Lca x f Bx). rewrite (extra_not_needed_child f If Nf). discriminate.
      - rewrite (FT eq_refl eq_refl). split; auto. rewrite lossy_0; [now rewrite Z.mul_0_r|].
        intros f Hf. unfold ucontent at 1. rewrite In_set_union. auto.
      - split; auto. unfold ucontent, lossy, uflag. destruct (subset (Lca o) (Lca x)); f_equal; lia.
    Qed.

    Lemma child_extra : uextra y x kl.
    Proof.
      pose proof (child_bounded o x Ch B) as Bx.
      intros ->. destruct kind.
      - destruct (Ex eq_refl) as [f [If Nf]]. exists f. split.
        + unfold ucontent. rewrite In_set_union. auto.
        + now apply extra_not_needed_child.
      - specialize (FT eq_refl eq_refl). unfold uflag in FT.
        apply subset_false_witness in FT as [f [If Nf]]. exists f. split; [exact If|].
        destruct (needed_here total x f) eqn:N; auto. exfalso. apply Nf. now apply (In_Lca x f Bx).
    Qed.
  End OneEdge.

  Lemma child_low P o x kind : is_child o x -> bounded total o -> ulow P o -> ulow (ucontent total P o kind) x.
  Proof.
    intros Ch B Lw f Hf. unfold ucontent in Hf. destruct kind.
    - apply In_set_union in Hf as [Hf|Hf].
      + pose proof (Lw f Hf). pose proof (child_le o x f Ch). lia.
      + apply In_u_gain, gained_needed in Hf. eapply child_top; eauto.
    - apply (In_Lca o f B) in Hf. eapply child_top; eauto.
  Qed.

  Lemma child_covers P o x kind : is_child o x -> bounded total o -> ucovers total P o ->
    ucovers total (ucontent total P o kind) x.
  Proof.
    intros Ch B Cv f N G. apply ucontent_has_lca; auto. eapply child_needed; eauto.
  Qed.
End Kinds.

(** ** canonical labellings: every node holds its LCA set or its parent's content plus its gains *)
Fixpoint ucanon_under (total : fam -> nat) (P : list fam) (o : otree) (t : ltree) : Prop :=
  (lsyn t = u_lca (annotate total o) \/ lsyn t = set_union P (u_gain (annotate total o))) /\
  match o, t with
  | ONode a b, LNode s y ta tb => ucanon_under total y a ta /\ ucanon_under total y b tb
  | OLeaf _ _, LLeaf _ _ => True
  | _, _ => False
  end.

Definition kind_of (total : fam -> nat) (o : otree) (t : ltree) : bool :=
  if list_eq_dec N.eq_dec (lsyn t) (u_lca (annotate total o)) then false else true.

Lemma ucanon_head total P o t : ucanon_under total P o t ->
  lsyn t = u_lca (annotate total o) \/ lsyn t = set_union P (u_gain (annotate total o)).
Proof. destruct o, t; simpl; tauto. Qed.

Lemma canon_content total P o t : ucanon_under total P o t -> lsyn t = ucontent total P o (kind_of total o t).
Proof.
  intros C. apply ucanon_head in C. unfold kind_of, ucontent.
  destruct (list_eq_dec N.eq_dec (lsyn t) (u_lca (annotate total o))); auto. destruct C; congruence.
Qed.

Lemma canon_extra total P o t : bounded total o -> ucovers total P o -> ucanon_under total P o t ->
  uextra total P o (kind_of total o t).
Proof.
  intros B Cv C K. pose proof (canon_content total P o t C) as E. rewrite K in E. unfold ucontent in E.
  unfold kind_of in K. destruct (list_eq_dec N.eq_dec (lsyn t) (u_lca (annotate total o))) as [|NE]; [discriminate|].
  destruct (subset (lsyn t) (u_lca (annotate total o))) eqn:Sb.
  - exfalso. apply NE. rewrite E in *. apply ssorted_ext; [apply ssorted_set_union, ssorted_u_gain|apply ssorted_u_lca|].
    intros f. split; [apply (proj1 (subset_spec _ _) Sb)|].
    rewrite (In_u_lca total o B). intros N. apply (ucontent_has_lca total P o true B Cv f N).
  - apply subset_false_witness in Sb as [f [If Nf]]. rewrite E in If. apply In_set_union in If as [If|If].
    + exists f. split; auto. destruct (needed_here total o f) eqn:N; auto. exfalso. apply Nf. now apply (In_u_lca total o B).
    + exfalso. apply Nf. apply (In_u_lca total o B). apply gained_needed. now apply In_u_gain.
Qed.

Lemma canon_FT total P o x t tx : is_child o x -> bounded total o ->
  lsyn tx = ucontent total (ucontent total P o (kind_of total o t)) x (kind_of total x tx) ->
  kind_of total o t = false -> kind_of total x tx = true -> uflag total o x = false.
Proof.
  intros Ch B E K Kx. rewrite K, Kx in E. unfold ucontent in E.
  destruct (uflag total o x) eqn:F; auto. exfalso.
  rewrite (ucontent_lca_eq total o x Ch B F) in E.
  unfold kind_of in Kx. destruct (list_eq_dec N.eq_dec (lsyn tx) (u_lca (annotate total x))); [discriminate|contradiction].
Qed.

Lemma uvalid_root_valid S total P o t : uvalid_under S total P o t -> valid_sp S (lroot t) = true.
Proof.
  intros V. rewrite <- forget_root. apply (valid_rec_root_valid S o). eapply uvalid_valid_rec; eauto.
Qed.

Lemma ucoherent_parts c : ucoherent c -> 0 <= c_floss c /\ 0 <= c_sloss c /\ c_spe c + c_sloss c <= c_dup c + 2 * c_floss c.
Proof. auto. Qed.

Lemma uvalid_shape S total P o t : uvalid_under S total P o t ->
  match o, t with OLeaf _ _, LLeaf _ _ => True | ONode _ _, LNode _ _ _ _ => True | _, _ => False end.
Proof. destruct o, t; simpl; tauto. Qed.

Section Lower.
  Variables (S : stree) (c : costs) (extended : bool) (total : fam -> nat).
  Hypothesis Hh : nn (c_hgt c).
  Hypothesis Hc : ucoherent c.
  Notation TV := (UTval S c extended total).

  (* the node charge of a canonical labelling, as the optimiser sees it *)
  Lemma canon_node_charge P a b s y ta tb kind kl kr :
    let o := ONode a b in
    bounded total o -> ucovers total P o -> ulow total P o -> uextra total P o kind ->
    y = ucontent total P o kind ->
    lsyn ta = ucontent total y a kl -> lsyn tb = ucontent total y b kr ->
    (kind = false -> kl = true -> uflag total o a = false) ->
    (kind = false -> kr = true -> uflag total o b = false) ->
    In (lroot ta) (snodes S) -> In (lroot tb) (snodes S) ->
    uocost S c s kind (uflag total o a) (uflag total o b) (lroot ta, kl) (lroot tb, kr) =
    ext_add (ecost c s (lroot ta) (lroot tb))
            (Fin (c_sloss c * ucharge_ev (event s (lroot ta) (lroot tb)) (lossy y (lsyn ta)) (lossy y (lsyn tb)))).
  Proof.
    intros o B Cv Lw Ex -> Ea Eb FTa FTb Il Ir. destruct Hc as [Hf [Hs Hco]].
    destruct (charge_consistent total c P o a kind kl (or_introl eq_refl) B Lw Ex FTa) as [Ca Fa].
    destruct (charge_consistent total c P o b kind kr (or_intror eq_refl) B Lw Ex FTb) as [Cb Fb].
    rewrite Ea, Eb. apply uocost_ecost; auto; apply lossy_01.
  Qed.

  (** lower bound: a canonical valid labelling costs at least the table entry of its root *)
  Theorem UTval_lower : forall o P t,
    bounded total o -> ucovers total P o -> ulow total P o ->
    uvalid_under S total P o t -> ucanon_under total P o t ->
    (extended = false -> forget t = lca_rec o) ->
    ele (TV o (lroot t, kind_of total o t)) (ucost c o t).
  Proof.
    induction o as [sp syn|a IHa b IHb]; intros P t B Cv Lw V C Hb.
    - destruct t as [s y|]; [|destruct V]. destruct V as [-> [Hs [-> _]]].
      unfold kind_of. cbn [lsyn annotate u_lca lroot].
      destruct (list_eq_dec N.eq_dec (set_of syn) (set_of syn)); [|congruence].
      cbn [UTval]. rewrite uassign_eqb_refl. unfold ucost. cbn [forget cost ulab_spec]. rewrite path_eqb_refl.
      cbn [ext_add]. apply ele_Fin. lia.
    - destruct t as [|s y ta tb]; [destruct V|].
      destruct V as [Hs [Ev [Sy [Fr [Va Vb]]]]]. pose proof C as C0. destruct C as [_ [Ca Cb]].
      set (o := ONode a b) in *. set (kind := kind_of total o (LNode s y ta tb)).
      pose proof (canon_content total P o _ C0) as Ey. cbn [lsyn] in Ey. fold kind in Ey.
      pose proof (canon_extra total P o _ B Cv C0) as Ex. fold kind in Ex.
      assert (is_child o a) as Cha by (left; reflexivity). assert (is_child o b) as Chb by (right; reflexivity).
      pose proof (canon_content total y a ta Ca) as Ea. pose proof (canon_content total y b tb Cb) as Eb.
      set (kl := kind_of total a ta) in *. set (kr := kind_of total b tb) in *.
      assert (kind = false -> kl = true -> uflag total o a = false) as FTa.
      { intros K1 K2. apply (canon_FT total P o a (LNode s y ta tb) ta Cha B); auto. fold kind. now rewrite <- Ey. }
      assert (kind = false -> kr = true -> uflag total o b = false) as FTb.
      { intros K1 K2. apply (canon_FT total P o b (LNode s y ta tb) tb Chb B); auto. fold kind. now rewrite <- Ey. }
      pose proof (uvalid_root_valid _ _ _ _ _ Va) as Rl. pose proof (uvalid_root_valid _ _ _ _ _ Vb) as Rr.
      apply snodes_valid in Rl, Rr.
      assert (In s (uallowed S extended o)) as Is.
      { unfold uallowed. destruct extended; [now apply snodes_valid|].
        specialize (Hb eq_refl). cbn [forget lca_rec] in Hb. injection Hb as -> _ _. now left. }
      cbn [lroot]. change (TV o (s, kind)) with (TV (ONode a b) (s, kind)). cbn [UTval]. fold o. cbn [fst snd]. apply existsb_path_In in Is. rewrite Is.
      unfold unode_val.
      eapply ele_trans; [apply (minl_le _ (ukeys S) (lroot ta, kl)); now apply In_ukeys|]. cbv beta.
      eapply ele_trans; [apply (minl_le (fun r0 => ext_add (uocost S c s kind (uflag total o a) (uflag total o b) (lroot ta, kl) r0)
                                   (ext_add (TV a (lroot ta, kl)) (TV b r0))) (ukeys S) (lroot tb, kr)); now apply In_ukeys|].
      cbv beta. unfold o. rewrite (ucost_node c a b s y ta tb Ev).
      rewrite (canon_node_charge P a b s y ta tb kind kl kr B Cv Lw Ex Ey Ea Eb FTa FTb Rl Rr).
      apply ext_add_mono; [apply ele_refl|]. rewrite Ey in *.
      apply ext_add_mono.
      + apply (IHa (ucontent total P o kind) ta); auto.
        * eapply bounded_l; eauto.
        * apply (child_covers total P o a kind Cha B Cv).
        * apply (child_low total P o a kind Cha B Lw).
        * intros X. specialize (Hb X). cbn [forget lca_rec] in Hb. now injection Hb as _ ? _.
      + apply (IHb (ucontent total P o kind) tb); auto.
        * eapply bounded_r; eauto.
        * apply (child_covers total P o b kind Chb B Cv).
        * apply (child_low total P o b kind Chb B Lw).
        * intros X. specialize (Hb X). cbn [forget lca_rec] in Hb. now injection Hb as _ _ ?.
  Qed.
End Lower.

(** * part 7: the decoded trees: cost, canonicity, existence, completeness *)

Lemma uocost_inf_r S c s kind la lb l kl r : ufc kind lb (snd r) = PInf -> uocost S c s kind la lb (l, kl) r = PInf.
Proof.
  intros H. assert (ucc c kind lb (snd r) = PInf) as H'.
  { unfold ufc, ucc in *. destruct kind, (snd r), lb; try discriminate; reflexivity. }
  unfold uocost, ufams. cbn [minl fst snd ucharge]. rewrite H, H'.
  rewrite !LcaProofs.ext_add_PInf_r.
  repeat match goal with |- context [guard ?g ?v] => destruct g; cbn [guard] end; reflexivity.
Qed.

Lemma ufc_FT kind ll ck : ufc kind ll ck <> PInf -> kind = false -> ck = true -> ll = false.
Proof. intros H -> ->. unfold ufc in H. destruct ll; congruence. Qed.

Lemma ext_add_not_PInf_l a b : ext_add a b <> PInf -> a <> PInf.
Proof. intros H X. subst. apply H. reflexivity. Qed.
Lemma ext_add_not_PInf_r a b : ext_add a b <> PInf -> b <> PInf.
Proof. intros H X. subst. apply H. destruct a; reflexivity. Qed.
Lemma not_inf_not_PInf a : ext_is_inf a = false -> a <> PInf.
Proof. intros H X. subst. discriminate. Qed.

Section DecodeCost.
  Variables (S : stree) (c : costs) (rp : ret) (extended : bool) (total : fam -> nat).
  Hypothesis Hh : nn (c_hgt c).
  Notation tab := (utab S c rp extended total).
  Notation NNa := (utab_nn S c rp extended total Hh).

  (* a tag of a node cell: the optimiser's decomposition, and what it says about the kinds *)
  Lemma utag_facts a b k l r : rp <> RNONE ->
    In (l, r) (tags (uread (tab (ONode a b)) k)) ->
    let o := ONode a b in
    In (fst k) (uallowed S extended o) /\ In (fst l) (snodes S) /\ In (fst r) (snodes S) /\
    val (uread (tab o) k) =
      ext_add (uocost S c (fst k) (snd k) (uflag total o a) (uflag total o b) l r)
              (ext_add (val (uread (tab a) l)) (val (uread (tab b) r))) /\
    val (uread (tab o) k) <> PInf /\
    (snd k = false -> snd l = true -> uflag total o a = false) /\
    (snd k = false -> snd r = true -> uflag total o b = false).
  Proof.
    intros Hrp It o. unfold o. rewrite utab_node in It |- *.
    apply uread_node_tags in It as [Is It]; auto using utab_nn. cbv beta in It.
    destruct (ucell_tag_value S c rp _ _ _ _ _ _ Hh (NNa a) (NNa b) Hrp l r It) as [Il [Ir [F V]]].
    rewrite uread_node_val by (auto using utab_nn). cbv beta.
    apply not_inf_not_PInf in F.
    split; auto. split; auto. split; auto. split; auto. split; auto.
    rewrite V in F. apply ext_add_not_PInf_l in F. split.
    - apply ufc_FT. intros X. apply F. destruct r as [r kr]. now apply uocost_inf_l.
    - apply ufc_FT. intros X. apply F. destruct l as [l kl]. now apply uocost_inf_r.
  Qed.

  (** the decoded trees are canonical and, in the base variant, sit on the LCA mapping *)
  Theorem udecode_canon : forall o, leaves_ok S o -> bounded total o ->
    forall P k t, ucovers total P o -> In t (udecode (tab o) (annotate total o) k P) ->
    ucanon_under total P o t /\ (extended = false -> forget t = lca_rec o).
  Proof.
    induction o as [sp syn|a IHa b IHb]; intros L B P k t Cv H.
    - rewrite udecode_leaf in H. destruct (uassign_eqb_spec k (sp, false)) as [->|NE]; [|destruct H].
      destruct H as [<-|[]]. cbn. auto.
    - destruct L as [La Lb]. pose proof H as H0.
      apply udecode_node in H as [l [r [ta [tb [It [Ia [Ib ->]]]]]]].
      rewrite utab_node in It. apply uread_node_tags in It as [Is _]; auto using utab_nn.
      pose proof (bounded_l total a b B) as Ba. pose proof (bounded_r total a b B) as Bb.
      destruct (IHa La Ba _ l ta (ucontent_covers_l total P a b (snd k) B Cv) Ia) as [Ca Ra].
      destruct (IHb Lb Bb _ r tb (ucontent_covers_r total P a b (snd k) B Cv) Ib) as [Cb Rb].
      split.
      + cbn [ucanon_under lsyn]. split; [|split; auto]. unfold ucontent. destruct (snd k); auto.
      + intros X. cbn [forget lca_rec]. rewrite (Ra X), (Rb X). f_equal.
        unfold uallowed in Is. rewrite X in Is. destruct Is as [<-|[]]. reflexivity.
  Qed.

  Section Coherent.
    Hypothesis Hc : ucoherent c.
    Hypothesis Hrp : rp <> RNONE.

    (** inside the coherent region a decoded tree costs exactly the cell it was decoded from *)
    Theorem udecode_cost : forall o, leaves_ok S o -> bounded total o ->
      forall P k t, ucovers total P o -> ulow total P o -> uextra total P o (snd k) ->
      In t (udecode (tab o) (annotate total o) k P) ->
      ucost c o t = val (uread (tab o) k).
    Proof.
      induction o as [sp syn|a IHa b IHb]; intros L B P k t Cv Lw Ex H.
      - rewrite udecode_leaf in H. destruct (uassign_eqb_spec k (sp, false)) as [->|NE]; [|destruct H].
        destruct H as [<-|[]]. rewrite utab_leaf. cbn [uread]. rewrite uassign_eqb_refl. cbn [val].
        unfold ucost. cbn [forget cost ulab_spec]. rewrite path_eqb_refl. cbn [ext_add]. apply Fin_eq. lia.
      - pose proof H as H0. destruct L as [La Lb].
        apply udecode_node in H as [l [r [ta [tb [It [Ia [Ib ->]]]]]]].
        destruct (utag_facts a b k l r Hrp It) as [Is [Il [Ir [V [F [FTa FTb]]]]]].
        pose proof (bounded_l total a b B) as Ba. pose proof (bounded_r total a b B) as Bb.
        set (o := ONode a b) in *. set (y := ucontent total P o (snd k)) in *.
        assert (is_child o a) as Cha by (left; reflexivity). assert (is_child o b) as Chb by (right; reflexivity).
        pose proof (child_covers total P o a (snd k) Cha B Cv) as Cva.
        pose proof (child_covers total P o b (snd k) Chb B Cv) as Cvb.
        pose proof (child_low total P o a (snd k) Cha B Lw) as Lwa.
        pose proof (child_low total P o b (snd k) Chb B Lw) as Lwb.
        pose proof (child_extra total P o a (snd k) (snd l) Cha B Lw Ex FTa) as Exa.
        pose proof (child_extra total P o b (snd k) (snd r) Chb B Lw Ex FTb) as Exb.
        destruct (udecode_valid S c rp extended total Hh a La Ba y l ta Cva Ia) as [Va [Rta Yta]].
        destruct (udecode_valid S c rp extended total Hh b Lb Bb y r tb Cvb Ib) as [Vb [Rtb Ytb]].
        destruct (udecode_valid S c rp extended total Hh o (conj La Lb) B P k _ Cv H0) as [Vt _].
        destruct Vt as [_ [Ev _]].
        rewrite V. unfold o. rewrite (ucost_node c a b (fst k) y ta tb Ev).
        rewrite (IHa La Ba y l ta Cva Lwa Exa Ia), (IHb Lb Bb y r tb Cvb Lwb Exb Ib).
        f_equal. destruct l as [l kl], r as [r kr]. cbn [fst snd] in *. subst l r.
        symmetry. apply (canon_node_charge S c total Hc P a b (fst k) y ta tb (snd k) kl kr); auto.
    Qed.

    (** a finite cell decodes to something *)
    Theorem udecode_nonempty : forall o P k, val (uread (tab o) k) <> PInf ->
      udecode (tab o) (annotate total o) k P <> [].
    Proof.
      induction o as [sp syn|a IHa b IHb]; intros P k NE.
      - rewrite udecode_leaf. rewrite utab_leaf in NE. cbn [uread] in NE.
        destruct (uassign_eqb k (sp, false)); [discriminate|]. cbn in NE. congruence.
      - assert (In (fst k) (uallowed S extended (ONode a b))) as Is.
        { destruct (existsb (path_eqb (fst k)) (uallowed S extended (ONode a b))) eqn:E; [now apply existsb_path_In|].
          exfalso. apply NE. rewrite utab_node, uread_node_out; [reflexivity|]. intros I. apply existsb_path_In in I. congruence. }
        assert (exists l r, In (l, r) (tags (uread (tab (ONode a b)) k))) as [l [r It]].
        { rewrite utab_node in NE |- *. rewrite uread_node_val in NE by (auto using utab_nn). cbv beta in NE.
          destruct (ucell_finite_tag S c rp _ _ _ _ _ _ Hrp NE) as [l [r It]].
          exists l, r. apply uread_node_tags; auto using utab_nn. }
        destruct (utag_facts a b k l r Hrp It) as [_ [_ [_ [V [F _]]]]].
        rewrite V in F. apply ext_add_not_PInf_r in F.
        pose proof (ext_add_not_PInf_l _ _ F) as Fa. pose proof (ext_add_not_PInf_r _ _ F) as Fb.
        specialize (IHa (ucontent total P (ONode a b) (snd k)) l Fa).
        specialize (IHb (ucontent total P (ONode a b) (snd k)) r Fb).
        destruct (udecode (tab a) (annotate total a) l _) as [|ta da] eqn:Da; [congruence|].
        destruct (udecode (tab b) (annotate total b) r _) as [|tb db] eqn:Db; [congruence|].
        intros E.
        assert (In (LNode (fst k) (ucontent total P (ONode a b) (snd k)) ta tb)
                   (udecode (tab (ONode a b)) (annotate total (ONode a b)) k P)) as X.
        { apply udecode_node. exists l, r, ta, tb. rewrite Da, Db. repeat split; auto; now left. }
        rewrite E in X. destruct X.
    Qed.
  End Coherent.
End DecodeCost.

Lemma nn_guard_min (f : ext * nat * nat -> ext) l : (forall x, In x l -> nn (f x)) -> nn (minl f l).
Proof.
  induction l as [|y l IH]; intros H; simpl; [apply nn_PInf|].
  apply nn_min; [apply H; now left|apply IH; intros x Hx; apply H; now right].
Qed.

Lemma nn_uocost S c s kind la lb l r : nn (c_hgt c) -> nn (uocost S c s kind la lb l r).
Proof.
  intros Hh. unfold uocost. apply nn_guard_min. intros [[k i] j] I. cbn [fst snd].
  apply nn_guard. apply nn_add; [apply nn_add; [eapply ufams_nn; eauto|]|]; apply ucharge_nn.
Qed.

Section Complete.
  Variables (S : stree) (c : costs) (extended : bool) (total : fam -> nat).
  Hypothesis Hh : nn (c_hgt c).
  Hypothesis Hc : ucoherent c.
  Notation tab := (utab S c RALL extended total).
  Notation TV := (UTval S c extended total).

  Lemma UTval_nn o k : nn (TV o k).
  Proof. rewrite <- (utable_value S c RALL extended total Hh o RALL_not_none k). now apply utab_nn. Qed.

  (** under ALL every canonical valid labelling that is optimal for its own root key is decoded *)
  Theorem udecode_complete : forall o P t, leaves_ok S o ->
    bounded total o -> ucovers total P o -> ulow total P o ->
    uvalid_under S total P o t -> ucanon_under total P o t ->
    (extended = false -> forget t = lca_rec o) ->
    ucost c o t <> PInf -> ucost c o t = TV o (lroot t, kind_of total o t) ->
    In t (udecode (tab o) (annotate total o) (lroot t, kind_of total o t) P).
  Proof.
    induction o as [sp syn|a IHa b IHb]; intros P t L B Cv Lw V C Hb NE E.
    - destruct t as [s y|]; [|destruct V]. destruct V as [-> [Hs [-> _]]].
      rewrite udecode_leaf. unfold kind_of. cbn [lsyn annotate u_lca lroot].
      destruct (list_eq_dec N.eq_dec (set_of syn) (set_of syn)); [|congruence].
      rewrite uassign_eqb_refl. now left.
    - destruct t as [|s y ta tb]; [destruct V|]. destruct L as [La Lb].
      pose proof V as V0. destruct V as [Hs [Ev [Sy [Fr [Va Vb]]]]]. pose proof C as C0. destruct C as [_ [Ca Cb]].
      set (o := ONode a b) in *. set (kind := kind_of total o (LNode s y ta tb)) in *.
      pose proof (canon_content total P o _ C0) as Ey. cbn [lsyn] in Ey. fold kind in Ey.
      pose proof (canon_extra total P o _ B Cv C0) as Ex. fold kind in Ex.
      assert (is_child o a) as Cha by (left; reflexivity). assert (is_child o b) as Chb by (right; reflexivity).
      pose proof (canon_content total y a ta Ca) as Ea. pose proof (canon_content total y b tb Cb) as Eb.
      set (kl := kind_of total a ta) in *. set (kr := kind_of total b tb) in *.
      assert (kind = false -> kl = true -> uflag total o a = false) as FTa.
      { intros K1 K2. apply (canon_FT total P o a (LNode s y ta tb) ta Cha B); auto. fold kind. now rewrite <- Ey. }
      assert (kind = false -> kr = true -> uflag total o b = false) as FTb.
      { intros K1 K2. apply (canon_FT total P o b (LNode s y ta tb) tb Chb B); auto. fold kind. now rewrite <- Ey. }
      pose proof (uvalid_root_valid _ _ _ _ _ Va) as Rl. pose proof (uvalid_root_valid _ _ _ _ _ Vb) as Rr.
      apply snodes_valid in Rl, Rr.
      assert (In s (uallowed S extended o)) as Is.
      { unfold uallowed. destruct extended; [now apply snodes_valid|].
        specialize (Hb eq_refl). cbn [forget lca_rec] in Hb. injection Hb as -> _ _. now left. }
      pose proof (bounded_l total a b B) as Ba. pose proof (bounded_r total a b B) as Bb.
      pose proof (child_covers total P o a kind Cha B Cv) as Cva. pose proof (child_covers total P o b kind Chb B Cv) as Cvb.
      pose proof (child_low total P o a kind Cha B Lw) as Lwa. pose proof (child_low total P o b kind Chb B Lw) as Lwb.
      assert (extended = false -> forget ta = lca_rec a) as Hba.
      { intros X. specialize (Hb X). cbn [forget lca_rec] in Hb. now injection Hb as _ ? _. }
      assert (extended = false -> forget tb = lca_rec b) as Hbb.
      { intros X. specialize (Hb X). cbn [forget lca_rec] in Hb. now injection Hb as _ _ ?. }
      set (l := lroot ta) in *. set (r := lroot tb) in *.
      set (oc := uocost S c s kind (uflag total o a) (uflag total o b) (l, kl) (r, kr)).
      assert (ucost c o (LNode s y ta tb) = ext_add oc (ext_add (ucost c a ta) (ucost c b tb))) as Ecost.
      { unfold o. rewrite (ucost_node c a b s y ta tb Ev). f_equal. symmetry.
        apply (canon_node_charge S c total Hc P a b s y ta tb kind kl kr); auto. }
      rewrite <- Ey in *.
      pose proof (UTval_lower S c extended total Hc a y ta Ba Cva Lwa Va Ca Hba) as La'.
      pose proof (UTval_lower S c extended total Hc b y tb Bb Cvb Lwb Vb Cb Hbb) as Lb'.
      fold l kl in La'. fold r kr in Lb'.
      cbn [lroot] in E |- *.
      assert (TV o (s, kind) = unode_val S c (uflag total o a) (uflag total o b) (TV a) (TV b) s kind) as ETV.
      { unfold o. cbn [UTval fst snd]. apply existsb_path_In in Is. unfold o in Is. now rewrite Is. }
      assert (ele (TV o (s, kind)) (ext_add oc (ext_add (TV a (l, kl)) (TV b (r, kr))))) as LB.
      { rewrite ETV. unfold unode_val.
        eapply ele_trans; [apply (minl_le _ (ukeys S) (l, kl)); now apply In_ukeys|]. cbv beta.
        apply (minl_le (fun r0 => ext_add (uocost S c s kind (uflag total o a) (uflag total o b) (l, kl) r0)
                                   (ext_add (TV a (l, kl)) (TV b r0))) (ukeys S) (r, kr)). now apply In_ukeys. }
      assert (ext_add oc (ext_add (TV a (l, kl)) (TV b (r, kr))) = ext_add oc (ext_add (ucost c a ta) (ucost c b tb))) as Eq.
      { apply ele_antisym.
        - apply ext_add_mono; [apply ele_refl|apply ext_add_mono; auto].
        - rewrite <- Ecost, E. exact LB. }
      destruct (ext_sum_tight2 _ _ _ _ _ (nn_uocost S c s kind _ _ (l, kl) (r, kr) Hh) (UTval_nn a (l, kl)) (UTval_nn b (r, kr))
                  La' Lb' Eq) as [Eqa Eqb].
      { intros X. apply NE. rewrite Ecost. exact X. }
      assert (ucost c a ta <> PInf /\ ucost c b tb <> PInf) as [Fa Fb].
      { rewrite Ecost in NE. apply ext_add_not_PInf_r in NE. split; [eapply ext_add_not_PInf_l|eapply ext_add_not_PInf_r]; eauto. }
      pose proof (IHa y ta La Ba Cva Lwa Va Ca Hba Fa (eq_sym Eqa)) as Da.
      pose proof (IHb y tb Lb Bb Cvb Lwb Vb Cb Hbb Fb (eq_sym Eqb)) as Db.
      fold l kl in Da. fold r kr in Db.
      apply udecode_node. exists (l, kl), (r, kr), ta, tb. cbn [fst snd]. fold o. rewrite <- Ey.
      split; [|repeat split; auto].
      unfold o. rewrite utab_node. fold o. apply uread_node_tags; auto using utab_nn. split; [exact Is|]. cbv beta. cbn [fst snd].
      assert (val (ucell S c RALL (tab a) (tab b) (uflag total o a) (uflag total o b) s kind) = TV o (s, kind)) as CV.
      { rewrite <- (utable_value S c RALL extended total Hh o RALL_not_none (s, kind)). unfold o.
        rewrite utab_node, uread_node_val by (auto using utab_nn). reflexivity. }
      apply ucell_tag_complete; auto using utab_nn.
      + rewrite CV, <- E. exact NE.
      + rewrite CV, <- E, Ecost. cbn [fst snd].
        rewrite !(utable_value S c RALL extended total Hh _ RALL_not_none). now rewrite Eqa, Eqb.
  Qed.
End Complete.

(** * part 8: [uspfs] returns the minimum-cost canonical solutions *)

(* canonical solutions: valid, canonical, and (base variant) on the LCA species mapping *)
Definition usol (S : stree) (extended : bool) (O : otree) (t : ltree) : Prop :=
  uvalid S O t /\ ucanon_under (ototal O) [] O t /\ (extended = false -> forget t = lca_rec O).
Definition uoptimal (S : stree) (c : costs) (extended : bool) (O : otree) (t : ltree) : Prop :=
  usol S extended O t /\ forall t', usol S extended O t' -> ele (ucost c O t) (ucost c O t').

(* at the root, LCA set and gain set coincide *)
Lemma root_lca_gain O : u_lca (annotate_top O) = u_gain (annotate_top O).
Proof.
  unfold annotate_top. fold (ototal O).
  apply ssorted_ext; [apply ssorted_u_lca|apply ssorted_u_gain|].
  intros f. rewrite (In_u_lca (ototal O) O (ototal_bounded O)), In_u_gain, gained_here_eq.
  unfold ototal at 2. rewrite Nat.eqb_refl. reflexivity.
Qed.

Lemma root_kind O t : ucanon_under (ototal O) [] O t -> kind_of (ototal O) O t = false.
Proof.
  intros C. apply ucanon_head in C. unfold kind_of.
  destruct (list_eq_dec N.eq_dec (lsyn t) (u_lca (annotate (ototal O) O))) as [|NE]; auto.
  exfalso. apply NE. destruct C as [C|C]; auto. rewrite C. symmetry. apply (root_lca_gain O).
Qed.

(** the all-LCA labelling of the LCA reconciliation: a canonical solution of finite cost *)
Fixpoint lca_lab (total : fam -> nat) (o : otree) : ltree :=
  match o with
  | OLeaf sp syn => LLeaf sp (set_of syn)
  | ONode a b =>
      LNode (lcp (lroot (lca_lab total a)) (lroot (lca_lab total b))) (u_lca (annotate total o))
            (lca_lab total a) (lca_lab total b)
  end.

Lemma lca_lab_forget total o : forget (lca_lab total o) = lca_rec o.
Proof.
  induction o as [sp syn|a IHa b IHb]; [reflexivity|]. cbn [lca_lab forget lca_rec].
  rewrite <- !forget_root, IHa, IHb. reflexivity.
Qed.

Lemma lca_lab_canon total : forall o P, ucanon_under total P o (lca_lab total o).
Proof. induction o as [sp syn|a IHa b IHb]; intros P; cbn [lca_lab ucanon_under lsyn]; auto. Qed.

Lemma lca_lab_valid S total : forall o P, leaves_ok S o -> bounded total o -> ucovers total P o ->
  uvalid_under S total P o (lca_lab total o).
Proof.
  induction o as [sp syn|a IHa b IHb]; intros P L B Cv.
  - cbn [lca_lab uvalid_under]. repeat split; auto.
    apply (ucontent_from total P (OLeaf sp syn) false B Cv).
  - pose proof (lca_valid S (ONode a b) L) as [V _]. rewrite <- (lca_lab_forget total) in V.
    cbn [lca_lab forget] in V. inversion V as [|? ? ? ? ? Hs Ev _ _]; subst. rewrite !forget_root in Ev.
    destruct L as [La Lb]. cbn [lca_lab uvalid_under]. repeat split; auto.
    + apply ssorted_u_lca.
    + apply (ucontent_from total P (ONode a b) false B Cv).
    + apply IHa; auto; [eapply bounded_l; eauto|]. apply (ucontent_covers_l total P a b false B Cv).
    + apply IHb; auto; [eapply bounded_r; eauto|]. apply (ucontent_covers_r total P a b false B Cv).
Qed.

Lemma fin_of_le' a z : nn a -> ele a (Fin z) -> a <> PInf.
Proof. unfold nn, ele. destruct a; simpl; congruence. Qed.

Lemma ucost_nn c O t : nn (c_hgt c) -> nn (ucost c O t).
Proof. intros Hh. unfold ucost. apply nn_add; [now apply cost_nn|apply nn_Fin]. Qed.

Section UFinal.
  Variables (S : stree) (c : costs) (extended : bool) (O : otree).
  Hypothesis Hh : nn (c_hgt c).
  Hypothesis Hc : ucoherent c.
  Hypothesis L : leaves_ok S O.
  Notation total := (ototal O).

  Lemma ufinite_sol_exists : exists t z, usol S extended O t /\ ucost c O t = Fin z.
  Proof.
    exists (lca_lab total O). destruct (lca_valid S O L) as [V N].
    exists (costDL c (lca_rec O) + c_sloss c * ulab_spec (lca_lab total O)). split.
    - split; [|split].
      + apply lca_lab_valid; auto using ototal_bounded, root_covers.
      + apply lca_lab_canon.
      + intros _. apply lca_lab_forget.
    - unfold ucost. rewrite lca_lab_forget, (cost_costDL c S O _ V N). reflexivity.
  Qed.

  Lemma ulow_nil o : ulow total [] o. Proof. intros f []. Qed.
  Lemma uextra_false P o : uextra total P o false. Proof. intros X. discriminate. Qed.

  Section Policy.
    Variable rp : ret.
    Hypothesis Hrp : rp <> RNONE.
    Notation tab := (utab S c rp extended total O).
    Notation cands := (uspfs_cands S c rp extended O).
    Notation E := (update ltree_eqb MIN rp (default_entry MIN) cands).
    Notation dec s := (udecode tab (annotate_top O) (s, false) (u_lca (annotate_top O))).

    Lemma dec_eq s : dec s = udecode tab (annotate total O) (s, false) [].
    Proof. apply udecode_root_anc. Qed.

    (* what a decoded root tree is *)
    Lemma dec_sol s t : In t (dec s) ->
      usol S extended O t /\ lroot t = s /\ ucost c O t = val (uread tab (s, false)).
    Proof.
      rewrite dec_eq. intros H.
      destruct (udecode_valid S c rp extended total Hh O L (ototal_bounded O) [] (s, false) t (root_covers O []) H)
        as [V [R _]].
      destruct (udecode_canon S c rp extended total Hh O L (ototal_bounded O) [] (s, false) t (root_covers O []) H)
        as [C B].
      split; [split; auto|]. split; auto.
      apply (udecode_cost S c rp extended total Hh Hc Hrp O L (ototal_bounded O) [] (s, false) t);
        auto using root_covers, ulow_nil, uextra_false.
    Qed.

    Lemma usol_lower t : usol S extended O t -> ele (UTval S c extended total O (lroot t, false)) (ucost c O t).
    Proof.
      intros [V [C B]]. rewrite <- (root_kind O t C).
      apply (UTval_lower S c extended total Hc O [] t); auto using ototal_bounded, root_covers, ulow_nil.
    Qed.

    Lemma usol_root_in t : usol S extended O t -> In (lroot t) (snodes S).
    Proof. intros [V _]. apply snodes_valid. eapply uvalid_root_valid; eauto. Qed.

    (* every canonical solution is matched by a candidate that costs no more *)
    Lemma ucandidate_below t' : usol S extended O t' -> ucost c O t' <> PInf ->
      exists x, In (ucost c O x, Some x) cands /\ ele (ucost c O x) (ucost c O t').
    Proof.
      intros Sol NE. pose proof (usol_lower t' Sol) as LB. pose proof (usol_root_in t' Sol) as Ir.
      assert (val (uread tab (lroot t', false)) <> PInf) as NT.
      { rewrite (utable_value S c rp extended total Hh O Hrp). intros X. rewrite X in LB.
        apply NE. now apply ele_PInf_inv. }
      pose proof (udecode_nonempty S c rp extended total Hh Hrp O [] _ NT) as ND. rewrite <- dec_eq in ND.
      destruct (dec (lroot t')) as [|x dx] eqn:D; [congruence|].
      assert (In x (dec (lroot t'))) as Ix by (rewrite D; now left).
      destruct (dec_sol _ _ Ix) as [_ [_ Cx]].
      exists x. split.
      - apply in_uspfs_cands. exists (lroot t'). auto.
      - rewrite Cx, (utable_value S c rp extended total Hh O Hrp). exact LB.
    Qed.

    Lemma uentry_value_finite : val E <> PInf.
    Proof.
      destruct ufinite_sol_exists as [t1 [z [S1 C1]]].
      destruct (ucandidate_below t1 S1) as [x [Ix Lx]]; [rewrite C1; discriminate|].
      pose proof (upd_le ltree_eqb rp _ _ _ Ix) as Lv.
      rewrite C1 in Lx. apply (fin_of_le' _ z).
      - apply upd_nn. intros w ot I. destruct (uspfs_cands_some _ _ _ _ _ _ _ I) as [y ->].
        apply in_uspfs_cands in I as [_ [_ [_ ->]]]. now apply ucost_nn.
      - eapply ele_trans; eauto.
    Qed.

    (* a candidate achieving the entry's value is an optimal canonical solution *)
    Lemma ubest_candidate_optimal x : In (val E, Some x) cands -> uoptimal S c extended O x.
    Proof.
      intros I. pose proof I as I0. apply in_uspfs_cands in I as [s [Is [Ix Ev]]].
      destruct (dec_sol s x Ix) as [Sx _]. split; auto.
      intros t' S'. destruct (ext_eqb (ucost c O t') PInf) eqn:Ep.
      - apply ext_eqb_eq in Ep. rewrite Ep. apply ele_PInf.
      - assert (ucost c O t' <> PInf) as NE by (intros X; rewrite X in Ep; discriminate).
        destruct (ucandidate_below t' S' NE) as [y [Iy Ly]].
        rewrite <- Ev. eapply ele_trans; [|exact Ly].
        exact (upd_le ltree_eqb rp _ _ _ Iy).
    Qed.
  End Policy.

  (** ALL: exactly the minimum-cost canonical solutions, each once *)
  Theorem uspfs_all_exact : exists E, uspfs S c RALL extended O = Some E /\ NoDup (tags E) /\
    forall t, In t (tags E) <-> uoptimal S c extended O t.
  Proof.
    eexists. split; [apply (uspfs_some S c RALL extended O Hh L)|].
    split; [apply (entry_tags_all_nodup ltree_eqb ltree_eqb_spec)|]. intros t. split.
    - intros H. apply (ubest_candidate_optimal RALL RALL_not_none).
      now apply (upd_tags_sound ltree_eqb ltree_eqb_spec) in H.
    - intros [Sol Opt]. pose proof Sol as [V [C B]].
      destruct ufinite_sol_exists as [t1 [z [S1 C1]]].
      assert (ucost c O t <> PInf) as NE.
      { apply (fin_of_le' _ z); [now apply ucost_nn|]. rewrite <- C1. now apply Opt. }
      pose proof (usol_root_in t Sol) as Ir.
      (* optimal overall, hence optimal for its own root *)
      assert (ucost c O t = UTval S c extended total O (lroot t, false)) as ET.
      { apply ele_antisym; [|now apply usol_lower].
        assert (val (uread (utab S c RALL extended total O) (lroot t, false)) <> PInf) as NT.
        { rewrite (utable_value S c RALL extended total Hh O RALL_not_none). intros X.
          pose proof (usol_lower t Sol) as LB. rewrite X in LB. apply NE. now apply ele_PInf_inv. }
        pose proof (udecode_nonempty S c RALL extended total Hh RALL_not_none O [] _ NT) as ND.
        rewrite <- (dec_eq RALL) in ND.
        destruct (udecode _ _ _ _) as [|x dx] eqn:D; [congruence|].
        assert (In x (udecode (utab S c RALL extended total O) (annotate_top O) (lroot t, false) (u_lca (annotate_top O)))) as Ix
          by (rewrite D; now left).
        destruct (dec_sol RALL RALL_not_none _ _ Ix) as [Sx [_ Cx]].
        rewrite <- (utable_value S c RALL extended total Hh O RALL_not_none), <- Cx. now apply Opt. }
      assert (In t (udecode (utab S c RALL extended total O) (annotate_top O) (lroot t, false) (u_lca (annotate_top O)))) as Dt.
      { rewrite (dec_eq RALL). rewrite <- (root_kind O t C) in ET |- *.
        apply (udecode_complete S c extended total Hh Hc O [] t L); auto using ototal_bounded, root_covers, ulow_nil. }
      assert (In (ucost c O t, Some t) (uspfs_cands S c RALL extended O)) as Ic.
      { apply in_uspfs_cands. exists (lroot t). auto. }
      apply (upd_tags_complete ltree_eqb ltree_eqb_spec).
      replace (val (update ltree_eqb MIN RALL (default_entry MIN) (uspfs_cands S c RALL extended O))) with (ucost c O t); auto.
      apply ele_antisym; [|exact (upd_le ltree_eqb RALL _ _ _ Ic)].
      pose proof (uentry_value_finite RALL RALL_not_none) as NV.
      destruct (upd_attained ltree_eqb RALL _ NV) as [ot Io].
      destruct (uspfs_cands_some _ _ _ _ _ _ _ Io) as [y ->].
      destruct (ubest_candidate_optimal RALL RALL_not_none y Io) as [Sy _].
      pose proof Io as Io'. apply in_uspfs_cands in Io' as [_ [_ [_ Ev]]].
      rewrite Ev. now apply Opt.
  Qed.

  (** ANY: exactly one solution, and it is a minimum-cost canonical one *)
  Theorem uspfs_any : exists E t, uspfs S c RANY extended O = Some E /\ tags E = [t] /\ uoptimal S c extended O t.
  Proof.
    assert (RANY <> RNONE) as N by discriminate.
    eexists. pose proof (uentry_value_finite RANY N) as NV.
    destruct (upd_attained ltree_eqb RANY _ NV) as [ot Io].
    destruct (uspfs_cands_some _ _ _ _ _ _ _ Io) as [y ->].
    destruct (entry_tags_any ltree_eqb MIN (uspfs_cands S c RANY extended O)) as [[_ No]|[t [Et It]]].
    - exfalso. eapply No. exact Io.
    - exists t. split; [apply (uspfs_some S c RANY extended O Hh L)|]. split; [exact Et|].
      now apply (ubest_candidate_optimal RANY N).
  Qed.

  (** the value of the returned entry is the cost of its solutions: the minimum over the canonical solutions *)
  Theorem uspfs_value rp E : rp <> RNONE -> uspfs S c rp extended O = Some E ->
    exists t, uoptimal S c extended O t /\ val E = ucost c O t.
  Proof.
    intros Hrp. rewrite (uspfs_some S c rp extended O Hh L). intros [= <-].
    pose proof (uentry_value_finite rp Hrp) as NV.
    destruct (upd_attained ltree_eqb rp _ NV) as [ot Io].
    destruct (uspfs_cands_some _ _ _ _ _ _ _ Io) as [y ->].
    exists y. split; [now apply (ubest_candidate_optimal rp Hrp)|].
    apply in_uspfs_cands in Io as [_ [_ [_ Ev]]]. exact Ev.
  Qed.

  Corollary uspfs_all_nonempty : exists E, uspfs S c RALL extended O = Some E /\ tags E <> [].
  Proof.
    eexists. split; [apply (uspfs_some S c RALL extended O Hh L)|].
    pose proof (uentry_value_finite RALL RALL_not_none) as NV.
    destruct (upd_attained ltree_eqb RALL _ NV) as [ot Io].
    destruct (uspfs_cands_some _ _ _ _ _ _ _ Io) as [y ->].
    apply (upd_tags_nonempty ltree_eqb ltree_eqb_spec RALL _ y RALL_not_none Io).
  Qed.
End UFinal.

(** * part 9: canonical labellings suffice *)

Lemma lt_total_top total o f : (carriers f o < total f)%nat -> top total o f = true.
Proof.
  destruct o as [sp syn|a b]; cbn [top carriers]; auto. intros H.
  apply andb_true_iff. split; apply Nat.ltb_lt; lia.
Qed.

(* a valid labelling holds, at every node, at least the LCA set *)
Lemma uvalid_has_lca S total : forall o P t, bounded total o -> uvalid_under S total P o t ->
  forall f, needed_here total o f = true -> In f (lsyn t).
Proof.
  induction o as [sp syn|a IHa b IHb]; intros P t B V f N.
  - destruct t as [s y|]; [|destruct V]. destruct V as [_ [_ [-> _]]]. cbn [lsyn].
    change (set_of syn) with (u_lca (annotate total (OLeaf sp syn))). now apply (In_u_lca total _ B).
  - destruct t as [|s y ta tb]; [destruct V|]. destruct V as [_ [_ [_ [_ [Va Vb]]]]]. cbn [lsyn].
    pose proof (bounded_l total a b B) as Ba. pose proof (bounded_r total a b B) as Bb.
    unfold needed_here in N. cbn [carriers top] in N. apply andb_true_iff in N as [N0 N]. apply andb_true_iff in N as [N1 N2].
    apply Nat.ltb_lt in N0, N1, N2.
    assert ((0 < carriers f a)%nat \/ (0 < carriers f b)%nat) as [Pa|Pb] by lia.
    + assert (needed_here total a f = true) as Na.
      { unfold needed_here. apply andb_true_iff. split; [now apply Nat.ltb_lt|now apply lt_total_top]. }
      pose proof (IHa y ta Ba Va f Na) as I.
      assert (In f y \/ gained_here total a f = true) as [H|H]; auto.
      { destruct a, ta; simpl in Va; try contradiction; [destruct Va as [_ [_ [_ Fr]]]|destruct Va as [_ [_ [_ [Fr _]]]]]; apply Fr; exact I. }
      rewrite gained_here_eq in H. apply andb_true_iff in H as [H _]. apply Nat.eqb_eq in H. lia.
    + assert (needed_here total b f = true) as Nb.
      { unfold needed_here. apply andb_true_iff. split; [now apply Nat.ltb_lt|now apply lt_total_top]. }
      pose proof (IHb y tb Bb Vb f Nb) as I.
      assert (In f y \/ gained_here total b f = true) as [H|H]; auto.
      { destruct b, tb; simpl in Vb; try contradiction; [destruct Vb as [_ [_ [_ Fr]]]|destruct Vb as [_ [_ [_ [Fr _]]]]]; apply Fr; exact I. }
      rewrite gained_here_eq in H. apply andb_true_iff in H as [H _]. apply Nat.eqb_eq in H. lia.
Qed.

(** top-down canonicalisation: [P] the original content of the parent, [P'] its canonical content.
    An edge that was lossless stays lossless (the node inherits), any other node falls back to its
    LCA set; leaves keep their synteny *)
Fixpoint ucanonize (total : fam -> nat) (P P' : list fam) (o : otree) (t : ltree) : ltree :=
  match o, t with
  | ONode a b, LNode s y ta tb =>
      let y' := if subset P y then set_union P' (u_gain (annotate total o)) else u_lca (annotate total o) in
      LNode s y' (ucanonize total y y' a ta) (ucanonize total y y' b tb)
  | _, _ => t
  end.

Lemma ucharge_ev_mono e xa xb xa' xb' : xa' <= xa -> xb' <= xb -> ucharge_ev e xa' xb' <= ucharge_ev e xa xb.
Proof. destruct e; simpl; lia. Qed.

Lemma lossy_le P C P' C' : (subset P C = true -> subset P' C' = true) -> lossy P' C' <= lossy P C.
Proof. unfold lossy. intros H. destruct (subset P C); [rewrite H by auto; lia|destruct (subset P' C'); lia]. Qed.

Section Canon.
  Variables (S : stree) (total : fam -> nat).

  Theorem ucanon_ok : forall o t P P',
    bounded total o -> uvalid_under S total P o t ->
    (forall f, In f P' -> In f P) -> ucovers total P' o ->
    let t' := ucanonize total P P' o t in
    uvalid_under S total P' o t' /\ ucanon_under total P' o t' /\
    (forall f, In f (lsyn t') -> In f (lsyn t)) /\
    (subset P (lsyn t) = true -> subset P' (lsyn t') = true) /\
    forget t' = forget t /\ ulab_spec t' <= ulab_spec t.
  Proof.
    induction o as [sp syn|a IHa b IHb]; intros t P P' B V HP Cv t'.
    - destruct t as [s y|]; [|destruct V]. subst t'. cbn [ucanonize]. pose proof V as V0.
      destruct V as [-> [Hs [-> Fr]]]. repeat split; auto.
      + apply (ucontent_from total P' (OLeaf sp syn) false B Cv).
      + cbn [lsyn]. intros Sb. apply subset_spec. intros f Hf. apply (proj1 (subset_spec _ _) Sb). auto.
      + lia.
    - destruct t as [|s y ta tb]; [destruct V|]. pose proof V as V0. destruct V as [Hs [Ev [Sy [Fr [Va Vb]]]]].
      pose proof (bounded_l total a b B) as Ba. pose proof (bounded_r total a b B) as Bb.
      subst t'. cbn [ucanonize]. set (o := ONode a b) in *.
      set (y' := if subset P y then set_union P' (u_gain (annotate total o)) else u_lca (annotate total o)).
      assert (forall f, needed_here total o f = true -> In f y) as HasLca.
      { intros f N. apply (uvalid_has_lca S total o P _ B V0 f N). }
      assert (forall f, needed_here total o f = true -> In f y') as R1.
      { intros f N. unfold y'. destruct (subset P y).
        - apply (ucontent_has_lca total P' o true B Cv f N).
        - now apply (In_u_lca total o B). }
      assert (forall f, In f y' -> In f y) as R2.
      { intros f. unfold y'. destruct (subset P y) eqn:Sb.
        - rewrite In_set_union, In_u_gain. intros [H|H].
          + apply (proj1 (subset_spec _ _) Sb). auto.
          + apply HasLca. now apply gained_needed.
        - rewrite (In_u_lca total o B). apply HasLca. }
      assert (forall f, In f y' -> In f P' \/ gained_here total o f = true) as R3.
      { intros f. unfold y'. destruct (subset P y).
        - apply (ucontent_from total P' o true B Cv).
        - apply (ucontent_from total P' o false B Cv). }
      assert (ssorted y') as Sy'.
      { unfold y'. destruct (subset P y); [apply ssorted_set_union, ssorted_u_gain|apply ssorted_u_lca]. }
      assert (ucovers total y' a) as Cva.
      { intros f N G. apply R1. eapply needed_child_l; eauto. }
      assert (ucovers total y' b) as Cvb.
      { intros f N G. apply R1. eapply needed_child_r; eauto. }
      destruct (IHa ta y y' Ba Va R2 Cva) as [A1 [A2 [A3 [A4 [A5 A6]]]]].
      destruct (IHb tb y y' Bb Vb R2 Cvb) as [B1 [B2 [B3 [B4 [B5 B6]]]]].
      assert (lroot (ucanonize total y y' a ta) = lroot ta) as RA by (rewrite <- !forget_root; now rewrite A5).
      assert (lroot (ucanonize total y y' b tb) = lroot tb) as RB by (rewrite <- !forget_root; now rewrite B5).
      split; [|split; [|split; [|split; [|split]]]].
      + unfold o. cbn [uvalid_under]. fold o. rewrite RA, RB. repeat split; auto.
      + unfold o. cbn [ucanon_under lsyn]. fold o. split; [|split; auto]. unfold y'. destruct (subset P y); auto.
      + cbn [lsyn]. exact R2.
      + cbn [lsyn]. intros Sb. unfold y'. rewrite Sb. apply subset_spec. intros f Hf. apply In_set_union. auto.
      + cbn [forget]. now rewrite A5, B5.
      + cbn [ulab_spec]. rewrite RA, RB, !ulab_node_charge.
        pose proof (ucharge_ev_mono (event s (lroot ta) (lroot tb)) _ _ _ _ (lossy_le _ _ _ _ A4) (lossy_le _ _ _ _ B4)).
        lia.
  Qed.
End Canon.

(** for every valid labelling there is a canonical one on the same species mapping that costs no more *)
Theorem canonical_suffices S c O t : 0 <= c_sloss c -> uvalid S O t ->
  exists t', uvalid S O t' /\ ucanon_under (ototal O) [] O t' /\ forget t' = forget t /\
             ele (ucost c O t') (ucost c O t).
Proof.
  intros Hs V. exists (ucanonize (ototal O) [] [] O t).
  destruct (ucanon_ok S (ototal O) O t [] [] (ototal_bounded O) V (fun f H => H) (root_covers O []))
    as [V' [C' [_ [_ [F' L']]]]].
  repeat split; auto. unfold ucost. rewrite F'.
  apply ext_add_mono; [apply ele_refl|]. apply ele_Fin. nia.
Qed.

(** the returned cost is the minimum over ALL valid labellings (extended variant: over every
    species mapping; base variant: over the labellings of the LCA reconciliation) *)
Definition uall_sol (S : stree) (extended : bool) (O : otree) (t : ltree) : Prop :=
  uvalid S O t /\ (extended = false -> forget t = lca_rec O).

Theorem superdtl_optimum S c rp extended O E :
  nn (c_hgt c) -> ucoherent c -> leaves_ok S O -> rp <> RNONE ->
  uspfs S c rp extended O = Some E ->
  (exists t, uall_sol S extended O t /\ val E = ucost c O t) /\
  (forall t, uall_sol S extended O t -> ele (val E) (ucost c O t)).
Proof.
  intros Hh Hc L Hrp HE.
  destruct (uspfs_value S c extended O Hh Hc L rp E Hrp HE) as [x [[Sx Opt] Ev]]. split.
  - exists x. split; auto. destruct Sx as [V [_ B]]. split; auto.
  - intros t [V B]. destruct Hc as [Hf [Hs Hco]].
    destruct (canonical_suffices S c O t Hs V) as [t' [V' [C' [F' Le]]]].
    rewrite Ev. eapply ele_trans; [apply Opt|exact Le].
    split; [exact V'|]. split; [exact C'|]. intros X. rewrite F'. auto.
Qed.

(* every returned solution is optimal among all valid labellings *)
Corollary superdtl_solutions_optimal S c rp extended O E t :
  nn (c_hgt c) -> ucoherent c -> leaves_ok S O -> rp <> RNONE ->
  uspfs S c rp extended O = Some E -> In t (tags E) ->
  uall_sol S extended O t /\ forall t', uall_sol S extended O t' -> ele (ucost c O t) (ucost c O t').
Proof.
  intros Hh Hc L Hrp HE It.
  destruct (superdtl_optimum S c rp extended O E Hh Hc L Hrp HE) as [_ Min].
  pose proof HE as HE'. rewrite (uspfs_some S c rp extended O Hh L) in HE'. injection HE' as <-.
  apply (upd_tags_sound ltree_eqb ltree_eqb_spec) in It. pose proof It as It'.
  apply in_uspfs_cands in It' as [s [_ [Dt Ev]]].
  destruct (dec_sol S c extended O Hh Hc L rp Hrp s t Dt) as [[V [_ B]] _].
  split; [split; auto|]. intros t' S'. rewrite <- Ev. now apply Min.
Qed.

(** * summary statements, region, witnesses *)

(* the region stated in the property text is inside the one needed by the proofs *)
Lemma ucoherent_of_strong c :
  0 <= c_floss c -> 0 <= c_sloss c -> c_spe c + 2 * c_sloss c <= c_dup c + 2 * c_floss c -> ucoherent c.
Proof. intros H1 H2 H3. unfold ucoherent. repeat split; lia. Qed.

(** outside the region the optimiser and the evaluator disagree on one node: a speciation
    below an INHERIT node with one lossy edge is priced as a duplication (no full loss to pay
    when [c_floss = 0]) whose free copy absorbs the segmental loss *)
Example uincoherent_step :
  let c := {| c_spe := 0; c_dup := 0; c_hgt := PInf; c_floss := 0; c_sloss := 1 |} in
  let S := SNode SLeaf SLeaf in
  c_spe c <= c_dup c + 2 * c_floss c /\ ~ ucoherent c /\
  uocost S c [] true false false ([false], false) ([true], true) = Fin 0 /\
  ext_add (ecost c [] [false] [true]) (Fin (c_sloss c * ucharge_ev (event [] [false] [true]) 1 0)) = Fin 1.
Proof.
  cbv zeta. split; [simpl; lia|]. split; [unfold ucoherent; simpl; lia|]. split; vm_compute; reflexivity.
Qed.

(** C04, every clause: the solver returns an entry, and each labelled tree in it has the shape of
    the object tree, leaves on their species with exactly their sorted input syntenies, sorted
    syntenies everywhere, species of [S], no invalid event (so the evaluator's assertion holds),
    and every family confined to the subtree of its gain node, contiguously *)
Theorem uspfs_valid_full S c rp extended O : nn (c_hgt c) -> leaves_ok S O ->
  exists E, uspfs S c rp extended O = Some E /\
    forall t, In t (tags E) ->
      uvalid S O t /\ ushape O t /\ all_sorted t /\ valid_rec S O (forget t) /\ events_valid t /\
      total_cost c O false t = Some (ucost c O t) /\
      (forall p tp f, lsub t p = Some tp -> In f (lsyn tp) ->
         exists g, anc g p = true /\ is_lca_of_carriers O f g /\ holds_on t f g p).
Proof.
  intros Hh L. eexists. split; [apply (uspfs_some S c rp extended O Hh L)|]. intros t It.
  destruct (uspfs_valid S c rp extended O Hh L _ t (uspfs_some S c rp extended O Hh L) It) as [V TC].
  split; auto. split; [eapply uvalid_shape_leaves; eauto|]. split; [eapply uvalid_sorted; eauto|].
  split; [eapply uvalid_valid_rec; eauto|]. split; [eapply uvalid_events; eauto|]. split; auto.
  now apply (uvalid_scope S).
Qed.

(* non-vacuity: the instance of the design notes, object ((g2,g4),((g1,g5),(g0,g3))) *)
Example uspfs_example :
  let S := SNode (SNode SLeaf SLeaf) (SNode SLeaf SLeaf) in
  let O := ONode (ONode (OLeaf [false;false] [1]%N) (OLeaf [false;true] [3]%N))
                 (ONode (ONode (OLeaf [true;false] [2;4]%N) (OLeaf [true;true] [2]%N))
                        (ONode (OLeaf [false;false] [1]%N) (OLeaf [true;false] [4]%N))) in
  let c := {| c_spe := 0; c_dup := 1; c_hgt := Fin 1; c_floss := 1; c_sloss := 1 |} in
  nn (c_hgt c) /\ ucoherent c /\ leaves_ok S O /\
  option_map val (uspfs S c RALL true O) = Some (Fin 5) /\
  option_map (fun e => length (tags e)) (uspfs S c RALL true O) = Some 1%nat /\
  option_map val (uspfs S c RALL false O) = Some (Fin 10).
Proof.
  cbv zeta. split; [discriminate|]. split; [unfold ucoherent; simpl; lia|].
  split; [simpl; tauto|]. repeat split; vm_compute; reflexivity.
Qed.

