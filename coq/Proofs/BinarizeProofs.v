(** placeholder, replaced below *)
From Coq Require Import List Arith Bool.
From SR Require Import Model.Binarize.
Import ListNotations.
Lemma binarize_leaf n : binarize (RLeaf n) = [BLeaf n].
Proof. reflexivity. Qed.
