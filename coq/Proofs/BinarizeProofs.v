(** Specification and proofs for the polytomy-resolution model [Model/Binarize.v].

    Part 0: list lemmas.
    Part 1: binary trees over atoms: [graft] / [arrange] enumerate, without
            repetition and completely, the binary trees over a list of atoms,
            up to the order of children; there are (2k-3)!! of them.
    Part 2: rose trees: [binarize] enumerates the binary refinements. *)
From Coq Require Import List Arith Bool Lia Permutation.
From SR Require Import Model.Binarize.
Import ListNotations.

(* ------------------------------------------------------------------ *)
(** * Part 0: lists *)

Notation FOP := ForallOrdPairs.

Lemma fop_app {A} (R : A -> A -> Prop) l1 l2 :
  FOP R l1 -> FOP R l2 -> (forall a b, In a l1 -> In b l2 -> R a b) -> FOP R (l1 ++ l2).
Proof.
  induction 1 as [|a l1 Ha H1 IH]; intros H2 HX; simpl; auto.
  constructor.
  - apply Forall_app. split; [exact Ha|].
    apply Forall_forall. intros b Hb. apply HX; [left; reflexivity|exact Hb].
  - apply IH; auto. intros x y Hx Hy. apply HX; [right; exact Hx|exact Hy].
Qed.

Lemma fop_map {A B} (R : A -> A -> Prop) (R' : B -> B -> Prop) (f : A -> B) l :
  FOP R l -> (forall a b, In a l -> In b l -> R a b -> R' (f a) (f b)) -> FOP R' (map f l).
Proof.
  induction 1 as [|a l Ha H IH]; intros HX; simpl; constructor.
  - apply Forall_forall. intros y Hy. apply in_map_iff in Hy as [b [<- Hb]].
    apply HX; [left; reflexivity|right; exact Hb|].
    rewrite Forall_forall in Ha. apply Ha, Hb.
  - apply IH. intros x y Hx Hy. apply HX; right; assumption.
Qed.

Lemma fop_flat_map {A B} (R : A -> A -> Prop) (R' : B -> B -> Prop) (f : A -> list B) l :
  FOP R l ->
  (forall a, In a l -> FOP R' (f a)) ->
  (forall a b x y, In a l -> In b l -> R a b -> In x (f a) -> In y (f b) -> R' x y) ->
  FOP R' (flat_map f l).
Proof.
  induction 1 as [|a l Ha H IH]; intros HB HX; simpl; [constructor|].
  apply fop_app.
  - apply HB. left; reflexivity.
  - apply IH.
    + intros b Hb. apply HB. right; exact Hb.
    + intros x y u v Hx Hy. apply HX; right; assumption.
  - intros x y Hx Hy. apply in_flat_map in Hy as [b [Hb Hy]].
    apply (HX a b); auto; [left; reflexivity|right; exact Hb|].
    rewrite Forall_forall in Ha. apply Ha, Hb.
Qed.

Lemma flat_map_length_const {A B} (f : A -> list B) l c :
  (forall a, In a l -> length (f a) = c) -> length (flat_map f l) = length l * c.
Proof.
  induction l as [|a l IH]; intros H; simpl; auto.
  rewrite app_length, H, IH; [reflexivity| |left; reflexivity].
  intros b Hb. apply H. right; exact Hb.
Qed.

(** membership in a cartesian product *)
Lemma in_product {A} (ls : list (list A)) (xs : list A) :
  In xs (product ls) <-> Forall2 (fun x l => In x l) xs ls.
Proof.
  revert xs. induction ls as [|l ls IH]; intros xs; simpl.
  - split.
    + intros [<-|[]]. constructor.
    + intros H. inversion H. left; reflexivity.
  - rewrite in_flat_map. split.
    + intros [x [Hx H]]. apply in_map_iff in H as [ys [<- Hys]].
      constructor; [exact Hx|]. apply IH, Hys.
    + intros H. inversion H as [|x l' ys ls' Hx Hys]; subst.
      exists x. split; [exact Hx|]. apply in_map_iff. exists ys. split; [reflexivity|].
      apply IH, Hys.
Qed.

Lemma product_length {A} (ls : list (list A)) :
  length (product ls) = fold_right (fun l acc => length l * acc) 1 ls.
Proof.
  induction ls as [|l ls IH]; simpl; auto.
  rewrite (flat_map_length_const _ l (length (product ls))).
  - rewrite IH. reflexivity.
  - intros a _. apply map_length.
Qed.

Lemma Forall2_length' {A B} (R : A -> B -> Prop) l1 l2 : Forall2 R l1 l2 -> length l1 = length l2.
Proof. induction 1; simpl; auto. Qed.

(** the tuples of a product of duplicate-free lists are pairwise different,
    component-wise, for any notion [R] of "same" *)
Lemma product_fop {A} (R : A -> A -> Prop) (ls : list (list A)) :
  Forall (FOP (fun a b => ~ R a b)) ls ->
  FOP (fun xs ys => ~ Forall2 R xs ys) (product ls).
Proof.
  induction 1 as [|l ls Hl _ IH]; simpl.
  - constructor; constructor.
  - apply (fop_flat_map (fun a b => ~ R a b)); auto.
    + intros a _. apply (fop_map (fun xs ys => ~ Forall2 R xs ys)); auto.
      intros xs ys _ _ Hn H. apply Hn. inversion H; assumption.
    + intros a b x y _ _ Hab Hx Hy H.
      apply in_map_iff in Hx as [xs [<- _]]. apply in_map_iff in Hy as [ys [<- _]].
      apply Hab. inversion H; assumption.
Qed.

(** a permutation can be transported along a pointwise relation *)
Lemma perm_forall2 {A B} (R : A -> B -> Prop) l ds :
  Permutation l ds -> forall ds', Forall2 R ds ds' ->
  exists l', Permutation l' ds' /\ Forall2 R l l'.
Proof.
  induction 1 as [|x l ds _ IH|x y l|l m ds _ IH1 _ IH2]; intros ds' F.
  - inversion F; subst. exists []. split; constructor.
  - inversion F as [|? x' ? ds1 Hx F1]; subst.
    destruct (IH _ F1) as [l' [P F']]. exists (x' :: l'). split; constructor; auto.
  - inversion F as [|? x' ? ds1 Hx F1]; subst.
    inversion F1 as [|? y' ? ds2 Hy F2]; subst.
    exists (y' :: x' :: ds2). split; [apply perm_swap|]. repeat constructor; auto.
  - destruct (IH2 _ F) as [m' [P2 F2]]. destruct (IH1 _ F2) as [l' [P1 F1]].
    exists l'. split; [|exact F1]. eapply Permutation_trans; eauto.
Qed.

(* ------------------------------------------------------------------ *)
(** * Part 1: binary trees over atoms *)

Section Atoms.
Context {A : Type}.

Fixpoint aleaves (t : atree A) : list A :=
  match t with
  | Atom a => [a]
  | Join l r => aleaves l ++ aleaves r
  end.

(** equality up to swapping children, atoms compared by [R] *)
Inductive eqvR (R : A -> A -> Prop) : atree A -> atree A -> Prop :=
| eR_atom a b : R a b -> eqvR R (Atom a) (Atom b)
| eR_same l r l' r' : eqvR R l l' -> eqvR R r r' -> eqvR R (Join l r) (Join l' r')
| eR_swap l r l' r' : eqvR R l r' -> eqvR R r l' -> eqvR R (Join l r) (Join l' r').

Lemma aleaves_nonempty (t : atree A) : aleaves t <> [].
Proof.
  induction t as [a|l IHl r _]; simpl; [discriminate|].
  destruct (aleaves l); [contradiction|discriminate].
Qed.

Lemma aleaves_pos (t : atree A) : 1 <= length (aleaves t).
Proof. pose proof (aleaves_nonempty t). destruct (aleaves t); [contradiction|simpl; lia]. Qed.

Lemma aleaves_inhab (t : atree A) : exists y, In y (aleaves t).
Proof. pose proof (aleaves_nonempty t). destruct (aleaves t) as [|y ?]; [contradiction|exists y; left; auto]. Qed.

Lemma eqvR_len R t1 t2 : eqvR R t1 t2 -> length (aleaves t1) = length (aleaves t2).
Proof. induction 1; simpl; rewrite ?app_length; lia. Qed.

Lemma eqvR_in R t1 t2 : eqvR R t1 t2 ->
  forall a, In a (aleaves t1) -> exists b, In b (aleaves t2) /\ R a b.
Proof.
  induction 1 as [a b H|l r l' r' _ IH1 _ IH2|l r l' r' _ IH1 _ IH2]; intros x Hx; simpl in *.
  - destruct Hx as [<-|[]]. exists b. auto.
  - apply in_app_iff in Hx as [Hx|Hx]; [destruct (IH1 _ Hx) as [b [Hb Hr]]|destruct (IH2 _ Hx) as [b [Hb Hr]]];
      exists b; rewrite in_app_iff; auto.
  - apply in_app_iff in Hx as [Hx|Hx]; [destruct (IH1 _ Hx) as [b [Hb Hr]]|destruct (IH2 _ Hx) as [b [Hb Hr]]];
      exists b; rewrite in_app_iff; auto.
Qed.

Lemma eqvR_in_r R t1 t2 : eqvR R t1 t2 ->
  forall b, In b (aleaves t2) -> exists a, In a (aleaves t1) /\ R a b.
Proof.
  induction 1 as [a b H|l r l' r' _ IH1 _ IH2|l r l' r' _ IH1 _ IH2]; intros x Hx; simpl in *.
  - destruct Hx as [<-|[]]. exists a. auto.
  - apply in_app_iff in Hx as [Hx|Hx]; [destruct (IH1 _ Hx) as [b [Hb Hr]]|destruct (IH2 _ Hx) as [b [Hb Hr]]];
      exists b; rewrite in_app_iff; auto.
  - apply in_app_iff in Hx as [Hx|Hx]; [destruct (IH2 _ Hx) as [b [Hb Hr]]|destruct (IH1 _ Hx) as [b [Hb Hr]]];
      exists b; rewrite in_app_iff; auto.
Qed.

(** the relation on atoms only matters on the atoms present *)
Lemma eqvR_mono (R R' : A -> A -> Prop) t1 t2 :
  eqvR R t1 t2 ->
  (forall a b, In a (aleaves t1) -> In b (aleaves t2) -> R a b -> R' a b) ->
  eqvR R' t1 t2.
Proof.
  induction 1 as [a b H|l r l' r' _ IH1 _ IH2|l r l' r' _ IH1 _ IH2]; intros HX; simpl in *.
  - constructor. apply HX; auto.
  - apply eR_same; [apply IH1|apply IH2]; intros a b Ha Hb; apply HX; rewrite in_app_iff; auto.
  - apply eR_swap; [apply IH1|apply IH2]; intros a b Ha Hb; apply HX; rewrite in_app_iff; auto.
Qed.

Lemma eqvR_refl (R : A -> A -> Prop) : (forall a, R a a) -> forall t, eqvR R t t.
Proof. intros HR. induction t; [apply eR_atom, HR|apply eR_same; assumption]. Qed.

Lemma eqvR_sym (R : A -> A -> Prop) : (forall a b, R a b -> R b a) ->
  forall t1 t2, eqvR R t1 t2 -> eqvR R t2 t1.
Proof. intros HR t1 t2. induction 1; [apply eR_atom, HR; assumption|apply eR_same; assumption|apply eR_swap; assumption]. Qed.

Lemma eqvR_trans (R1 R2 R3 : A -> A -> Prop) :
  (forall a b c, R1 a b -> R2 b c -> R3 a c) ->
  forall t1 t2, eqvR R1 t1 t2 -> forall t3, eqvR R2 t2 t3 -> eqvR R3 t1 t3.
Proof.
  intros HR t1 t2. induction 1 as [a b H|l r l' r' _ IH1 _ IH2|l r l' r' _ IH1 _ IH2]; intros t3 E.
  - inversion E; subst. apply eR_atom. eapply HR; eauto.
  - inversion E as [| ? ? l3 r3 E1 E2 | ? ? l3 r3 E1 E2]; subst.
    + apply eR_same; [apply IH1|apply IH2]; assumption.
    + apply eR_swap; [apply IH1|apply IH2]; assumption.
  - inversion E as [| ? ? l3 r3 E1 E2 | ? ? l3 r3 E1 E2]; subst.
    + apply eR_swap; [apply IH1|apply IH2]; assumption.
    + apply eR_same; [apply IH1|apply IH2]; assumption.
Qed.

Notation eqv := (eqvR eq).

Lemma eqv_refl t : eqv t t.
Proof. apply eqvR_refl. reflexivity. Qed.
Lemma eqv_sym t1 t2 : eqv t1 t2 -> eqv t2 t1.
Proof. apply eqvR_sym. intros; subst; reflexivity. Qed.
Lemma eqv_trans t1 t2 t3 : eqv t1 t2 -> eqv t2 t3 -> eqv t1 t3.
Proof. intros H1 H2. eapply (eqvR_trans eq eq eq); eauto. intros; subst; reflexivity. Qed.

Lemma eqv_leaves t t' : eqv t t' -> Permutation (aleaves t) (aleaves t').
Proof.
  induction 1 as [a b H|l r l' r' _ IH1 _ IH2|l r l' r' _ IH1 _ IH2]; simpl.
  - subst. apply Permutation_refl.
  - apply Permutation_app; assumption.
  - rewrite (Permutation_app_comm (aleaves l') (aleaves r')). apply Permutation_app; assumption.
Qed.

Lemma eqv_in t1 t2 y : eqv t1 t2 -> In y (aleaves t1) -> In y (aleaves t2).
Proof. intros E Hy. apply (Permutation_in y (eqv_leaves _ _ E) Hy). Qed.

(** ** graft *)

Lemma graft_length (t : atree A) x : length (graft t x) = 2 * length (aleaves t) - 1.
Proof.
  induction t as [a|l IHl r IHr]; simpl; auto.
  rewrite app_length, !map_length, IHl, IHr, app_length.
  pose proof (aleaves_pos l). pose proof (aleaves_pos r). lia.
Qed.

Lemma graft_leaves (t : atree A) x g : In g (graft t x) -> Permutation (aleaves g) (x :: aleaves t).
Proof.
  revert g; induction t as [a|l IHl r IHr]; intros g; simpl.
  - intros [<-|[]]. simpl. apply Permutation_refl.
  - intros [<-|H]; [simpl; apply Permutation_refl|].
    apply in_app_iff in H as [H|H]; apply in_map_iff in H as [g' [<- Hg]]; simpl.
    + rewrite (IHl _ Hg). simpl. apply Permutation_refl.
    + rewrite (IHr _ Hg). rewrite <- Permutation_middle. apply Permutation_refl.
Qed.

Lemma graft_has_x (t : atree A) x g : In g (graft t x) -> In x (aleaves g).
Proof.
  intros H. apply (Permutation_in x (Permutation_sym (graft_leaves _ _ _ H))). left; reflexivity.
Qed.

Lemma graft_big (t : atree A) x g : In g (graft t x) -> 2 <= length (aleaves g).
Proof.
  intros H. rewrite (Permutation_length (graft_leaves _ _ _ H)). simpl.
  pose proof (aleaves_pos t). lia.
Qed.

(** grafts of the same new atom into two trees: if the results are the same up
    to child order, so were the trees *)
Lemma graft_eqv_base x (t1 : atree A) : forall t2 g1 g2,
  ~ In x (aleaves t1) -> ~ In x (aleaves t2) ->
  In g1 (graft t1 x) -> In g2 (graft t2 x) -> eqv g1 g2 -> eqv t1 t2.
Proof.
  assert (forall t g, In g (graft t x) -> ~ eqv (Atom x) g) as NA.
  { intros t g Hg E. pose proof (eqvR_len _ _ _ E) as HL. pose proof (graft_big _ _ _ Hg). simpl in HL. lia. }
  assert (forall t g, In g (graft t x) -> ~ eqv g (Atom x)) as NA'.
  { intros t g Hg E. apply (NA t g Hg). apply eqv_sym, E. }
  assert (forall t, ~ In x (aleaves t) -> ~ eqv (Atom x) t) as NX.
  { intros t Hn E. apply Hn. apply (eqv_in _ _ x E). left; reflexivity. }
  assert (forall t g u, In g (graft t x) -> ~ In x (aleaves u) -> ~ eqv g u) as NG.
  { intros t g u Hg Hn E. apply Hn. apply (eqv_in _ _ x E). eapply graft_has_x; eauto. }
  induction t1 as [a|l1 IHl r1 IHr]; intros t2 g1 g2 N1 N2 H1 H2 E.
  - (* t1 atom: g1 = Join x t1 *)
    simpl in H1. destruct H1 as [<-|[]].
    destruct t2 as [b|l2 r2]; simpl in H2.
    + destruct H2 as [<-|[]]. inversion E as [| ? ? ? ? E1 E2 | ? ? ? ? E1 E2]; subst; auto.
      exfalso. apply (NX _ N2 E1).
    + simpl in N2. rewrite in_app_iff in N2.
      destruct H2 as [<-|H2].
      * inversion E as [| ? ? ? ? E1 E2 | ? ? ? ? E1 E2]; subst; auto.
        exfalso. apply (NX (Join l2 r2)); [simpl; rewrite in_app_iff; tauto|exact E1].
      * exfalso. apply in_app_iff in H2 as [H2|H2]; apply in_map_iff in H2 as [g [<- Hg]];
          inversion E as [| ? ? ? ? E1 E2 | ? ? ? ? E1 E2]; subst.
        -- eapply NA; eauto.
        -- apply (NX r2); [tauto|exact E1].
        -- apply (NX l2); [tauto|exact E1].
        -- eapply NA; eauto.
  - simpl in N1. rewrite in_app_iff in N1.
    assert (~ In x (aleaves l1)) as N1l by tauto. assert (~ In x (aleaves r1)) as N1r by tauto.
    simpl in H1. destruct H1 as [<-|H1].
    + (* g1 = Join x (Join l1 r1) *)
      destruct t2 as [b|l2 r2]; simpl in H2.
      * destruct H2 as [<-|[]]. inversion E as [| ? ? ? ? E1 E2 | ? ? ? ? E1 E2]; subst; auto.
        exfalso. apply (NX _ N2 E1).
      * simpl in N2. rewrite in_app_iff in N2.
        destruct H2 as [<-|H2].
        -- inversion E as [| ? ? ? ? E1 E2 | ? ? ? ? E1 E2]; subst; auto.
           exfalso. apply (NX (Join l2 r2)); [simpl; rewrite in_app_iff; tauto|exact E1].
        -- exfalso. apply in_app_iff in H2 as [H2|H2]; apply in_map_iff in H2 as [g [<- Hg]];
             inversion E as [| ? ? ? ? E1 E2 | ? ? ? ? E1 E2]; subst.
           ++ eapply NA; eauto.
           ++ apply (NX r2); [tauto|exact E1].
           ++ apply (NX l2); [tauto|exact E1].
           ++ eapply NA; eauto.
    + apply in_app_iff in H1 as [H1|H1]; apply in_map_iff in H1 as [ga [<- Hga]].
      * (* g1 = Join ga r1, ga a graft into l1 *)
        destruct t2 as [b|l2 r2]; simpl in H2.
        -- destruct H2 as [<-|[]]. exfalso.
           inversion E as [| ? ? ? ? E1 E2 | ? ? ? ? E1 E2]; subst.
           ++ eapply NA'; eauto.
           ++ apply (NX r1 N1r). apply eqv_sym, E2.
        -- simpl in N2. rewrite in_app_iff in N2.
           destruct H2 as [<-|H2].
           ++ exfalso. inversion E as [| ? ? ? ? E1 E2 | ? ? ? ? E1 E2]; subst.
              ** eapply NA'; eauto.
              ** apply (NX r1 N1r). apply eqv_sym, E2.
           ++ apply in_app_iff in H2 as [H2|H2]; apply in_map_iff in H2 as [gb [<- Hgb]];
                inversion E as [| ? ? ? ? E1 E2 | ? ? ? ? E1 E2]; subst.
              ** apply eR_same; [|exact E2]. eapply IHl; eauto; tauto.
              ** exfalso. apply (NG l1 ga r2 Hga); [tauto|exact E1].
              ** exfalso. apply (NG l1 ga l2 Hga); [tauto|exact E1].
              ** apply eR_swap; [|exact E2]. eapply IHl; eauto; tauto.
      * (* g1 = Join l1 ga, ga a graft into r1 *)
        destruct t2 as [b|l2 r2]; simpl in H2.
        -- destruct H2 as [<-|[]]. exfalso.
           inversion E as [| ? ? ? ? E1 E2 | ? ? ? ? E1 E2]; subst.
           ++ apply (NX l1 N1l). apply eqv_sym, E1.
           ++ eapply NA'; eauto.
        -- simpl in N2. rewrite in_app_iff in N2.
           destruct H2 as [<-|H2].
           ++ exfalso. inversion E as [| ? ? ? ? E1 E2 | ? ? ? ? E1 E2]; subst.
              ** apply (NX l1 N1l). apply eqv_sym, E1.
              ** eapply NA'; eauto.
           ++ apply in_app_iff in H2 as [H2|H2]; apply in_map_iff in H2 as [gb [<- Hgb]];
                inversion E as [| ? ? ? ? E1 E2 | ? ? ? ? E1 E2]; subst.
              ** exfalso. apply (NG r1 ga r2 Hga); [tauto|exact E2].
              ** apply eR_swap; [exact E1|]. eapply IHr; eauto; tauto.
              ** apply eR_same; [exact E1|]. eapply IHr; eauto; tauto.
              ** exfalso. apply (NG r1 ga l2 Hga); [tauto|exact E2].
Qed.

(** distinct atoms, structurally: the two sides of every node share no atom *)
Fixpoint dis (t : atree A) : Prop :=
  match t with
  | Atom _ => True
  | Join l r => (forall y, In y (aleaves l) -> In y (aleaves r) -> False) /\ dis l /\ dis r
  end.

Lemma nodup_dis (t : atree A) : NoDup (aleaves t) -> dis t.
Proof.
  induction t as [a|l IHl r IHr]; simpl; auto. intros H.
  split; [|split].
  - intros y Hl Hr. revert H Hl Hr. generalize (aleaves l) (aleaves r). intros l1 l2 H.
    induction l1 as [|z l1 IH]; simpl; [tauto|]. inversion H as [|? ? Hn Hd]; subst.
    intros [->|Hl] Hr; [apply Hn; apply in_app_iff; auto|apply IH; auto].
  - apply IHl. revert H. generalize (aleaves l) (aleaves r). intros l1 l2 H.
    induction l1 as [|z l1 IH]; simpl in *; [constructor|]. inversion H as [|? ? Hn Hd]; subst.
    constructor; [rewrite in_app_iff in Hn; tauto|auto].
  - apply IHr. revert H. generalize (aleaves l) (aleaves r). intros l1 l2 H.
    induction l1 as [|z l1 IH]; simpl in *; auto. inversion H; auto.
Qed.

(** the grafts of a new atom into one tree are pairwise different up to child order *)
Lemma graft_fop (t : atree A) x : dis t -> ~ In x (aleaves t) ->
  FOP (fun g1 g2 => ~ eqv g1 g2) (graft t x).
Proof.
  induction t as [a|l IHl r IHr]; intros D Nx; simpl.
  - constructor; constructor.
  - destruct D as [DISJ [Dl Dr]]. simpl in Nx. rewrite in_app_iff in Nx.
    assert (~ In x (aleaves l)) as NxL by tauto. assert (~ In x (aleaves r)) as NxR by tauto.
    constructor.
    + (* the graft beside the whole tree differs from all others *)
      apply Forall_forall. intros g Hg E.
      apply in_app_iff in Hg as [Hg|Hg]; apply in_map_iff in Hg as [g' [<- Hg']];
        inversion E as [| ? ? ? ? E1 E2 | ? ? ? ? E1 E2]; subst.
      * pose proof (eqvR_len _ _ _ E1) as HL. pose proof (graft_big _ _ _ Hg'). simpl in HL. lia.
      * apply NxR. apply (eqv_in _ _ x E1). left; reflexivity.
      * apply NxL. apply (eqv_in _ _ x E1). left; reflexivity.
      * pose proof (eqvR_len _ _ _ E1) as HL. pose proof (graft_big _ _ _ Hg'). simpl in HL. lia.
    + apply fop_app.
      * apply (fop_map (fun g1 g2 => ~ eqv g1 g2)); [apply IHl; auto|].
        intros g1 g2 H1 H2 Hn E. inversion E as [| ? ? ? ? E1 E2 | ? ? ? ? E1 E2]; subst; [auto|].
        apply NxR. apply (eqv_in _ _ x E1). eapply graft_has_x; eauto.
      * apply (fop_map (fun g1 g2 => ~ eqv g1 g2)); [apply IHr; auto|].
        intros g1 g2 H1 H2 Hn E. inversion E as [| ? ? ? ? E1 E2 | ? ? ? ? E1 E2]; subst; [auto|].
        apply NxL. apply (eqv_in _ _ x (eqv_sym _ _ E1)). eapply graft_has_x; eauto.
      * intros g1 g2 H1 H2 E.
        apply in_map_iff in H1 as [ga [<- Hga]]. apply in_map_iff in H2 as [gb [<- Hgb]].
        inversion E as [| ? ? ? ? E1 E2 | ? ? ? ? E1 E2]; subst.
        -- apply NxL. apply (eqv_in _ _ x E1). eapply graft_has_x; eauto.
        -- destruct (aleaves_inhab r) as [y Hy].
           apply (DISJ y); [|exact Hy]. apply (eqv_in _ _ y E2). exact Hy.
Qed.

(** grafting commutes with equivalence: a graft into [t1] has an equivalent graft into any [t2] equivalent to [t1] *)
Lemma graft_eqv_compat x (t1 t2 : atree A) : eqv t1 t2 ->
  forall g1, In g1 (graft t1 x) -> exists g2, In g2 (graft t2 x) /\ eqv g1 g2.
Proof.
  induction 1 as [a b H|l r l' r' E1 IH1 E2 IH2|l r l' r' E1 IH1 E2 IH2]; intros g1 Hg; simpl in Hg.
  - subst b. destruct Hg as [<-|[]]. exists (Join (Atom x) (Atom a)). split; [left; reflexivity|apply eqv_refl].
  - destruct Hg as [<-|Hg].
    + exists (Join (Atom x) (Join l' r')). split; [left; reflexivity|].
      apply eR_same; [apply eqv_refl|apply eR_same; assumption].
    + apply in_app_iff in Hg as [Hg|Hg]; apply in_map_iff in Hg as [g [<- Hg]].
      * destruct (IH1 _ Hg) as [g' [Hg' E']]. exists (Join g' r'). split.
        -- simpl. right. apply in_app_iff. left. apply in_map_iff. eexists; split; [reflexivity|exact Hg'].
        -- apply eR_same; assumption.
      * destruct (IH2 _ Hg) as [g' [Hg' E']]. exists (Join l' g'). split.
        -- simpl. right. apply in_app_iff. right. apply in_map_iff. eexists; split; [reflexivity|exact Hg'].
        -- apply eR_same; assumption.
  - destruct Hg as [<-|Hg].
    + exists (Join (Atom x) (Join l' r')). split; [left; reflexivity|].
      apply eR_same; [apply eqv_refl|apply eR_swap; assumption].
    + apply in_app_iff in Hg as [Hg|Hg]; apply in_map_iff in Hg as [g [<- Hg]].
      * destruct (IH1 _ Hg) as [g' [Hg' E']]. exists (Join l' g'). split.
        -- simpl. right. apply in_app_iff. right. apply in_map_iff. eexists; split; [reflexivity|exact Hg'].
        -- apply eR_swap; assumption.
      * destruct (IH2 _ Hg) as [g' [Hg' E']]. exists (Join g' r'). split.
        -- simpl. right. apply in_app_iff. left. apply in_map_iff. eexists; split; [reflexivity|exact Hg'].
        -- apply eR_swap; assumption.
Qed.

(** every tree containing [x] is [x] alone or a graft of [x] into a smaller tree *)
Lemma prune_graft x (t : atree A) : In x (aleaves t) ->
  t = Atom x \/
  exists t' g, Permutation (aleaves t) (x :: aleaves t') /\ In g (graft t' x) /\ eqv t g.
Proof.
  induction t as [a|l IHl r IHr]; simpl; intros H.
  - destruct H as [->|[]]. left; reflexivity.
  - right. apply in_app_iff in H as [H|H].
    + destruct (IHl H) as [->|[l' [g [P [Hg E]]]]].
      * exists r, (Join (Atom x) r). split; [apply Permutation_refl|].
        split; [destruct r; left; reflexivity|apply eqv_refl].
      * exists (Join l' r), (Join g r). split; [|split].
        -- simpl. rewrite P. apply Permutation_refl.
        -- simpl. right. apply in_app_iff. left. apply in_map_iff. eexists; split; [reflexivity|exact Hg].
        -- apply eR_same; [exact E|apply eqv_refl].
    + destruct (IHr H) as [->|[r' [g [P [Hg E]]]]].
      * exists l, (Join (Atom x) l). split; [|split].
        -- simpl. apply Permutation_sym, Permutation_cons_append.
        -- destruct l; left; reflexivity.
        -- apply eR_swap; apply eqv_refl.
      * exists (Join l r'), (Join l g). split; [|split].
        -- simpl. rewrite P. apply Permutation_sym, Permutation_middle.
        -- simpl. right. apply in_app_iff. right. apply in_map_iff. eexists; split; [reflexivity|exact Hg].
        -- apply eR_same; [apply eqv_refl|exact E].
Qed.

(** ** arrange *)

Lemma arrange_cons x y (ys : list A) :
  arrange (x :: y :: ys) = flat_map (fun t => graft t x) (arrange (y :: ys)).
Proof. reflexivity. Qed.

(** soundness: the results are the binary trees over exactly the given atoms *)
Lemma arrange_perm (xs : list A) : forall t, In t (arrange xs) -> Permutation (aleaves t) xs.
Proof.
  induction xs as [|x xs IH]; intros t H; [destruct H|].
  destruct xs as [|y ys].
  - simpl in H. destruct H as [<-|[]]. apply Permutation_refl.
  - rewrite arrange_cons in H. apply in_flat_map in H as [t' [Ht' Hg]].
    rewrite (graft_leaves _ _ _ Hg). constructor. apply IH, Ht'.
Qed.

(** counting: (2k-3)!! arrangements of k >= 2 atoms *)
Lemma arrange_length (xs : list A) : length (arrange xs) = arr_count (length xs).
Proof.
  induction xs as [|x xs IH]; [reflexivity|].
  destruct xs as [|y ys]; [reflexivity|].
  rewrite arrange_cons.
  rewrite (flat_map_length_const _ _ (2 * length (y :: ys) - 1)).
  - rewrite IH. simpl. lia.
  - intros t Ht. rewrite graft_length. rewrite (Permutation_length (arrange_perm _ _ Ht)). reflexivity.
Qed.

(** no repetition: no two results are equal up to child order *)
Lemma arrange_fop (xs : list A) : NoDup xs -> FOP (fun t1 t2 => ~ eqv t1 t2) (arrange xs).
Proof.
  induction xs as [|x xs IH]; intros ND; [constructor|].
  destruct xs as [|y ys]; [constructor; constructor|].
  rewrite arrange_cons. inversion ND as [|? ? Nx ND']; subst.
  apply (fop_flat_map (fun t1 t2 => ~ eqv t1 t2)); [apply IH, ND'| |].
  - intros t Ht. pose proof (arrange_perm _ _ Ht) as P. apply graft_fop.
    + apply nodup_dis. apply (Permutation_NoDup (Permutation_sym P)), ND'.
    + intros Hx. apply Nx. apply (Permutation_in _ P Hx).
  - intros t1 t2 g1 g2 H1 H2 Hn Hg1 Hg2 E. apply Hn.
    pose proof (arrange_perm _ _ H1) as P1. pose proof (arrange_perm _ _ H2) as P2.
    apply (graft_eqv_base x t1 t2 g1 g2); auto.
    + intros Hx. apply Nx. apply (Permutation_in _ P1 Hx).
    + intros Hx. apply Nx. apply (Permutation_in _ P2 Hx).
Qed.

(** completeness: every binary tree over the atoms is produced, up to child order *)
Lemma arrange_complete (xs : list A) : forall T, Permutation (aleaves T) xs ->
  exists t, In t (arrange xs) /\ eqv T t.
Proof.
  induction xs as [|x xs IH]; intros T P.
  - apply Permutation_sym, Permutation_nil in P. destruct (aleaves_nonempty _ P).
  - assert (In x (aleaves T)) as Hx by (apply (Permutation_in _ (Permutation_sym P)); left; reflexivity).
    destruct (prune_graft x T Hx) as [->|[T' [g [PT [Hg E]]]]].
    + simpl in P. apply Permutation_length in P. destruct xs; [|discriminate].
      exists (Atom x). split; [left; reflexivity|apply eqv_refl].
    + assert (Permutation (aleaves T') xs) as P'.
      { apply (Permutation_cons_inv (a := x)). rewrite <- PT. exact P. }
      destruct (IH _ P') as [t' [Ht' E']].
      destruct (graft_eqv_compat x _ _ E' _ Hg) as [g' [Hg' Eg]].
      exists g'. split.
      * destruct xs as [|y ys].
        -- apply Permutation_sym, Permutation_nil in P'. destruct (aleaves_nonempty _ P').
        -- rewrite arrange_cons. apply in_flat_map. exists t'. auto.
      * eapply eqv_trans; eauto.
Qed.

End Atoms.

Notation eqv := (eqvR eq).

(* ------------------------------------------------------------------ *)
(** * Part 2: rose trees and their binary refinements *)

Lemma rose_ind' (P : rose -> Prop) :
  (forall n, P (RLeaf n)) ->
  (forall lb cs, Forall P cs -> P (RNode lb cs)) ->
  forall t, P t.
Proof.
  intros Hl Hn. fix IH 1. intros [n|lb cs]; [apply Hl|apply Hn].
  induction cs as [|c cs IHcs]; constructor; [apply IH|exact IHcs].
Qed.

(** ** vocabulary of the specification *)

Fixpoint rleaves (t : rose) : list lab :=
  match t with
  | RLeaf n => [n]
  | RNode _ cs => flat_map rleaves cs
  end.

(* [bleaves b], the leaf labels of a binary tree left to right, is defined in the model file *)

Definition rlabel (t : rose) : lab := match t with RLeaf n => n | RNode lb _ => lb end.
Definition blabel (b : bt) : lab := match b with BLeaf n => n | BNode lb _ _ => lb end.

(** every internal node has at least two children *)
Fixpoint arity_ok (t : rose) : bool :=
  match t with
  | RLeaf _ => true
  | RNode _ cs => (2 <=? length cs) && forallb arity_ok cs
  end.

Lemma arity_ok_node lb cs :
  arity_ok (RNode lb cs) = true <-> 2 <= length cs /\ (forall c, In c cs -> arity_ok c = true).
Proof.
  change (arity_ok (RNode lb cs)) with ((2 <=? length cs) && forallb arity_ok cs).
  rewrite andb_true_iff, Nat.leb_le, forallb_forall. tauto.
Qed.

(** [s] is (the subtree rooted at) a node of [t] *)
Inductive rsub : rose -> rose -> Prop :=
| rsub_refl t : rsub t t
| rsub_child s c lb cs : In c cs -> rsub s c -> rsub s (RNode lb cs).

Inductive bsub : bt -> bt -> Prop :=
| bsub_refl b : bsub b b
| bsub_l s lb l r : bsub s l -> bsub s (BNode lb l r)
| bsub_r s lb l r : bsub s r -> bsub s (BNode lb l r).

(** equality of labelled binary trees up to the order of children *)
Inductive beqv : bt -> bt -> Prop :=
| be_leaf n : beqv (BLeaf n) (BLeaf n)
| be_same lb l r l' r' : beqv l l' -> beqv r r' -> beqv (BNode lb l r) (BNode lb l' r')
| be_swap lb l r l' r' : beqv l r' -> beqv r l' -> beqv (BNode lb l r) (BNode lb l' r').

(** [b] keeps every clade of [t], with the label of the node it comes from
    (a leaf is the clade of itself: leaves keep their names) *)
Definition keeps_clades (t : rose) (b : bt) : Prop :=
  forall s, rsub s t ->
  exists b', bsub b' b /\ Permutation (bleaves b') (rleaves s) /\ blabel b' = rlabel s.

(** [b] is a binary refinement of [t]: a leaf is refined by itself; a node is
    refined by refining every child and joining the refined children by an
    arbitrary binary tree whose new inner nodes are unlabelled and whose root
    receives the label of the node. *)
Fixpoint refines (t : rose) (b : bt) {struct t} : Prop :=
  match t with
  | RLeaf n => b = BLeaf n
  | RNode lb cs =>
      exists (ds : list bt) (T : atree bt),
        (fix all2 (cs : list rose) (ds : list bt) {struct cs} : Prop :=
           match cs, ds with
           | [], [] => True
           | c :: cs', d :: ds' => refines c d /\ all2 cs' ds'
           | _, _ => False
           end) cs ds
        /\ Permutation (aleaves T) ds /\ b = relabel lb (flat T)
  end.

Lemma refines_node lb cs b :
  refines (RNode lb cs) b <->
  exists ds T, Forall2 refines cs ds /\ Permutation (aleaves T) ds /\ b = relabel lb (flat T).
Proof.
  simpl.
  assert (forall cs ds,
    (fix all2 (cs : list rose) (ds : list bt) {struct cs} : Prop :=
       match cs, ds with
       | [], [] => True
       | c :: cs', d :: ds' => refines c d /\ all2 cs' ds'
       | _, _ => False
       end) cs ds <-> Forall2 refines cs ds) as EQ.
  { clear. induction cs as [|c cs IH]; intros [|d ds].
    - split; intros _; constructor.
    - split; intros H; [destruct H|inversion H].
    - split; intros H; [destruct H|inversion H].
    - split.
      + intros [H1 H2]. constructor; [exact H1|apply IH, H2].
      + intros H. inversion H; subst. split; [assumption|apply IH; assumption]. }
  split; intros [ds [T [H1 H2]]]; exists ds, T; (split; [apply EQ, H1|exact H2]).
Qed.

(** ** small facts *)

Lemma bleaves_nonempty b : bleaves b <> [].
Proof. induction b as [n|lb l IHl r _]; simpl; [discriminate|]. destruct (bleaves l); [contradiction|discriminate]. Qed.

Lemma bleaves_inhab b : exists y, In y (bleaves b).
Proof. pose proof (bleaves_nonempty b). destruct (bleaves b) as [|y ?]; [contradiction|exists y; left; reflexivity]. Qed.

Lemma beqv_refl b : beqv b b.
Proof. induction b; [apply be_leaf|apply be_same; assumption]. Qed.

Lemma beqv_sym a b : beqv a b -> beqv b a.
Proof. induction 1; [apply be_leaf|apply be_same; assumption|apply be_swap; assumption]. Qed.

Lemma beqv_leaves a b : beqv a b -> Permutation (bleaves a) (bleaves b).
Proof.
  induction 1 as [n|lb l r l' r' _ IH1 _ IH2|lb l r l' r' _ IH1 _ IH2]; simpl.
  - apply Permutation_refl.
  - apply Permutation_app; assumption.
  - rewrite (Permutation_app_comm (bleaves l') (bleaves r')). apply Permutation_app; assumption.
Qed.

Lemma bsub_trans a b c : bsub a b -> bsub b c -> bsub a c.
Proof. intros H1 H2. induction H2; [exact H1|apply bsub_l; auto|apply bsub_r; auto]. Qed.

Lemma bleaves_flat T : bleaves (flat T) = flat_map bleaves (aleaves T).
Proof.
  induction T as [a|l IHl r IHr]; simpl; [rewrite app_nil_r; reflexivity|].
  rewrite flat_map_app, IHl, IHr. reflexivity.
Qed.

Lemma atom_bsub T a : In a (aleaves T) -> bsub a (flat T).
Proof.
  induction T as [x|l IHl r IHr]; simpl; intros H.
  - destruct H as [->|[]]. apply bsub_refl.
  - apply in_app_iff in H as [H|H]; [apply bsub_l|apply bsub_r]; auto.
Qed.

Lemma atom_leaves_in T a y : In a (aleaves T) -> In y (bleaves a) -> In y (bleaves (flat T)).
Proof. intros Ha Hy. rewrite bleaves_flat. apply in_flat_map. exists a. auto. Qed.

Lemma atom_leaves_le T a : In a (aleaves T) -> length (bleaves a) <= length (bleaves (flat T)).
Proof.
  induction T as [x|l IHl r IHr]; simpl; intros H.
  - destruct H as [->|[]]. lia.
  - rewrite app_length. apply in_app_iff in H as [H|H]; [apply IHl in H|apply IHr in H]; lia.
Qed.

Lemma big_is_join {A} (T : atree A) : 2 <= length (aleaves T) -> exists l r, T = Join l r.
Proof. destruct T as [a|l r]; simpl; [lia|]. intros _. exists l, r. reflexivity. Qed.

Lemma Forall2_in_l {A B} (R : A -> B -> Prop) l1 l2 a :
  Forall2 R l1 l2 -> In a l1 -> exists b, In b l2 /\ R a b.
Proof.
  induction 1 as [|x y l1 l2 Hxy _ IH]; intros H; [destruct H|].
  destruct H as [->|H]; [exists y; split; [left; reflexivity|exact Hxy]|].
  destruct (IH H) as [b [Hb Hr]]. exists b. split; [right; exact Hb|exact Hr].
Qed.

Lemma Forall2_in_r {A B} (R : A -> B -> Prop) l1 l2 b :
  Forall2 R l1 l2 -> In b l2 -> exists a, In a l1 /\ R a b.
Proof.
  induction 1 as [|x y l1 l2 Hxy _ IH]; intros H; [destruct H|].
  destruct H as [->|H]; [exists x; split; [left; reflexivity|exact Hxy]|].
  destruct (IH H) as [a [Ha Hr]]. exists a. split; [right; exact Ha|exact Hr].
Qed.

Lemma Forall2_impl_in {A B} (R R' : A -> B -> Prop) l1 l2 :
  Forall2 R l1 l2 -> (forall a b, In a l1 -> In b l2 -> R a b -> R' a b) -> Forall2 R' l1 l2.
Proof.
  induction 1 as [|x y l1 l2 Hxy _ IH]; intros HX; constructor.
  - apply HX; auto; left; reflexivity.
  - apply IH. intros a b Ha Hb. apply HX; right; assumption.
Qed.

Lemma Forall2_flip' {A B} (R : A -> B -> Prop) l1 l2 :
  Forall2 R l1 l2 -> Forall2 (fun b a => R a b) l2 l1.
Proof. induction 1; constructor; assumption. Qed.

Lemma in_product_map {A B} (f : A -> list B) cs xs :
  In xs (product (map f cs)) <-> Forall2 (fun c x => In x (f c)) cs xs.
Proof.
  rewrite in_product. split.
  - revert xs. induction cs as [|c cs IH]; intros xs H; inversion H; subst; constructor; auto.
  - induction 1; simpl; constructor; auto.
Qed.

Lemma flat_map_perm_pointwise {A B C} (f : A -> list C) (g : B -> list C) l1 l2 :
  Forall2 (fun a b => Permutation (f a) (g b)) l1 l2 -> Permutation (flat_map f l1) (flat_map g l2).
Proof. induction 1; simpl; [constructor|apply Permutation_app; assumption]. Qed.

Lemma nodup_app_inv {A} (l1 l2 : list A) :
  NoDup (l1 ++ l2) -> NoDup l1 /\ NoDup l2 /\ (forall y, In y l1 -> In y l2 -> False).
Proof.
  induction l1 as [|x l1 IH]; simpl; intros H.
  - split; [constructor|split; [exact H|tauto]].
  - inversion H as [|? ? Hn Hd]; subst. destruct (IH Hd) as [N1 [N2 D]].
    rewrite in_app_iff in Hn. split; [constructor; tauto|split; [exact N2|]].
    intros y [->|Hy] Hy2; [tauto|eauto].
Qed.

(** ** binarize produces refinements *)

Lemma in_binarize_node lb cs b :
  In b (binarize (RNode lb cs)) <->
  exists ds T, Forall2 (fun c d => In d (binarize c)) cs ds /\ In T (arrange ds) /\ b = relabel lb (flat T).
Proof.
  simpl. rewrite in_map_iff. split.
  - intros [x [<- Hx]]. apply in_flat_map in Hx as [ds [Hds Hx]].
    apply in_map_iff in Hx as [T [<- HT]]. exists ds, T.
    split; [apply in_product_map, Hds|auto].
  - intros [ds [T [Hds [HT ->]]]]. exists (flat T). split; [reflexivity|].
    apply in_flat_map. exists ds. split; [apply in_product_map, Hds|].
    apply in_map, HT.
Qed.

Lemma binarize_refines : forall t b, In b (binarize t) -> refines t b.
Proof.
  induction t as [n|lb cs IH] using rose_ind'; intros b H.
  - simpl in H. destruct H as [<-|[]]. reflexivity.
  - apply in_binarize_node in H as [ds [T [Hds [HT ->]]]].
    apply refines_node. exists ds, T. split; [|split; [apply arrange_perm, HT|reflexivity]].
    apply (Forall2_impl_in _ _ _ _ Hds). intros c d Hc _ Hd.
    rewrite Forall_forall in IH. apply IH; assumption.
Qed.

(** ** refinements keep leaves, clades and labels *)

Lemma refines_sound : forall t b, arity_ok t = true -> refines t b ->
  Permutation (bleaves b) (rleaves t) /\ keeps_clades t b.
Proof.
  induction t as [n|lb cs IH] using rose_ind'; intros b AR H.
  - simpl in H. subst b. split; [apply Permutation_refl|].
    intros s Hs. inversion Hs; subst. exists (BLeaf n). split; [apply bsub_refl|].
    split; [apply Permutation_refl|reflexivity].
  - apply refines_node in H as [ds [T [F2 [PT ->]]]].
    apply arity_ok_node in AR as [AR1 AR2]. rewrite Forall_forall in IH.
    assert (Forall2 (fun c d => Permutation (bleaves d) (rleaves c) /\ keeps_clades c d) cs ds) as F2'.
    { apply (Forall2_impl_in _ _ _ _ F2). intros c d Hc _ Hr. apply IH; auto. }
    assert (2 <= length (aleaves T)) as HL.
    { rewrite (Permutation_length PT). rewrite <- (Forall2_length' _ _ _ F2). exact AR1. }
    destruct (big_is_join T HL) as [l [r ->]].
    assert (Permutation (bleaves (BNode lb (flat l) (flat r))) (rleaves (RNode lb cs))) as PL.
    { change (bleaves (BNode lb (flat l) (flat r))) with (bleaves (flat (Join l r))).
      rewrite bleaves_flat. rewrite (Permutation_flat_map bleaves PT). simpl.
      apply flat_map_perm_pointwise.
      apply Forall2_flip'. apply (Forall2_impl_in _ _ _ _ F2'). intros c d _ _ [P _]. exact P. }
    split; [exact PL|].
    intros s Hs. inversion Hs as [|? c ? ? Hc Hsc]; subst.
    + exists (BNode lb (flat l) (flat r)). split; [apply bsub_refl|split; [exact PL|reflexivity]].
    + destruct (Forall2_in_l _ _ _ _ F2' Hc) as [d [Hd [_ KC]]].
      destruct (KC s Hsc) as [b' [Hb' [Pb' Lb']]].
      exists b'. split; [|split; assumption].
      apply (bsub_trans _ d); [exact Hb'|].
      apply (Permutation_in _ (Permutation_sym PT)) in Hd. simpl in Hd.
      apply in_app_iff in Hd as [Hd|Hd]; [apply bsub_l|apply bsub_r]; apply atom_bsub, Hd.
Qed.

(** ** every refinement is produced, up to child order *)

Lemma reatom {A} (R : A -> A -> Prop) (T : atree A) : forall l',
  Forall2 R (aleaves T) l' -> exists T', aleaves T' = l' /\ eqvR R T T'.
Proof.
  induction T as [a|l IHl r IHr]; intros l' F; simpl in F.
  - inversion F as [|? b ? ? Hab F']; subst. inversion F'; subst.
    exists (Atom b). split; [reflexivity|apply eR_atom, Hab].
  - apply Forall2_app_inv_l in F as [l1 [l2 [F1 [F2 ->]]]].
    destruct (IHl _ F1) as [l'' [<- E1]]. destruct (IHr _ F2) as [r'' [<- E2]].
    exists (Join l'' r''). split; [reflexivity|apply eR_same; assumption].
Qed.

Lemma flat_beqv T1 T2 : eqvR beqv T1 T2 -> beqv (flat T1) (flat T2).
Proof. induction 1; simpl; [assumption|apply be_same; assumption|apply be_swap; assumption]. Qed.

Lemma relabel_beqv lb a b : beqv a b -> beqv (relabel lb a) (relabel lb b).
Proof. intros H. destruct H; simpl; [apply be_leaf|apply be_same; assumption|apply be_swap; assumption]. Qed.

Lemma refines_complete : forall t b, refines t b -> exists b', In b' (binarize t) /\ beqv b b'.
Proof.
  induction t as [n|lb cs IH] using rose_ind'; intros b H.
  - simpl in H. subst b. exists (BLeaf n). split; [left; reflexivity|apply be_leaf].
  - apply refines_node in H as [ds [T [F2 [PT ->]]]].
    rewrite Forall_forall in IH.
    assert (exists ds', Forall2 (fun c d' => In d' (binarize c)) cs ds' /\ Forall2 beqv ds ds') as [ds' [M B]].
    { clear PT. induction F2 as [|c d cs ds Hcd _ IH2].
      - exists []. split; constructor.
      - destruct IH2 as [ds' [M B]]; [intros x Hx; apply IH; right; exact Hx|].
        destruct (IH c (or_introl eq_refl) d Hcd) as [d' [Hd' Bd]].
        exists (d' :: ds'). split; constructor; assumption. }
    destruct (perm_forall2 beqv _ _ PT _ B) as [l' [Pl' Fl']].
    destruct (reatom beqv T _ Fl') as [T' [<- E]].
    destruct (arrange_complete ds' T' Pl') as [t' [Ht' E']].
    exists (relabel lb (flat t')). split.
    + apply in_binarize_node. exists ds', t'. auto.
    + apply relabel_beqv, flat_beqv.
      apply (eqvR_trans beqv eq beqv) with (t2 := T'); [intros; subst; assumption|exact E|exact E'].
Qed.

(** ** counting *)

Lemma binarize_length : forall t, length (binarize t) = refinement_count t.
Proof.
  induction t as [n|lb cs IH] using rose_ind'; [reflexivity|].
  simpl. rewrite map_length.
  rewrite (flat_map_length_const _ _ (arr_count (length cs))).
  - rewrite product_length. rewrite Nat.mul_comm. f_equal.
    induction IH as [|c cs Hc _ IH2]; simpl; [reflexivity|]. rewrite Hc, IH2. reflexivity.
  - intros ds Hds. rewrite map_length, arrange_length. f_equal.
    apply in_product in Hds. apply Forall2_length' in Hds. rewrite map_length in Hds. exact Hds.
Qed.

(** ** no refinement is produced twice *)

(** [ds] is a family of trees whose leaf lists are, position by position, the lists [Ls] *)
Definition fam (ds : list bt) (Ls : list (list lab)) : Prop :=
  Forall2 (fun d L => Permutation (bleaves d) L) ds Ls.

Lemma fam_tail_in ds Ls a y : fam ds Ls -> In a ds -> In y (bleaves a) -> In y (concat Ls).
Proof.
  intros F Ha Hy. destruct (Forall2_in_l _ _ _ _ F Ha) as [L' [HL' P']].
  apply in_concat. exists L'. split; [exact HL'|]. apply (Permutation_in _ P' Hy).
Qed.

Lemma fam_same_elt ds Ls : fam ds Ls -> NoDup (concat Ls) ->
  forall a1 a2 y, In a1 ds -> In a2 ds -> In y (bleaves a1) -> In y (bleaves a2) -> a1 = a2.
Proof.
  induction 1 as [|d L ds Ls HdL F IH]; intros ND a1 a2 y H1 H2 Y1 Y2; [destruct H1|].
  simpl in ND. apply nodup_app_inv in ND as [_ [ND' DJ]].
  destruct H1 as [<-|H1], H2 as [<-|H2].
  - reflexivity.
  - exfalso. apply (DJ y); [apply (Permutation_in _ HdL Y1)|apply (fam_tail_in ds Ls a2); auto].
  - exfalso. apply (DJ y); [apply (Permutation_in _ HdL Y2)|apply (fam_tail_in ds Ls a1); auto].
  - eapply IH; eauto.
Qed.

Lemma fam_nodup ds Ls : fam ds Ls -> NoDup (concat Ls) -> NoDup ds.
Proof.
  induction 1 as [|d L ds Ls HdL F IH]; intros ND; [constructor|].
  simpl in ND. apply nodup_app_inv in ND as [_ [ND' DJ]].
  constructor; [|apply IH, ND'].
  intros Hd. destruct (bleaves_inhab d) as [y Hy].
  apply (DJ y); [apply (Permutation_in _ HdL Hy)|apply (fam_tail_in ds Ls d); auto].
Qed.

Lemma fam_cross ds1 Ls : fam ds1 Ls -> forall ds2, fam ds2 Ls -> NoDup (concat Ls) ->
  forall a1 a2 y, In a1 ds1 -> In a2 ds2 -> In y (bleaves a1) -> In y (bleaves a2) ->
  Permutation (bleaves a1) (bleaves a2).
Proof.
  induction 1 as [|d1 L ds1 Ls HdL F1 IH]; intros ds2 F2 ND a1 a2 y H1 H2 Y1 Y2; [destruct H1|].
  inversion F2 as [|d2 ? ds2' ? HdL2 F2']; subst.
  simpl in ND. apply nodup_app_inv in ND as [_ [ND' DJ]].
  destruct H1 as [<-|H1], H2 as [<-|H2].
  - rewrite HdL, HdL2. apply Permutation_refl.
  - exfalso. apply (DJ y); [apply (Permutation_in _ HdL Y1)|apply (fam_tail_in ds2' Ls a2); auto].
  - exfalso. apply (DJ y); [apply (Permutation_in _ HdL2 Y2)|apply (fam_tail_in ds1 Ls a1); auto].
  - eapply (IH ds2'); eauto.
Qed.

Lemma fam_match ds1 Ls : fam ds1 Ls -> forall ds2, fam ds2 Ls -> NoDup (concat Ls) ->
  (forall a1, In a1 ds1 -> exists a2, In a2 ds2 /\ beqv a1 a2) -> Forall2 beqv ds1 ds2.
Proof.
  induction 1 as [|d1 L ds1 Ls HdL F1 IH]; intros ds2 F2 ND HM.
  - inversion F2; subst. constructor.
  - inversion F2 as [|d2 ? ds2' ? HdL2 F2']; subst.
    simpl in ND. apply nodup_app_inv in ND as [_ [ND' DJ]].
    constructor.
    + destruct (HM d1 (or_introl eq_refl)) as [a2 [[<-|Ha2] B]]; [exact B|exfalso].
      destruct (bleaves_inhab d1) as [y Hy].
      apply (DJ y); [apply (Permutation_in _ HdL Hy)|].
      apply (fam_tail_in ds2' Ls a2); auto. apply (Permutation_in _ (beqv_leaves _ _ B) Hy).
    + apply IH; auto. intros a1 Ha1.
      destruct (HM a1 (or_intror Ha1)) as [a2 [[<-|Ha2] B]]; [exfalso|exists a2; auto].
      destruct (bleaves_inhab a1) as [y Hy].
      apply (DJ y); [|apply (fam_tail_in ds1 Ls a1); auto].
      apply (Permutation_in _ HdL2). apply (Permutation_in _ (beqv_leaves _ _ B) Hy).
Qed.

Lemma bleaves_pos b : 1 <= length (bleaves b).
Proof. pose proof (bleaves_nonempty b). destruct (bleaves b); [contradiction|simpl; lia]. Qed.

(** atom boundaries can be recovered from the flattened trees when atoms that
    share a leaf have the same number of leaves *)
Lemma unflatten T1 : forall T2,
  (forall a1 a2 y, In a1 (aleaves T1) -> In a2 (aleaves T2) ->
     In y (bleaves a1) -> In y (bleaves a2) -> length (bleaves a1) = length (bleaves a2)) ->
  beqv (flat T1) (flat T2) -> eqvR beqv T1 T2.
Proof.
  induction T1 as [a1|l1 IHl r1 IHr]; intros [a2|l2 r2] HS E; simpl in E.
  - apply eR_atom, E.
  - exfalso. pose proof (beqv_leaves _ _ E) as P. simpl in P.
    destruct (aleaves_inhab l2) as [a2 Ha2]. destruct (bleaves_inhab a2) as [y Hy].
    assert (In y (bleaves a1)) as Hy1.
    { apply (Permutation_in _ (Permutation_sym P)). apply in_app_iff. left. eapply atom_leaves_in; eauto. }
    assert (In a2 (aleaves (Join l2 r2))) as Ha2' by (simpl; apply in_app_iff; auto).
    pose proof (HS a1 a2 y (or_introl eq_refl) Ha2' Hy1 Hy) as HL.
    pose proof (atom_leaves_le _ _ Ha2). apply Permutation_length in P. rewrite app_length in P.
    pose proof (bleaves_pos (flat r2)). lia.
  - exfalso. pose proof (beqv_leaves _ _ E) as P. simpl in P.
    destruct (aleaves_inhab l1) as [a1 Ha1]. destruct (bleaves_inhab a1) as [y Hy].
    assert (In y (bleaves a2)) as Hy2.
    { apply (Permutation_in _ P). apply in_app_iff. left. eapply atom_leaves_in; eauto. }
    assert (In a1 (aleaves (Join l1 r1))) as Ha1' by (simpl; apply in_app_iff; auto).
    pose proof (HS a1 a2 y Ha1' (or_introl eq_refl) Hy Hy2) as HL.
    pose proof (atom_leaves_le _ _ Ha1). apply Permutation_length in P. rewrite app_length in P.
    pose proof (bleaves_pos (flat r1)). lia.
  - inversion E as [|? ? ? ? ? E1 E2|? ? ? ? ? E1 E2]; subst.
    + apply eR_same; [apply IHl|apply IHr]; auto; intros a1 a2 y H1 H2; apply HS; simpl; apply in_app_iff; auto.
    + apply eR_swap; [apply IHl|apply IHr]; auto; intros a1 a2 y H1 H2; apply HS; simpl; apply in_app_iff; auto.
Qed.

Lemma nodup_flat_map_in {A B} (f : A -> list B) l a : NoDup (flat_map f l) -> In a l -> NoDup (f a).
Proof.
  induction l as [|x l IH]; intros ND H; [destruct H|]. simpl in ND.
  apply nodup_app_inv in ND as [N1 [N2 _]]. destruct H as [->|H]; auto.
Qed.

Lemma binarize_fop : forall t, NoDup (rleaves t) -> arity_ok t = true ->
  FOP (fun a b => ~ beqv a b) (binarize t).
Proof.
  induction t as [n|lb cs IH] using rose_ind'; intros ND AR.
  - simpl. constructor; constructor.
  - apply arity_ok_node in AR as [AR1 AR2]. rewrite Forall_forall in IH.
    simpl in ND. rewrite flat_map_concat_map in ND.
    (* every tuple of the product is a family over the children's leaf lists *)
    assert (forall ds, In ds (product (map binarize cs)) ->
              fam ds (map rleaves cs) /\ length ds = length cs) as FAM.
    { intros ds Hds. apply in_product_map in Hds. split.
      - unfold fam. clear -Hds AR2. induction Hds as [|c d cs ds Hd _ IHF]; simpl; constructor.
        + apply refines_sound; [apply AR2; left; reflexivity|apply binarize_refines, Hd].
        + apply IHF. intros x Hx. apply AR2. right; exact Hx.
      - symmetry. eapply Forall2_length'; eauto. }
    assert (forall ds T, In ds (product (map binarize cs)) -> In T (arrange ds) ->
              exists l r, flat T = BNode None l r) as JOIN.
    { intros ds T Hds HT. destruct (FAM ds Hds) as [_ HL].
      destruct (big_is_join T) as [l [r ->]].
      - rewrite (Permutation_length (arrange_perm _ _ HT)). lia.
      - simpl. eauto. }
    simpl.
    apply (fop_map (fun a b => ~ beqv a b)).
    + apply (fop_flat_map (fun xs ys => ~ Forall2 beqv xs ys)).
      * apply product_fop. apply Forall_forall. intros l Hl.
        apply in_map_iff in Hl as [c [<- Hc]]. apply IH; auto.
        rewrite <- flat_map_concat_map in ND. eapply nodup_flat_map_in; eauto.
      * intros ds Hds. destruct (FAM ds Hds) as [F _].
        apply (fop_map (fun t1 t2 => ~ eqv t1 t2)); [apply arrange_fop; eapply fam_nodup; eauto|].
        intros T1 T2 H1 H2 Hn E. apply Hn.
        pose proof (arrange_perm _ _ H1) as P1. pose proof (arrange_perm _ _ H2) as P2.
        assert (forall a1 a2 y, In a1 (aleaves T1) -> In a2 (aleaves T2) ->
                  In y (bleaves a1) -> In y (bleaves a2) -> a1 = a2) as SAME.
        { intros a1 a2 y Ha1 Ha2. apply (fam_same_elt ds _ F ND).
          - apply (Permutation_in _ P1 Ha1).
          - apply (Permutation_in _ P2 Ha2). }
        apply (eqvR_mono beqv eq).
        -- apply unflatten; [|exact E]. intros a1 a2 y Ha1 Ha2 Y1 Y2.
           rewrite (SAME a1 a2 y Ha1 Ha2 Y1 Y2). reflexivity.
        -- intros a1 a2 Ha1 Ha2 B. destruct (bleaves_inhab a1) as [y Hy].
           apply (SAME a1 a2 y Ha1 Ha2 Hy). apply (Permutation_in _ (beqv_leaves _ _ B) Hy).
      * intros ds1 ds2 x y Hds1 Hds2 Hn Hx Hy E. apply Hn.
        apply in_map_iff in Hx as [T1 [<- H1]]. apply in_map_iff in Hy as [T2 [<- H2]].
        destruct (FAM ds1 Hds1) as [F1 _]. destruct (FAM ds2 Hds2) as [F2 _].
        pose proof (arrange_perm _ _ H1) as P1. pose proof (arrange_perm _ _ H2) as P2.
        assert (eqvR beqv T1 T2) as ER.
        { apply unflatten; [|exact E]. intros a1 a2 z Ha1 Ha2 Z1 Z2.
          apply Permutation_length. apply (fam_cross ds1 _ F1 ds2 F2 ND a1 a2 z); auto.
          - apply (Permutation_in _ P1 Ha1).
          - apply (Permutation_in _ P2 Ha2). }
        apply (fam_match ds1 _ F1 ds2 F2 ND). intros a1 Ha1.
        apply (Permutation_in _ (Permutation_sym P1)) in Ha1.
        destruct (eqvR_in _ _ _ ER a1 Ha1) as [a2 [Ha2 B]].
        exists a2. split; [apply (Permutation_in _ P2 Ha2)|exact B].
    + intros a b Ha Hb Hn E. apply Hn.
      apply in_flat_map in Ha as [ds1 [Hds1 Ha]]. apply in_map_iff in Ha as [T1 [<- H1]].
      apply in_flat_map in Hb as [ds2 [Hds2 Hb]]. apply in_map_iff in Hb as [T2 [<- H2]].
      destruct (JOIN _ _ Hds1 H1) as [l1 [r1 J1]]. destruct (JOIN _ _ Hds2 H2) as [l2 [r2 J2]].
      rewrite J1, J2 in *. simpl in E.
      inversion E as [|? ? ? ? ? E1 E2|? ? ? ? ? E1 E2]; subst; [apply be_same|apply be_swap]; assumption.
Qed.

(** ** a binary tree is its own and only refinement *)

Lemma binarize_binary : forall t, is_binary t = true ->
  exists b, rose_to_bt t = Some b /\ binarize t = [b].
Proof.
  induction t as [n|lb cs IH] using rose_ind'; intros H.
  - exists (BLeaf n). split; reflexivity.
  - change (is_binary (RNode lb cs)) with (Nat.eqb (length cs) 2 && forallb is_binary cs) in H.
    apply andb_true_iff in H as [H1 H2]. apply Nat.eqb_eq in H1.
    destruct cs as [|a [|b [|? ?]]]; try discriminate.
    simpl in H2. rewrite andb_true_r in H2. apply andb_true_iff in H2 as [Ha Hb].
    inversion IH as [|? ? IHa IH']; subst. inversion IH' as [|? ? IHb _]; subst.
    destruct (IHa Ha) as [x [Hx Bx]]. destruct (IHb Hb) as [y [Hy By]].
    exists (BNode lb x y). split.
    + simpl. rewrite Hx, Hy. reflexivity.
    + simpl. rewrite Bx, By. reflexivity.
Qed.

Lemma input_binarize_product o s : input_binarize o s = list_prod (binarize o) (binarize s).
Proof.
  unfold input_binarize. destruct (is_binary o && is_binary s) eqn:E; [|reflexivity].
  apply andb_true_iff in E as [Eo Es].
  destruct (binarize_binary o Eo) as [x [-> ->]]. destruct (binarize_binary s Es) as [y [-> ->]].
  reflexivity.
Qed.

(** ** the statements in the form used by [Properties/C08.v] *)

(** generated trees are binary in the sense of the code's [is_binary] *)
Fixpoint bt_to_rose (b : bt) : rose :=
  match b with
  | BLeaf n => RLeaf n
  | BNode lb l r => RNode lb [bt_to_rose l; bt_to_rose r]
  end.

Lemma bt_is_binary b : is_binary (bt_to_rose b) = true.
Proof. induction b as [n|lb l IHl r IHr]; [reflexivity|]. simpl. rewrite IHl, IHr. reflexivity. Qed.

Lemma rose_to_bt_to_rose b : rose_to_bt (bt_to_rose b) = Some b.
Proof. induction b as [n|lb l IHl r IHr]; [reflexivity|]. simpl. rewrite IHl, IHr. reflexivity. Qed.

Lemma bt_to_rose_leaves b : rleaves (bt_to_rose b) = bleaves b.
Proof. induction b as [n|lb l IHl r IHr]; [reflexivity|]. simpl. rewrite IHl, IHr, app_nil_r. reflexivity. Qed.

Theorem binarize_sound : forall t b, arity_ok t = true -> In b (binarize t) ->
  is_binary (bt_to_rose b) = true /\
  Permutation (bleaves b) (rleaves t) /\
  (forall s, rsub s t ->
     exists b', bsub b' b /\ Permutation (bleaves b') (rleaves s) /\ blabel b' = rlabel s).
Proof.
  intros t b AR H. split; [apply bt_is_binary|].
  apply refines_sound; [exact AR|apply binarize_refines, H].
Qed.

(** a clade with a single leaf is that leaf: leaves keep their names *)
Lemma single_leaf_clade b n : Permutation (bleaves b) [n] -> b = BLeaf n.
Proof.
  intros P. destruct b as [m|lb l r]; simpl in P.
  - apply Permutation_length_1 in P. subst. reflexivity.
  - apply Permutation_length in P. rewrite app_length in P. simpl in P.
    pose proof (bleaves_pos l). pose proof (bleaves_pos r). lia.
Qed.

Theorem binarize_leaves_kept : forall t b n, arity_ok t = true -> In b (binarize t) ->
  rsub (RLeaf n) t -> bsub (BLeaf n) b.
Proof.
  intros t b n AR H Hs. destruct (binarize_sound t b AR H) as [_ [_ KC]].
  destruct (KC _ Hs) as [b' [Hb' [P _]]]. simpl in P.
  rewrite (single_leaf_clade _ _ P) in Hb'. exact Hb'.
Qed.

Theorem arrange_count_double_fact {A} (xs : list A) k :
  length xs = S k -> length (arrange xs) = odd_double_fact k.
Proof. intros H. rewrite arrange_length, H. reflexivity. Qed.

(** ** the literal variant (explicit [ignore] set) agrees with the atom variant *)

Lemma flat_map_ext_in' {A B} (f g : A -> list B) l :
  (forall a, In a l -> f a = g a) -> flat_map f l = flat_map g l.
Proof.
  induction l as [|x l IH]; intros H; simpl; [reflexivity|].
  rewrite H by (left; reflexivity). rewrite IH; [reflexivity|]. intros a Ha. apply H. right; exact Ha.
Qed.

Lemma flat_map_of_map {A B C} (f : B -> list C) (g : A -> B) l :
  flat_map f (map g l) = flat_map (fun x => f (g x)) l.
Proof. induction l as [|x l IH]; simpl; [reflexivity|]. rewrite IH. reflexivity. Qed.

Lemma map_of_flat_map {A B C} (f : B -> C) (g : A -> list B) l :
  map f (flat_map g l) = flat_map (fun x => map f (g x)) l.
Proof. induction l as [|x l IH]; simpl; [reflexivity|]. rewrite map_app, IH. reflexivity. Qed.

Lemma product_fam cs ds :
  (forall c, In c cs -> arity_ok c = true) ->
  In ds (product (map binarize cs)) -> fam ds (map rleaves cs).
Proof.
  intros AR Hds. apply in_product_map in Hds. unfold fam.
  induction Hds as [|c d cs ds Hd _ IHF]; simpl; constructor.
  - apply refines_sound; [apply AR; left; reflexivity|apply binarize_refines, Hd].
  - apply IHF. intros x Hx. apply AR. right; exact Hx.
Qed.

Section LiteralProofs.
Variable same_id : bt -> bt -> bool.
Hypothesis same_id_refl : forall a, same_id a a = true.
Hypothesis same_id_leaves :
  forall a b, same_id a b = true -> forall y, In y (bleaves a) <-> In y (bleaves b).

(** no subtree made of two or more atoms has the id of a member of [ign] *)
Fixpoint joins_free (ign : list bt) (T : atree bt) : Prop :=
  match T with
  | Atom _ => True
  | Join l r =>
      existsb (same_id (flat (Join l r))) ign = false /\ joins_free ign l /\ joins_free ign r
  end.

Lemma graft_lit_atoms ign x : forall T,
  (forall a, In a (aleaves T) -> In a ign) -> joins_free ign T ->
  graft_lit same_id ign (flat T) x = map flat (graft T x).
Proof.
  induction T as [a|l IHl r IHr]; intros HA JF.
  - simpl. destruct a as [n|lb l r]; [reflexivity|].
    assert (existsb (same_id (BNode lb l r)) ign = true) as E.
    { apply existsb_exists. exists (BNode lb l r).
      split; [apply HA; left; reflexivity|apply same_id_refl]. }
    simpl. rewrite E. reflexivity.
  - destruct JF as [NF [Jl Jr]].
    change (flat (Join l r)) with (BNode None (flat l) (flat r)) in *.
    simpl graft_lit. rewrite NF.
    rewrite IHl, IHr; auto; try (intros a Ha; apply HA; simpl; apply in_app_iff; auto).
    simpl. rewrite map_app, !map_map. reflexivity.
Qed.

Definition separated (xs : list bt) : Prop :=
  forall a1 a2 y, In a1 xs -> In a2 xs -> In y (bleaves a1) -> In y (bleaves a2) -> a1 = a2.

Lemma sep_joins_free xs : separated xs ->
  forall T, (forall a, In a (aleaves T) -> In a xs) -> NoDup (aleaves T) -> joins_free xs T.
Proof.
  intros SEP. induction T as [a|l IHl r IHr]; intros HA ND; [exact I|].
  simpl in ND. apply nodup_app_inv in ND as [Nl [Nr DJ]].
  split; [|split; [apply IHl|apply IHr]; auto; intros a Ha; apply HA; simpl; apply in_app_iff; auto].
  destruct (existsb (same_id (flat (Join l r))) xs) eqn:E; [exfalso|reflexivity].
  apply existsb_exists in E as [a [Ha Hid]].
  destruct (aleaves_inhab l) as [a1 Ha1]. destruct (aleaves_inhab r) as [a2 Ha2].
  destruct (bleaves_inhab a1) as [y1 Hy1]. destruct (bleaves_inhab a2) as [y2 Hy2].
  assert (In a1 (aleaves (Join l r))) as Ha1' by (simpl; apply in_app_iff; auto).
  assert (In a2 (aleaves (Join l r))) as Ha2' by (simpl; apply in_app_iff; auto).
  assert (a1 = a) as E1.
  { apply (SEP a1 a y1); [apply HA, Ha1'|exact Ha|exact Hy1|].
    apply (same_id_leaves _ _ Hid). apply (atom_leaves_in (Join l r) a1); assumption. }
  assert (a2 = a) as E2.
  { apply (SEP a2 a y2); [apply HA, Ha2'|exact Ha|exact Hy2|].
    apply (same_id_leaves _ _ Hid). apply (atom_leaves_in (Join l r) a2); assumption. }
  subst a1 a2. apply (DJ a); assumption.
Qed.

Lemma arrange_lit_atoms xs : separated xs -> NoDup xs ->
  arrange_lit same_id xs = map flat (arrange xs).
Proof.
  induction xs as [|x xs IH]; intros SEP ND; [reflexivity|].
  destruct xs as [|y ys]; [reflexivity|].
  rewrite arrange_cons.
  change (arrange_lit same_id (x :: y :: ys))
    with (flat_map (fun t => graft_lit same_id (y :: ys) t x) (arrange_lit same_id (y :: ys))).
  inversion ND as [|? ? Nx ND']; subst.
  assert (separated (y :: ys)) as SEP'.
  { intros a1 a2 z H1 H2. apply SEP; right; assumption. }
  rewrite (IH SEP' ND'). rewrite flat_map_of_map, map_of_flat_map.
  apply flat_map_ext_in'. intros T HT.
  pose proof (arrange_perm _ _ HT) as P.
  apply graft_lit_atoms.
  - intros a Ha. apply (Permutation_in _ P Ha).
  - apply sep_joins_free; [exact SEP'| |].
    + intros a Ha. apply (Permutation_in _ P Ha).
    + apply (Permutation_NoDup (Permutation_sym P) ND').
Qed.

Theorem binarize_lit_eq : forall t, NoDup (rleaves t) -> arity_ok t = true ->
  binarize_lit same_id t = binarize t.
Proof.
  induction t as [n|lb cs IH] using rose_ind'; intros ND AR; [reflexivity|].
  apply arity_ok_node in AR as [AR1 AR2]. rewrite Forall_forall in IH.
  simpl in ND.
  assert (map (binarize_lit same_id) cs = map binarize cs) as EM.
  { apply map_ext_in. intros c Hc. apply IH; auto. eapply nodup_flat_map_in; eauto. }
  simpl. rewrite EM. f_equal.
  apply flat_map_ext_in'. intros ds Hds.
  pose proof (product_fam cs ds AR2 Hds) as F.
  rewrite flat_map_concat_map in ND.
  apply arrange_lit_atoms.
  - intros a1 a2 y. apply (fam_same_elt ds _ F ND).
  - eapply fam_nodup; eauto.
Qed.

End LiteralProofs.

(** the concrete comparison "same set of leaf names" meets the two hypotheses *)
Lemma lab_eqb_eq a b : lab_eqb a b = true <-> a = b.
Proof.
  destruct a as [x|], b as [y|]; simpl; split; intros H; try discriminate; try reflexivity.
  - apply Nat.eqb_eq in H. subst. reflexivity.
  - inversion H. apply Nat.eqb_refl.
Qed.

Lemma same_leafset_refl a : same_leafset a a = true.
Proof.
  unfold same_leafset.
  assert (forallb (fun y => existsb (lab_eqb y) (bleaves a)) (bleaves a) = true) as ->; [|reflexivity].
  apply forallb_forall. intros y Hy. apply existsb_exists. exists y. split; [exact Hy|apply lab_eqb_eq; reflexivity].
Qed.

Lemma same_leafset_leaves a b : same_leafset a b = true ->
  forall y, In y (bleaves a) <-> In y (bleaves b).
Proof.
  unfold same_leafset. intros H. apply andb_true_iff in H as [H1 H2].
  rewrite forallb_forall in H1, H2. intros y. split; intros Hy.
  - apply H1 in Hy. apply existsb_exists in Hy as [z [Hz E]]. apply lab_eqb_eq in E. subst. exact Hz.
  - apply H2 in Hy. apply existsb_exists in Hy as [z [Hz E]]. apply lab_eqb_eq in E. subst. exact Hz.
Qed.

(** ** completeness against the clade characterisation *)

Lemma bsub_inv s lb l r : bsub s (BNode lb l r) -> s = BNode lb l r \/ bsub s l \/ bsub s r.
Proof. intros H. inversion H; subst; auto. Qed.

Lemma bsub_leaves_in s b y : bsub s b -> In y (bleaves s) -> In y (bleaves b).
Proof. induction 1; intros Hy; simpl; auto; apply in_app_iff; auto. Qed.

Lemma bsub_len s b : bsub s b -> length (bleaves s) <= length (bleaves b).
Proof. induction 1; simpl; rewrite ?app_length; lia. Qed.

Lemma bsub_len_eq s b : bsub s b -> length (bleaves s) = length (bleaves b) -> s = b.
Proof.
  induction 1 as [b|s lb l r H IH|s lb l r H IH]; intros E; [reflexivity| |]; exfalso;
    simpl in E; rewrite app_length in E; pose proof (bsub_len _ _ H);
    pose proof (bleaves_pos l); pose proof (bleaves_pos r); lia.
Qed.

Lemma bsub_nested b : NoDup (bleaves b) -> forall x y z, bsub x b -> bsub y b ->
  In z (bleaves x) -> In z (bleaves y) -> bsub x y \/ bsub y x.
Proof.
  induction b as [n|lb l IHl r IHr]; intros ND x y z Hx Hy Zx Zy.
  - inversion Hx; subst. inversion Hy; subst. left. apply bsub_refl.
  - simpl in ND. apply nodup_app_inv in ND as [Nl [Nr DJ]].
    apply bsub_inv in Hx as [->|[Hx|Hx]]; [right; exact Hy|..];
      apply bsub_inv in Hy as [->|[Hy|Hy]]; try (left; first [apply bsub_l; exact Hx|apply bsub_r; exact Hx]).
    + eapply IHl; eauto.
    + exfalso. apply (DJ z); eapply bsub_leaves_in; eauto.
    + exfalso. apply (DJ z); eapply bsub_leaves_in; eauto.
    + eapply IHr; eauto.
Qed.

Lemma rsub_inv s lb cs : rsub s (RNode lb cs) -> s = RNode lb cs \/ exists c, In c cs /\ rsub s c.
Proof. intros H. inversion H; subst; [left; reflexivity|right; eauto]. Qed.

Lemma rsub_trans a b c : rsub a b -> rsub b c -> rsub a c.
Proof. intros H1 H2. induction H2; [exact H1|eapply rsub_child; eauto]. Qed.

Lemma rsub_leaves_in s t y : rsub s t -> In y (rleaves s) -> In y (rleaves t).
Proof.
  induction 1 as [t|s c lb cs Hc _ IH]; intros Hy; [exact Hy|].
  simpl. apply in_flat_map. exists c. auto.
Qed.

Lemma rsub_arity s t : rsub s t -> arity_ok t = true -> arity_ok s = true.
Proof.
  induction 1 as [t|s c lb cs Hc _ IH]; intros AR; [exact AR|].
  apply arity_ok_node in AR as [_ AR]. apply IH, AR, Hc.
Qed.

Lemma flat_map_length_ge {A B} (f : A -> list B) l c :
  (forall x, In x l -> 1 <= length (f x)) -> In c l ->
  length (f c) + (length l - 1) <= length (flat_map f l).
Proof.
  induction l as [|x l IH]; intros H Hc; [destruct Hc|].
  simpl. rewrite app_length. destruct Hc as [->|Hc].
  - assert (length l <= length (flat_map f l)).
    { clear -H. induction l as [|y l IH]; simpl; [lia|]. rewrite app_length.
      pose proof (H y (or_intror (or_introl eq_refl))).
      assert (length l <= length (flat_map f l)); [|lia].
      apply IH. intros z [->|Hz]; apply H; [left; reflexivity|right; right; exact Hz]. }
    lia.
  - pose proof (H x (or_introl eq_refl)).
    assert (length (f c) + (length l - 1) <= length (flat_map f l)).
    { apply IH; auto. intros z Hz. apply H. right; exact Hz. }
    destruct l; [destruct Hc|simpl in *; lia].
Qed.

Lemma rleaves_pos t : arity_ok t = true -> 1 <= length (rleaves t).
Proof.
  induction t as [n|lb cs IH] using rose_ind'; intros AR; [simpl; lia|].
  apply arity_ok_node in AR as [AR1 AR2]. rewrite Forall_forall in IH.
  destruct cs as [|c cs]; [simpl in AR1; lia|].
  pose proof (flat_map_length_ge rleaves (c :: cs) c) as H. simpl in *.
  assert (1 <= length (rleaves c)) by (apply IH; auto).
  rewrite app_length. lia.
Qed.

Lemma nodup_flat_map_same {A B} (f : A -> list B) l a b y :
  NoDup (flat_map f l) -> In a l -> In b l -> In y (f a) -> In y (f b) -> a = b.
Proof.
  induction l as [|x l IH]; intros ND Ha Hb Ya Yb; [destruct Ha|].
  simpl in ND. apply nodup_app_inv in ND as [_ [ND' DJ]].
  destruct Ha as [->|Ha], Hb as [->|Hb]; auto.
  - exfalso. apply (DJ y Ya). apply in_flat_map. eauto.
  - exfalso. apply (DJ y Yb). apply in_flat_map. eauto.
Qed.

Lemma rsub_nested : forall t, NoDup (rleaves t) -> forall s c z, rsub s t -> rsub c t ->
  In z (rleaves s) -> In z (rleaves c) -> rsub s c \/ rsub c s.
Proof.
  induction t as [n|lb cs IH] using rose_ind'; intros ND s c z Hs Hc Zs Zc.
  - inversion Hs; subst. inversion Hc; subst. left. apply rsub_refl.
  - rewrite Forall_forall in IH. simpl in ND.
    apply rsub_inv in Hs as [->|[c1 [H1 Hs]]]; [right; exact Hc|].
    apply rsub_inv in Hc as [->|[c2 [H2 Hc]]]; [left; eapply rsub_child; eauto|].
    assert (c1 = c2) as <-.
    { apply (nodup_flat_map_same rleaves cs c1 c2 z ND H1 H2); eapply rsub_leaves_in; eauto. }
    apply (IH c1 H1 (nodup_flat_map_in _ _ _ ND H1) s c z); auto.
Qed.

Lemma rsub_len s t : rsub s t -> length (rleaves s) <= length (rleaves t).
Proof.
  induction 1 as [t|s c lb cs Hc _ IH]; [lia|]. simpl.
  assert (length (rleaves c) <= length (flat_map rleaves cs)); [|lia].
  clear -Hc. induction cs as [|x cs IHcs]; [destruct Hc|]. simpl. rewrite app_length.
  destruct Hc as [->|Hc]; [lia|]. apply IHcs in Hc. lia.
Qed.

Lemma bsub_nodup x b0 : bsub x b0 -> NoDup (bleaves b0) -> NoDup (bleaves x).
Proof.
  induction 1 as [b0|s lb l r _ IH|s lb l r _ IH]; intros N; [exact N| |];
    simpl in N; apply nodup_app_inv in N as [Nl [Nr _]]; auto.
Qed.

Lemma rsub_nodup s t : rsub s t -> NoDup (rleaves t) -> NoDup (rleaves s).
Proof.
  induction 1 as [t|s c lb cs Hc _ IH]; intros N; [exact N|].
  apply IH. simpl in N. eapply nodup_flat_map_in; eauto.
Qed.

(** splitting a forest along the two children of a node *)
Lemma split_forest (l r : bt) (cs1 : list rose) :
  NoDup (bleaves l ++ bleaves r) ->
  Permutation (bleaves l ++ bleaves r) (flat_map rleaves cs1) ->
  (forall c, In c cs1 -> incl (rleaves c) (bleaves l) \/ incl (rleaves c) (bleaves r)) ->
  exists csl csr, Permutation cs1 (csl ++ csr) /\
    Permutation (bleaves l) (flat_map rleaves csl) /\ Permutation (bleaves r) (flat_map rleaves csr).
Proof.
  intros ND P SIDE.
  assert (exists csl csr, Permutation cs1 (csl ++ csr) /\
            (forall c, In c csl -> incl (rleaves c) (bleaves l)) /\
            (forall c, In c csr -> incl (rleaves c) (bleaves r))) as [csl [csr [PC [IL IR]]]].
  { clear P. induction cs1 as [|c cs1 IH].
    - exists [], []. split; [constructor|split; intros ? []].
    - destruct IH as [csl [csr [PC [IL IR]]]]; [intros x Hx; apply SIDE; right; exact Hx|].
      destruct (SIDE c (or_introl eq_refl)) as [S|S].
      + exists (c :: csl), csr. split; [simpl; constructor; exact PC|].
        split; [intros x [<-|Hx]; auto|exact IR].
      + exists csl, (c :: csr). split; [rewrite <- Permutation_middle; constructor; exact PC|].
        split; [exact IL|intros x [<-|Hx]; auto]. }
  exists csl, csr. split; [exact PC|].
  pose proof (nodup_app_inv _ _ ND) as [Nl [Nr DJ]].
  assert (Permutation (bleaves l ++ bleaves r) (flat_map rleaves csl ++ flat_map rleaves csr)) as P'.
  { rewrite P. rewrite <- flat_map_app. apply Permutation_flat_map, PC. }
  assert (NoDup (flat_map rleaves csl ++ flat_map rleaves csr)) as ND' by (apply (Permutation_NoDup P' ND)).
  pose proof (nodup_app_inv _ _ ND') as [Ncl [Ncr _]].
  assert (forall y, In y (flat_map rleaves csl) -> In y (bleaves l)) as I1.
  { intros y Hy. apply in_flat_map in Hy as [c [Hc Hy]]. apply (IL c Hc y Hy). }
  assert (forall y, In y (flat_map rleaves csr) -> In y (bleaves r)) as I2.
  { intros y Hy. apply in_flat_map in Hy as [c [Hc Hy]]. apply (IR c Hc y Hy). }
  split; apply NoDup_Permutation; auto; intros y; split; auto; intros Hy.
  - assert (In y (flat_map rleaves csl ++ flat_map rleaves csr)) as H
      by (apply (Permutation_in _ P'); apply in_app_iff; auto).
    apply in_app_iff in H as [H|H]; [exact H|]. exfalso. apply (DJ y Hy). apply I2, H.
  - assert (In y (flat_map rleaves csl ++ flat_map rleaves csr)) as H
      by (apply (Permutation_in _ P'); apply in_app_iff; auto).
    apply in_app_iff in H as [H|H]; [|exact H]. exfalso. apply (DJ y); [apply I1, H|exact Hy].
Qed.

Lemma join_parts cs1 csl csr dsl dsr (Tl Tr : atree bt) :
  Permutation cs1 (csl ++ csr) ->
  Forall2 refines csl dsl -> Forall2 refines csr dsr ->
  Permutation (aleaves Tl) dsl -> Permutation (aleaves Tr) dsr ->
  exists ds, Forall2 refines cs1 ds /\ Permutation (aleaves (Join Tl Tr)) ds.
Proof.
  intros PC Fl Fr Pl Pr.
  assert (Forall2 refines (csl ++ csr) (dsl ++ dsr)) as F by (apply Forall2_app; assumption).
  destruct (perm_forall2 refines _ _ PC _ F) as [ds [Pd Fd]].
  exists ds. split; [exact Fd|]. simpl. rewrite Pd. apply Permutation_app; assumption.
Qed.

Section CladeComplete.
Variables (t : rose) (b : bt).
Hypothesis ND : NoDup (rleaves t).
Hypothesis AR : arity_ok t = true.
Hypothesis PL : Permutation (bleaves b) (rleaves t).
Hypothesis KC : forall s, rsub s t ->
  exists b', bsub b' b /\ Permutation (bleaves b') (rleaves s) /\ blabel b' = rlabel s.
Hypothesis FR : forall b', bsub b' b ->
  (exists s, rsub s t /\ Permutation (bleaves b') (rleaves s)) \/ (exists l r, b' = BNode None l r).

Lemma NDb : NoDup (bleaves b).
Proof. apply (Permutation_NoDup (Permutation_sym PL) ND). Qed.

Lemma NDsub x : bsub x b -> NoDup (bleaves x).
Proof. intros H. apply (bsub_nodup _ _ H NDb). Qed.

Lemma image_unique x y : bsub x b -> bsub y b -> Permutation (bleaves x) (bleaves y) -> x = y.
Proof.
  intros Hx Hy P. destruct (bleaves_inhab x) as [z Hz].
  destruct (bsub_nested b NDb x y z Hx Hy Hz (Permutation_in _ P Hz)) as [H|H].
  - apply bsub_len_eq; [exact H|apply Permutation_length, P].
  - symmetry. apply bsub_len_eq; [exact H|symmetry; apply Permutation_length, P].
Qed.

(** where the clade of a child tree sits below a node that is bigger than it *)
Lemma side_of c' x lbx l r : rsub c' t -> bsub x b -> x = BNode lbx l r ->
  incl (rleaves c') (bleaves x) -> length (rleaves c') < length (bleaves x) ->
  incl (rleaves c') (bleaves l) \/ incl (rleaves c') (bleaves r).
Proof.
  intros Hc Hx -> INC LT.
  destruct (KC c' Hc) as [b' [Hb' [Pb' _]]].
  destruct (bleaves_inhab b') as [z Hz].
  assert (In z (bleaves (BNode lbx l r))) as Hz' by (apply INC; apply (Permutation_in _ Pb' Hz)).
  pose proof (Permutation_length Pb') as LB.
  destruct (bsub_nested b NDb b' _ z Hb' Hx Hz Hz') as [H|H].
  - apply bsub_inv in H as [->|[H|H]]; [lia| |].
    + left. intros y Hy. apply (bsub_leaves_in _ _ _ H). apply (Permutation_in _ (Permutation_sym Pb') Hy).
    + right. intros y Hy. apply (bsub_leaves_in _ _ _ H). apply (Permutation_in _ (Permutation_sym Pb') Hy).
  - apply bsub_len in H. lia.
Qed.

Section Node.
Variables (lbc : lab) (cs : list rose).
Hypothesis Hc : rsub (RNode lbc cs) t.
Hypothesis IHc : forall c1, In c1 cs -> forall x1, bsub x1 b ->
  Permutation (bleaves x1) (rleaves c1) -> refines c1 x1.

Lemma child_sub c1 : In c1 cs -> rsub c1 t.
Proof. intros H. eapply rsub_trans; [|exact Hc]. eapply rsub_child; [exact H|apply rsub_refl]. Qed.

Lemma child_pos c1 : In c1 cs -> 1 <= length (rleaves c1).
Proof. intros H. apply rleaves_pos. eapply rsub_arity; [apply child_sub, H|exact AR]. Qed.

Lemma NDcs : NoDup (flat_map rleaves cs).
Proof. apply (rsub_nodup _ _ Hc ND). Qed.

Lemma forest_step : forall x, bsub x b -> forall cs1,
  (forall c1, In c1 cs1 -> In c1 cs) ->
  Permutation (bleaves x) (flat_map rleaves cs1) ->
  length (bleaves x) < length (flat_map rleaves cs) ->
  exists ds T, Forall2 refines cs1 ds /\ Permutation (aleaves T) ds /\ x = flat T.
Proof.
  assert (forall x c1, bsub x b -> In c1 cs -> Permutation (bleaves x) (flat_map rleaves [c1]) ->
            exists ds T, Forall2 refines [c1] ds /\ Permutation (aleaves T) ds /\ x = flat T) as SINGLE.
  { intros x c1 Hx H1 P. simpl in P. rewrite app_nil_r in P.
    exists [x], (Atom x). split; [repeat constructor; apply IHc; auto|split; [apply Permutation_refl|reflexivity]]. }
  assert (forall x c1 c2 rest, (forall c, In c (c1 :: c2 :: rest) -> In c cs) ->
            Permutation (bleaves x) (flat_map rleaves (c1 :: c2 :: rest)) ->
            forall c, In c (c1 :: c2 :: rest) ->
            incl (rleaves c) (bleaves x) /\ length (rleaves c) < length (bleaves x)) as SMALL.
  { intros x c1 c2 rest INC P c Hcin. split.
    - intros y Hy. apply (Permutation_in _ (Permutation_sym P)). apply in_flat_map. eauto.
    - rewrite (Permutation_length P).
      pose proof (flat_map_length_ge rleaves (c1 :: c2 :: rest) c
                    (fun z Hz => child_pos z (INC z Hz)) Hcin) as H.
      remember (c1 :: c2 :: rest) as L eqn:EL.
      assert (2 <= length L) by (subst L; simpl; lia). lia. }
  induction x as [n|lbx l IHl r IHr]; intros Hx cs1 INC P LT.
  - destruct cs1 as [|c1 [|c2 rest]].
    + simpl in P. apply Permutation_sym, Permutation_nil in P. discriminate.
    + apply SINGLE; auto. apply INC. left; reflexivity.
    + exfalso. destruct (SMALL _ _ _ _ INC P c1 (or_introl eq_refl)) as [_ H].
      pose proof (child_pos c1 (INC c1 (or_introl eq_refl))). simpl in H. lia.
  - destruct cs1 as [|c1 [|c2 rest]].
    + apply Permutation_sym, Permutation_nil in P. destruct (bleaves_nonempty _ P).
    + apply SINGLE; auto. apply INC. left; reflexivity.
    + remember (c1 :: c2 :: rest) as cs1 eqn:Ecs1.
      assert (forall c, In c cs1 ->
                incl (rleaves c) (bleaves (BNode lbx l r)) /\ length (rleaves c) < length (bleaves (BNode lbx l r))) as SM.
      { subst cs1. apply SMALL; auto. }
      (* the node is a new one: unlabelled *)
      assert (lbx = None) as ->.
      { destruct (FR _ Hx) as [[s [Hs Ps]]|[l' [r' E]]]; [exfalso|inversion E; reflexivity].
        assert (In c1 cs1) as I1 by (subst cs1; left; reflexivity).
        assert (In c2 cs1) as I2 by (subst cs1; right; left; reflexivity).
        assert (forall c, In c cs1 -> exists z, In z (rleaves c) /\ In z (rleaves s)) as SH.
        { intros c Hcin. pose proof (child_pos c (INC c Hcin)) as HP.
          destruct (rleaves c) as [|z zs] eqn:E; [simpl in HP; lia|]. exists z. split; [left; reflexivity|].
          apply (Permutation_in _ Ps). apply (proj1 (SM c Hcin)). rewrite E. left; reflexivity. }
        destruct (SH c1 I1) as [z1 [Z1 Z1s]].
        assert (In z1 (rleaves (RNode lbc cs))) as Z1c.
        { simpl. apply in_flat_map. exists c1. split; [apply INC, I1|exact Z1]. }
        pose proof (Permutation_length Ps) as LS.
        destruct (rsub_nested t ND s (RNode lbc cs) z1 Hs Hc Z1s Z1c) as [H|H].
        - apply rsub_inv in H as [->|[c' [Hc' H]]].
          + simpl in LS, LT. lia.
          + destruct (SH c2 I2) as [z2 [Z2 Z2s]].
            assert (c1 = c') as E1.
            { apply (nodup_flat_map_same rleaves cs c1 c' z1 NDcs); auto. eapply rsub_leaves_in; eauto. }
            assert (c2 = c') as E2.
            { apply (nodup_flat_map_same rleaves cs c2 c' z2 NDcs); auto. eapply rsub_leaves_in; eauto. }
            subst c'. subst c2.
            assert (NoDup (flat_map rleaves cs1)) as N1 by (apply (Permutation_NoDup P), NDsub, Hx).
            subst cs1. simpl in N1. apply nodup_app_inv in N1 as [_ [_ DJ]].
            apply (DJ z1 Z1). apply in_app_iff. left; exact Z1.
        - apply rsub_len in H. simpl in H, LS, LT. lia. }
      assert (forall c, In c cs1 -> incl (rleaves c) (bleaves l) \/ incl (rleaves c) (bleaves r)) as SIDE.
      { intros c Hcin. destruct (SM c Hcin) as [I L].
        apply (side_of c (BNode None l r) None l r); auto. apply child_sub, INC, Hcin. }
      pose proof (NDsub _ Hx) as Nx. simpl in Nx, P.
      destruct (split_forest l r cs1 Nx P SIDE) as [csl [csr [PC [Pl Pr]]]].
      assert (bsub l b) as Hl by (eapply bsub_trans; [apply bsub_l, bsub_refl|exact Hx]).
      assert (bsub r b) as Hr by (eapply bsub_trans; [apply bsub_r, bsub_refl|exact Hx]).
      simpl in LT. rewrite app_length in LT.
      pose proof (bleaves_pos l). pose proof (bleaves_pos r).
      destruct (IHl Hl csl) as [dsl [Tl [Fl [PTl El]]]]; auto; [|lia|].
      { intros c Hcin. apply INC. apply (Permutation_in _ (Permutation_sym PC)). apply in_app_iff; auto. }
      destruct (IHr Hr csr) as [dsr [Tr [Fr [PTr Er]]]]; auto; [|lia|].
      { intros c Hcin. apply INC. apply (Permutation_in _ (Permutation_sym PC)). apply in_app_iff; auto. }
      destruct (join_parts cs1 csl csr dsl dsr Tl Tr PC Fl Fr PTl PTr) as [ds [Fd Pd]].
      exists ds, (Join Tl Tr). split; [exact Fd|split; [exact Pd|]].
      simpl. rewrite <- El, <- Er. reflexivity.
Qed.

End Node.

Lemma clade_refines_all : forall c, rsub c t -> forall x, bsub x b ->
  Permutation (bleaves x) (rleaves c) -> refines c x.
Proof.
  induction c as [n|lbc cs IH] using rose_ind'; intros Hc x Hx P.
  - simpl in P. simpl. apply single_leaf_clade, P.
  - rewrite Forall_forall in IH.
    assert (forall c1, In c1 cs -> forall x1, bsub x1 b ->
              Permutation (bleaves x1) (rleaves c1) -> refines c1 x1) as IHc.
    { intros c1 H1. apply IH; auto. eapply child_sub; eauto. }
    pose proof (rsub_arity _ _ Hc AR) as A. apply arity_ok_node in A as [A1 A2].
    (* x is the image of the node: it bears its label *)
    destruct (KC _ Hc) as [b' [Hb' [Pb' Lb']]]. simpl in Lb'.
    assert (b' = x) as -> by (apply image_unique; auto; rewrite Pb', P; apply Permutation_refl).
    assert (forall c, In c cs ->
              incl (rleaves c) (bleaves x) /\ length (rleaves c) < length (bleaves x)) as SM.
    { intros c Hcin. split.
      - intros y Hy. apply (Permutation_in _ (Permutation_sym P)). simpl. apply in_flat_map. eauto.
      - rewrite (Permutation_length P). simpl.
        pose proof (flat_map_length_ge rleaves cs c (fun z Hz => child_pos lbc cs Hc z Hz) Hcin). lia. }
    destruct x as [n|lbx l r].
    { exfalso. destruct cs as [|c0 cs']; [simpl in A1; lia|].
      destruct (SM c0 (or_introl eq_refl)) as [_ H].
      pose proof (child_pos lbc _ Hc c0 (or_introl eq_refl)). simpl in H. lia. }
    simpl in Lb'. subst lbx.
    assert (forall c, In c cs -> incl (rleaves c) (bleaves l) \/ incl (rleaves c) (bleaves r)) as SIDE.
    { intros c Hcin. destruct (SM c Hcin) as [I L].
      apply (side_of c (BNode lbc l r) lbc l r); auto. eapply child_sub; eauto. }
    pose proof (NDsub _ Hx) as Nx. simpl in Nx, P.
    destruct (split_forest l r cs Nx P SIDE) as [csl [csr [PC [Pl Pr]]]].
    assert (bsub l b) as Hl by (eapply bsub_trans; [apply bsub_l, bsub_refl|exact Hx]).
    assert (bsub r b) as Hr by (eapply bsub_trans; [apply bsub_r, bsub_refl|exact Hx]).
    pose proof (bleaves_pos l). pose proof (bleaves_pos r).
    pose proof (Permutation_length P) as LP. rewrite app_length in LP.
    destruct (forest_step lbc cs Hc IHc l Hl csl) as [dsl [Tl [Fl [PTl El]]]]; auto; [|lia|].
    { intros c Hcin. apply (Permutation_in _ (Permutation_sym PC)). apply in_app_iff; auto. }
    destruct (forest_step lbc cs Hc IHc r Hr csr) as [dsr [Tr [Fr [PTr Er]]]]; auto; [|lia|].
    { intros c Hcin. apply (Permutation_in _ (Permutation_sym PC)). apply in_app_iff; auto. }
    destruct (join_parts cs csl csr dsl dsr Tl Tr PC Fl Fr PTl PTr) as [ds [Fd Pd]].
    apply refines_node. exists ds, (Join Tl Tr). split; [exact Fd|split; [exact Pd|]].
    simpl. rewrite <- El, <- Er. reflexivity.
Qed.

End CladeComplete.

Theorem clade_refinement_is_refines : forall t b,
  NoDup (rleaves t) -> arity_ok t = true ->
  Permutation (bleaves b) (rleaves t) ->
  (forall s, rsub s t ->
     exists b', bsub b' b /\ Permutation (bleaves b') (rleaves s) /\ blabel b' = rlabel s) ->
  (forall b', bsub b' b ->
     (exists s, rsub s t /\ Permutation (bleaves b') (rleaves s)) \/ (exists l r, b' = BNode None l r)) ->
  refines t b.
Proof.
  intros t b ND AR PL KC FR.
  apply (clade_refines_all t b ND AR PL KC FR t (rsub_refl t) b (bsub_refl b) PL).
Qed.

(** every binary tree meeting the clade characterisation is produced, up to child order *)
Theorem clade_refinement_produced : forall t b,
  NoDup (rleaves t) -> arity_ok t = true ->
  Permutation (bleaves b) (rleaves t) ->
  (forall s, rsub s t ->
     exists b', bsub b' b /\ Permutation (bleaves b') (rleaves s) /\ blabel b' = rlabel s) ->
  (forall b', bsub b' b ->
     (exists s, rsub s t /\ Permutation (bleaves b') (rleaves s)) \/ (exists l r, b' = BNode None l r)) ->
  exists b0, In b0 (binarize t) /\ beqv b b0.
Proof.
  intros t b ND AR PL KC FR. apply refines_complete.
  apply clade_refinement_is_refines; assumption.
Qed.
