(** The exhaustive solver ([compute/exhaustive.py]): [generate_all] yields every
    valid reconciliation exactly once, and [reconcile_exhaustive] returns the
    minimum cost together with exactly the minimum-cost reconciliations (ALL) or
    one of them (ANY). *)
From Coq Require Import List Bool Arith ZArith Lia Permutation.
From SR Require Import Base.PathB Base.Ext Model.Entry Model.Recon Model.Thl
  Proofs.PathFacts Proofs.ReconProofs Proofs.LcaProofs Proofs.EntryProofs.
Import ListNotations.

(** * decidable equality of reconciliations *)
Lemma rtree_eqb_spec : forall a b, reflect (a = b) (rtree_eqb a b).
Proof.
  induction a as [s|s a1 IH1 a2 IH2]; intros [t|t b1 b2]; cbn [rtree_eqb];
    try (constructor; congruence).
  - destruct (path_eqb_spec s t); constructor; congruence.
  - destruct (path_eqb_spec s t); cbn [andb]; [|constructor; congruence].
    destruct (IH1 b1); cbn [andb]; [|constructor; congruence].
    destruct (IH2 b2); constructor; congruence.
Qed.

(** * prefixes *)
Lemma in_prefixes p q : In p (prefixes q) <-> anc p q = true.
Proof.
  revert p; induction q as [|x q IH]; intros p; cbn [prefixes].
  - destruct p; cbn; split; auto; try discriminate. intros [H|[]]; discriminate.
  - rewrite in_app_iff, in_map_iff. destruct p as [|y p]; cbn [is_prefix In].
    + split; auto.
    + rewrite andb_true_iff. split.
      * intros [[p' [E I]]|[E|[]]]; [|discriminate]. inversion E; subst.
        split; [apply eqb_reflx|now apply IH].
      * intros [E A]. apply eqb_prop in E; subst. left. exists p. split; auto. now apply IH.
Qed.

Lemma prefixes_nodup q : NoDup (prefixes q).
Proof.
  induction q as [|x q IH]; cbn [prefixes]; [repeat constructor; cbn; tauto|].
  apply NoDup_app_disj.
  - apply NoDup_map_inj; auto. intros a b H; now inversion H.
  - repeat constructor; cbn; tauto.
  - intros p H1 [<-|[]]. apply in_map_iff in H1 as [p' [E _]]. discriminate.
Qed.

Lemma anc_length_eq a b : anc a b = true -> length b <= length a -> a = b.
Proof.
  rewrite is_prefix_spec. intros [c ->]. rewrite app_length. intros L.
  destruct c; [now rewrite app_nil_r|cbn in L; lia].
Qed.

Lemma in_transfer_chain s l r m :
  In s (transfer_chain l r m) <-> anc r l = false /\ anc s l = true /\ length m < length s.
Proof.
  unfold transfer_chain. destruct (anc r l) eqn:E.
  - cbn. split; [tauto|intros [H _]; discriminate].
  - rewrite filter_In, in_prefixes, Nat.ltb_lt. tauto.
Qed.

Lemma transfer_chain_nodup l r m : NoDup (transfer_chain l r m).
Proof.
  unfold transfer_chain. destruct (anc r l); [constructor|].
  apply NoDup_filter, prefixes_nodup.
Qed.

(** * events of the placements *)
Lemma event_anc_both s l r : anc s l = true -> anc s r = true -> event s l r <> Inv.
Proof.
  intros A B. unfold event.
  rewrite (sanc_false_of_anc _ _ A), (sanc_false_of_anc _ _ B), A, B. cbn [orb andb].
  destruct (path_eqb s (lcp l r) && negb (comparable l r)); discriminate.
Qed.

Lemma event_TrL_intro s l r :
  anc s l = true -> anc s r = false -> anc r s = false -> event s l r = TrL.
Proof.
  intros A B C. unfold event. rewrite (sanc_false_of_anc _ _ A). unfold sanc. rewrite C, A, B.
  reflexivity.
Qed.

Lemma event_TrR_intro s l r :
  anc s r = true -> anc s l = false -> anc l s = false -> event s l r = TrR.
Proof.
  intros A B C. unfold event. rewrite (sanc_false_of_anc _ _ A). unfold sanc. rewrite C, A, B.
  reflexivity.
Qed.

(* the placements of a parent whose children sit at [l] and [r] *)
Definition placements (l r : path) : list path :=
  prefixes (lcp l r) ++ transfer_chain l r (lcp l r) ++ transfer_chain r l (lcp l r).

Lemma long_prefix_not_common s l r :
  anc s l = true -> length (lcp l r) < length s -> anc s r = false.
Proof.
  intros A L. destruct (anc s r) eqn:B; auto.
  pose proof (is_prefix_length _ _ (lcp_greatest _ _ _ A B)). lia.
Qed.

Lemma placement_event s l r : In s (placements l r) -> anc s l = true \/ anc s r = true.
Proof.
  unfold placements. rewrite !in_app_iff, in_prefixes, !in_transfer_chain.
  intros [H|[[_ [H _]]|[_ [H _]]]]; auto.
  left. eapply is_prefix_trans; [exact H|apply lcp_prefix_l].
Qed.

Lemma placement_sound s l r : In s (placements l r) -> event s l r <> Inv.
Proof.
  unfold placements. rewrite !in_app_iff, in_prefixes, !in_transfer_chain.
  intros [H|[[N [A L]]|[N [A L]]]].
  - apply event_anc_both; (eapply is_prefix_trans; [exact H|]); [apply lcp_prefix_l|apply lcp_prefix_r].
  - rewrite event_TrL_intro; [discriminate|exact A| |].
    + eapply long_prefix_not_common; eauto.
    + destruct (anc r s) eqn:R; auto. rewrite (is_prefix_trans _ _ _ R A) in N. discriminate.
  - rewrite event_TrR_intro; [discriminate|exact A| |].
    + rewrite lcp_comm in L. eapply long_prefix_not_common; eauto.
    + destruct (anc l s) eqn:R; auto. rewrite (is_prefix_trans _ _ _ R A) in N. discriminate.
Qed.

(* a prefix of [l] that is not a prefix of [r] is strictly longer than the lcp *)
Lemma not_common_long s l r : anc s l = true -> anc s r = false -> length (lcp l r) < length s.
Proof.
  intros A B.
  destruct (prefixes_comparable s (lcp l r) l A (lcp_prefix_l l r)) as [H|H].
  - rewrite (is_prefix_trans _ _ _ H (lcp_prefix_r l r)) in B. discriminate.
  - destruct (Nat.lt_ge_cases (length (lcp l r)) (length s)) as [L|L]; auto.
    apply anc_length_eq in H; auto. subst s. rewrite lcp_prefix_r in B. discriminate.
Qed.

Lemma placement_complete s l r : event s l r <> Inv -> In s (placements l r).
Proof.
  intros NI. unfold placements. rewrite !in_app_iff, in_prefixes, !in_transfer_chain.
  destruct (event s l r) eqn:E; try congruence.
  - left. destruct (event_SD s l r) as [A B]; auto. now apply lcp_greatest.
  - left. destruct (event_SD s l r) as [A B]; auto. now apply lcp_greatest.
  - right; left. destruct (event_TrL_inv _ _ _ E) as [A [B C]]. repeat split; auto.
    + destruct (anc r l) eqn:R; auto.
      destruct (prefixes_comparable r s l R A); congruence.
    + now apply not_common_long.
  - right; right. destruct (event_TrR_inv _ _ _ E) as [A [B C]]. repeat split; auto.
    + destruct (anc l r) eqn:R; auto.
      destruct (prefixes_comparable l s r R A); congruence.
    + rewrite lcp_comm. now apply not_common_long.
Qed.

Lemma placements_nodup l r : NoDup (placements l r).
Proof.
  unfold placements. apply NoDup_app_disj; [apply prefixes_nodup| |].
  - apply NoDup_app_disj; try apply transfer_chain_nodup.
    intros s H1 H2. apply in_transfer_chain in H1 as [_ [A L]]. apply in_transfer_chain in H2 as [_ [B _]].
    rewrite (long_prefix_not_common _ _ _ A L) in B. discriminate.
  - intros s H1 H2. apply in_prefixes in H1. apply is_prefix_length in H1.
    apply in_app_iff in H2 as [H2|H2]; apply in_transfer_chain in H2 as [_ [_ L]]; lia.
Qed.

Lemma gen_all_node a b r :
  In r (gen_all (ONode a b)) <->
  exists ra rb s, In ra (gen_all a) /\ In rb (gen_all b) /\ In s (placements (root ra) (root rb)) /\
                  r = RNode s ra rb.
Proof.
  cbn [gen_all]. rewrite in_flat_map. split.
  - intros [ra [Ha H]]. apply in_flat_map in H as [rb [Hb H]]. apply in_map_iff in H as [s [E Hs]].
    exists ra, rb, s. auto.
  - intros [ra [rb [s [Ha [Hb [Hs ->]]]]]]. exists ra. split; auto. apply in_flat_map.
    exists rb. split; auto. apply in_map_iff. exists s. split; auto.
Qed.

(** * the enumerator yields exactly the valid reconciliations *)
Theorem gen_all_spec : forall S O, leaves_ok S O -> forall r, In r (gen_all O) <-> valid_rec S O r.
Proof.
  intros S. induction O as [sp syn|a IHa b IHb]; intros L r.
  - cbn in *. split.
    + intros [<-|[]]. now constructor.
    + intros V. inversion V; subst. now left.
  - destruct L as [La Lb]. rewrite gen_all_node. split.
    + intros [ra [rb [s [Ha [Hb [Hs ->]]]]]].
      apply (IHa La) in Ha. apply (IHb Lb) in Hb.
      constructor; auto; [|now apply placement_sound].
      destruct (placement_event _ _ _ Hs) as [A|A];
        (eapply valid_sp_prefix; [exact A|]); eapply valid_rec_root_valid; eauto.
    + intros V. inversion V as [|? ? s ra rb Hs He Va Vb]; subst.
      exists ra, rb, s. repeat split; [now apply IHa|now apply IHb|now apply placement_complete].
Qed.

(** * ... each exactly once *)
Theorem gen_all_nodup : forall O, NoDup (gen_all O).
Proof.
  induction O as [sp syn|a IHa b IHb]; cbn [gen_all]; [repeat constructor; cbn; tauto|].
  apply NoDup_flat_map; auto.
  - intros ra _. apply NoDup_flat_map; auto.
    + intros rb _. apply NoDup_map_inj; [intros x y H; now inversion H|apply placements_nodup].
    + intros rb rb' z _ _ H1 H2.
      apply in_map_iff in H1 as [s [<- _]]. apply in_map_iff in H2 as [s' [H _]]. now inversion H.
  - intros ra ra' z _ _ H1 H2.
    apply in_flat_map in H1 as [rb [_ H1]]. apply in_map_iff in H1 as [s [<- _]].
    apply in_flat_map in H2 as [rb' [_ H2]]. apply in_map_iff in H2 as [s' [H _]]. now inversion H.
Qed.

Theorem gen_all_perm_all_recs : forall S O, leaves_ok S O -> Permutation (gen_all O) (all_recs S O).
Proof.
  intros S O L. apply NoDup_Permutation; [apply gen_all_nodup|apply all_recs_nodup|].
  intros r. rewrite (gen_all_spec S O L), (all_recs_spec S O L). tauto.
Qed.

Lemma gen_all_inhabited O : exists r, In r (gen_all O).
Proof.
  induction O as [sp syn|a [ra Ha] b [rb Hb]].
  - exists (RLeaf sp). now left.
  - exists (RNode [] ra rb). apply gen_all_node. exists ra, rb, []. repeat split; auto.
    unfold placements. apply in_app_iff. left. now apply in_prefixes.
Qed.

Theorem gen_all_nonempty : forall O, gen_all O <> [].
Proof. intros O E. destruct (gen_all_inhabited O) as [r H]. rewrite E in H. exact H. Qed.

(** * [reconcile_exhaustive] *)
Definition exh_cands (c : costs) (O : otree) : list (ext * option rtree) :=
  map (fun r => (cost c O r, Some r)) (gen_all O).

Lemma in_exh_cands c O v r : In (v, Some r) (exh_cands c O) <-> In r (gen_all O) /\ v = cost c O r.
Proof.
  unfold exh_cands. rewrite in_map_iff. split.
  - intros [x [E I]]. inversion E; subst. auto.
  - intros [I ->]. eauto.
Qed.

Lemma ele_PInf_inv a : ele PInf a -> a = PInf.
Proof. unfold ele. destruct a; cbn; auto; discriminate. Qed.

(* the value is a lower bound of the costs of all valid reconciliations and is attained *)
Theorem exh_value : forall S c rp O, leaves_ok S O ->
  (forall r', valid_rec S O r' -> ele (val (reconcile_exhaustive c rp O)) (cost c O r')) /\
  (exists r, valid_rec S O r /\ cost c O r = val (reconcile_exhaustive c rp O)).
Proof.
  intros S c rp O L. unfold reconcile_exhaustive. fold (exh_cands c O).
  destruct (entry_value rtree_eqb MIN rp (exh_cands c O) (default_entry MIN)) as [Hin Hlb].
  set (e := update rtree_eqb MIN rp (default_entry MIN) (exh_cands c O)) in *.
  assert (forall r', valid_rec S O r' -> ele (val e) (cost c O r')) as LB.
  { intros r' V. unfold ele. apply (Hlb (cost c O r')). right.
    apply in_map_iff. exists (cost c O r', Some r'). split; auto.
    apply in_exh_cands. split; auto. now apply (gen_all_spec S O L). }
  split; auto.
  destruct Hin as [E|Hin].
  - destruct (gen_all_inhabited O) as [r0 H0]. apply (gen_all_spec S O L) in H0.
    exists r0. split; auto. pose proof (LB r0 H0) as X. rewrite <- E in X. cbn in X.
    rewrite <- E. cbn. now apply ele_PInf_inv.
  - apply in_map_iff in Hin as [[v ot] [E I]]. cbn in E. subst v.
    unfold exh_cands in I. apply in_map_iff in I as [r [X I]]. inversion X; subst.
    exists r. split; auto. now apply (gen_all_spec S O L).
Qed.

Lemma exh_optimal_cost S c rp O r : leaves_ok S O ->
  valid_rec S O r -> (forall r', valid_rec S O r' -> ele (cost c O r) (cost c O r')) ->
  cost c O r = val (reconcile_exhaustive c rp O).
Proof.
  intros L V M. destruct (exh_value S c rp O L) as [LB [r0 [V0 E0]]].
  apply ele_antisym; [rewrite <- E0; now apply M|now apply LB].
Qed.

(** ALL: exactly the minimum-cost valid reconciliations *)
Theorem exh_all_exact : forall S c O, leaves_ok S O -> forall r,
  In r (tags (reconcile_exhaustive c RALL O)) <->
  (valid_rec S O r /\ forall r', valid_rec S O r' -> ele (cost c O r) (cost c O r')).
Proof.
  intros S c O L r. destruct (exh_value S c RALL O L) as [LB _].
  pose proof (entry_tags_all rtree_eqb rtree_eqb_spec MIN (exh_cands c O) r) as T. cbn zeta in T.
  unfold reconcile_exhaustive in *. fold (exh_cands c O) in *.
  rewrite T, in_exh_cands, (gen_all_spec S O L). split.
  - intros [V E]. split; auto. intros r' V'. rewrite <- E. now apply LB.
  - intros [V M]. split; auto. symmetry.
    apply (exh_optimal_cost S c RALL O r L V M).
Qed.

Theorem exh_all_nodup : forall c O, NoDup (tags (reconcile_exhaustive c RALL O)).
Proof. intros c O. unfold reconcile_exhaustive. apply (entry_tags_all_nodup rtree_eqb rtree_eqb_spec). Qed.

(** ANY: exactly one tag, a minimum-cost valid reconciliation *)
Theorem exh_any : forall S c O, leaves_ok S O ->
  exists r, tags (reconcile_exhaustive c RANY O) = [r] /\ valid_rec S O r /\
            forall r', valid_rec S O r' -> ele (cost c O r) (cost c O r').
Proof.
  intros S c O L. destruct (exh_value S c RANY O L) as [LB [r0 [V0 E0]]].
  pose proof (entry_tags_any rtree_eqb MIN (exh_cands c O)) as T. cbn zeta in T.
  unfold reconcile_exhaustive in *. fold (exh_cands c O) in *.
  destruct T as [[_ No]|[t [Tg I]]].
  - exfalso. apply (No r0). apply in_exh_cands. split; [now apply (gen_all_spec S O L)|auto].
  - apply in_exh_cands in I as [I E]. exists t. split; auto.
    split; [now apply (gen_all_spec S O L)|]. intros r' V'. rewrite <- E. now apply LB.
Qed.

(** NONE: the value only *)
Theorem exh_none : forall c O, tags (reconcile_exhaustive c RNONE O) = [].
Proof. intros c O. unfold reconcile_exhaustive. apply (entry_tags_none rtree_eqb). Qed.

(* the hypotheses are satisfiable and the statements are not vacuous *)
Example exh_example :
  let S := SNode (SNode SLeaf SLeaf) SLeaf in
  let O := ONode (OLeaf [false; false] []) (OLeaf [true] []) in
  leaves_ok S O /\ length (gen_all O) = 4 /\
  tags (reconcile_exhaustive {| c_spe := 0; c_dup := 1; c_hgt := Fin 2; c_floss := 1; c_sloss := 0 |} RALL O)
    = [RNode [] (RLeaf [false; false]) (RLeaf [true])].
Proof. cbn zeta. split; [|split]; [cbn; auto|reflexivity|vm_compute; reflexivity]. Qed.

Print Assumptions rtree_eqb_spec.
Print Assumptions gen_all_spec.
Print Assumptions gen_all_nodup.
Print Assumptions gen_all_perm_all_recs.
Print Assumptions gen_all_nonempty.
Print Assumptions exh_value.
Print Assumptions exh_all_exact.
Print Assumptions exh_all_nodup.
Print Assumptions exh_any.
Print Assumptions exh_none.
