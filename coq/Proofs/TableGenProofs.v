(** The functions of [Gen/TableGen.v] -- generated from
    [src/superrec2/utils/dynamic_programming.py] by [translator/table_gen.py] -- are equal to the
    table model of [Model/Entry.v] ([read], [write]: cells that exist, read through proxies, written
    through the rule "a batch without finite candidate is ignored"), for all tables with dictionary
    dimensions only (any number of them), all keys, all policies and all candidates.

    Representation.  The generated [_table] is a [G.Cell]: [None], an entry, or a [defaultdict] kept
    as the argument [env] of its factory [lambda: _generate_table(env)] and the list of its items in
    insertion order.  [wfc mp rp dims c] says that [c] is what [_generate_table(dims)] has grown into:
    a dictionary per remaining dimension whose factory argument is the rest of the dimensions, and at
    the bottom [None] or an entry with the policies of the table.  [lookupc ks c] is the entry stored
    under the full key [ks], if any -- a [None] cell or an absent key alike (reading through a proxy
    creates [None] cells and inner dictionaries: [walk]; they are invisible to [lookupc]:
    [walk_lookup]).  [sem t ks] is the entry the model's [read] sees.  A proxy is a temporary: it
    carries the table as it is when the proxy is built; the table is read back from the last proxy of a
    chain ([G.Proxy_parent]). *)
From Coq Require Import List Bool ZArith NArith Lia.
From SR Require Import Base.Ext Model.Entry Proofs.EntryProofs Proofs.EntryGenProofs.
From SR Require Gen.EntryGen Gen.TableGen.
Import ListNotations.
Module G := SR.Gen.TableGen.
Module EG := SR.Gen.EntryGen.

Lemma entry_res_ok {X} (x : X) : G.entry_res (EG.Ok x) = G.Ok x.
Proof. reflexivity. Qed.

Section Cells.
  Context {K A : Type} (keqb : K -> K -> bool).
  Hypothesis keqb_spec : forall a b, reflect (a = b) (keqb a b).
  Notation cell := (G.Cell K A).
  Notation dims := (list G.DictDimension).

  Lemma keqb_refl k : keqb k k = true.
  Proof. destruct (keqb_spec k k); congruence. Qed.
  Lemma keqb_neq a b : a <> b -> keqb a b = false.
  Proof. intros N. destruct (keqb_spec a b); congruence. Qed.

  (** ** association lists *)
  Lemma get_set_same {V} (l : list (K * V)) k v : G.adict_get keqb (G.adict_set keqb l k v) k = Some v.
  Proof.
    induction l as [|[k' v'] l IH]; cbn; [now rewrite keqb_refl|].
    destruct (keqb k k') eqn:E; cbn; rewrite E; auto.
  Qed.
  Lemma get_set_other {V} (l : list (K * V)) k k2 v : k2 <> k ->
    G.adict_get keqb (G.adict_set keqb l k v) k2 = G.adict_get keqb l k2.
  Proof.
    intros N. induction l as [|[k' v'] l IH]; cbn; [now rewrite (keqb_neq _ _ N)|].
    destruct (keqb k k') eqn:E; cbn.
    - destruct (keqb_spec k k'); [subst|discriminate]. now rewrite (keqb_neq _ _ N).
    - now rewrite IH.
  Qed.
  Lemma Forall_set {V} (P : K * V -> Prop) (l : list (K * V)) k v :
    Forall P l -> (forall k', P (k', v)) -> Forall P (G.adict_set keqb l k v).
  Proof.
    intros F H. induction F as [|[k' v'] l H1 F IH]; cbn; [constructor; auto|].
    destruct (keqb k k'); constructor; auto.
  Qed.
  Lemma Forall_get {V} (P : K * V -> Prop) (l : list (K * V)) k v :
    Forall P l -> G.adict_get keqb l k = Some v -> exists k', P (k', v).
  Proof.
    intros F. induction F as [|[k' v'] l H1 F IH]; cbn; [discriminate|].
    destruct (keqb k k'); [intros E; inversion E; subst; eauto|auto].
  Qed.

  Lemma set_get_id {V} (l : list (K * V)) k v : G.adict_get keqb l k = Some v -> G.adict_set keqb l k v = l.
  Proof.
    induction l as [|[k' v'] l IH]; cbn; [discriminate|].
    destruct (keqb k k') eqn:E; [intros H; inversion H; reflexivity|]. intros H. now rewrite IH.
  Qed.

  (** ** well-formed cells, the entry under a full key *)
  Variables (mp : EG.MergePolicy) (rp : EG.RetentionPolicy).

  Fixpoint wfc (d : dims) (c : cell) : Prop :=
    match d with
    | [] => match c with
            | G.Cell_None => True
            | G.Cell_Entry e => EG.entry__merge_policy e = mp /\ EG.entry__retention_policy e = rp
            | G.Cell_dict _ _ => False
            end
    | _ :: rem => match c with
                  | G.Cell_dict env items => env = rem /\ Forall (fun kv => wfc rem (snd kv)) items
                  | _ => False
                  end
    end.

  Fixpoint lookupc (ks : list K) (c : cell) : option (EG.entry_state A) :=
    match ks with
    | [] => match c with G.Cell_Entry e => Some e | _ => None end
    | k :: ks' => match c with
                  | G.Cell_dict _ items =>
                      match G.adict_get keqb items k with Some v => lookupc ks' v | None => None end
                  | _ => None
                  end
    end.

  (** [_generate_table(dims)] *)
  Lemma generate_ok (d : dims) :
    exists c, @G.gen_generate_table K A d = G.Ok c /\ wfc d c /\ forall ks, lookupc ks c = None.
  Proof.
    destruct d as [|x rem]; cbn.
    - exists G.Cell_None. repeat split. intros [|k ks]; reflexivity.
    - exists (G.Cell_dict rem []). repeat split; [constructor|]. intros [|k ks]; reflexivity.
  Qed.

  Lemma wfc_get x rem env items k v :
    wfc (x :: rem) (G.Cell_dict env items) -> G.adict_get keqb items k = Some v -> wfc rem v.
  Proof. intros [_ F] E. destruct (Forall_get _ _ _ _ F E) as [k' H]. exact H. Qed.

  (** the cell a reference designates *)
  Lemma wfc_at path : forall d (c v : cell), wfc d c -> G.Cell_at keqb path c = G.Ok v -> wfc (skipn (length path) d) v.
  Proof.
    induction path as [|k path IH]; intros d c v W E; cbn in *.
    - inversion E; subst. exact W.
    - destruct c as [| |env items]; try discriminate. destruct d as [|x rem]; [destruct W|].
      destruct (G.adict_get keqb items k) as [w|] eqn:Eg; [|discriminate].
      apply (IH rem w v); [eapply wfc_get; eauto|exact E].
  Qed.

  Lemma at_length path : forall d (c v : cell), wfc d c -> G.Cell_at keqb path c = G.Ok v -> length path <= length d.
  Proof.
    induction path as [|k path IH]; intros d c v W E; cbn in *; [lia|].
    destruct c as [| |env items]; try discriminate. destruct d as [|x rem]; [destruct W|].
    destruct (G.adict_get keqb items k) as [w|] eqn:Eg; [|discriminate].
    cbn. apply le_n_S. apply (IH rem w v); [eapply wfc_get; eauto|exact E].
  Qed.

  Lemma at_app path : forall (c v : cell) r, G.Cell_at keqb path c = G.Ok v -> G.Cell_at keqb (path ++ r) c = G.Cell_at keqb r v.
  Proof.
    induction path as [|k path IH]; intros c v r E; cbn in *; [inversion E; reflexivity|].
    destruct c as [| |env items]; try discriminate.
    destruct (G.adict_get keqb items k) as [w|]; [|discriminate]. now apply IH.
  Qed.

  Lemma lookupc_at path : forall (c v : cell) r, G.Cell_at keqb path c = G.Ok v -> lookupc (path ++ r) c = lookupc r v.
  Proof.
    induction path as [|k path IH]; intros c v r E; cbn in *; [inversion E; reflexivity|].
    destruct c as [| |env items]; try discriminate.
    destruct (G.adict_get keqb items k) as [w|]; [|discriminate]. now apply IH.
  Qed.

  (** ** reading [r[k]] through a reference: the defaultdict may gain the key; nothing else changes *)
  Lemma touch1_ok k x rem d : wfc (x :: rem) d ->
    exists d' v, G.Cell_touch1 keqb k d = G.Ok d' /\ wfc (x :: rem) d' /\ (forall ks, lookupc ks d' = lookupc ks d)
                 /\ G.Cell_at keqb [k] d' = G.Ok v.
  Proof.
    intros W. destruct d as [| |env items]; try (exfalso; exact W). cbn.
    destruct W as [-> F].
    destruct (G.adict_get keqb items k) as [v|] eqn:Eg.
    - exists (G.Cell_dict rem items), v. repeat split; auto. cbn. now rewrite Eg.
    - destruct (generate_ok rem) as [c [Ec [Wc Lc]]]. rewrite Ec.
      exists (G.Cell_dict rem (G.adict_set keqb items k c)), c. repeat split.
      + apply Forall_set; auto.
      + intros [|k2 ks]; cbn; [reflexivity|].
        destruct (keqb_spec k2 k) as [->|N].
        * rewrite get_set_same, Eg. apply Lc.
        * now rewrite get_set_other.
      + cbn. now rewrite get_set_same.
  Qed.

  Lemma alter_frame f path : forall d (c c' v v' : cell), wfc d c ->
    G.Cell_at keqb path c = G.Ok v -> f v = G.Ok v' -> wfc (skipn (length path) d) v' ->
    G.Cell_alter keqb f path c = G.Ok c' ->
    wfc d c' /\ G.Cell_at keqb path c' = G.Ok v' /\
    (forall ks, (forall r, lookupc r v' = lookupc r v) -> lookupc ks c' = lookupc ks c).
  Proof.
    induction path as [|k path IH]; intros d c c' v v' W Ev Ef Wv Ea; cbn in *.
    - inversion Ev; subst. rewrite Ef in Ea. inversion Ea; subst. repeat split; auto.
    - destruct c as [| |env items]; try discriminate. destruct d as [|x rem]; [destruct W|].
      destruct (G.adict_get keqb items k) as [w|] eqn:Eg; [|discriminate].
      destruct (G.Cell_alter keqb f path w) as [w'|] eqn:Ew; [|discriminate]. inversion Ea; subst c'. clear Ea.
      destruct (IH rem w w' v v' (wfc_get _ _ _ _ _ _ W Eg) Ev Ef Wv Ew) as [W' [E' L']].
      destruct W as [-> F]. repeat split.
      + apply Forall_set; auto.
      + cbn. now rewrite get_set_same.
      + intros [|k2 ks] H; cbn; [reflexivity|].
        destruct (keqb_spec k2 k) as [->|N].
        * rewrite get_set_same, Eg. now apply L'.
        * now rewrite get_set_other.
  Qed.

  Lemma alter_defined f path : forall (c v v' : cell), G.Cell_at keqb path c = G.Ok v -> f v = G.Ok v' ->
    exists c', G.Cell_alter keqb f path c = G.Ok c'.
  Proof.
    induction path as [|k path IH]; intros c v v' Ev Ef; cbn in *.
    - inversion Ev; subst. eauto.
    - destruct c as [| |env items]; try discriminate.
      destruct (G.adict_get keqb items k) as [w|] eqn:Eg; [|discriminate].
      destruct (IH w v v' Ev Ef) as [w' ->]. eauto.
  Qed.

  Lemma touch_ok path k d c v : wfc d c -> G.Cell_at keqb path c = G.Ok v -> length path < length d ->
    exists c' w, G.Cell_touch keqb path k c = G.Ok c' /\ wfc d c' /\ (forall ks, lookupc ks c' = lookupc ks c)
                 /\ G.Cell_at keqb (path ++ [k]) c' = G.Ok w /\ (exists v', G.Cell_at keqb path c' = G.Ok v').
  Proof.
    intros W Ev L. pose proof (wfc_at _ _ _ _ W Ev) as Wv.
    destruct (skipn (length path) d) as [|x rem] eqn:Es.
    { apply (f_equal (@length _)) in Es. rewrite skipn_length in Es. cbn in Es. lia. }
    destruct (touch1_ok k x rem v Wv) as [v' [w [E1 [W1 [L1 A1]]]]].
    destruct (alter_defined _ _ _ _ _ Ev E1) as [c' Ec]. unfold G.Cell_touch. rewrite Ec.
    assert (Wv' : wfc (skipn (length path) d) v') by now rewrite Es.
    destruct (alter_frame _ _ _ _ _ _ _ W Ev E1 Wv' Ec) as [W' [E' Lk]].
    exists c', w. repeat split; auto; [rewrite (at_app _ _ _ _ E'); exact A1|eauto].
  Qed.

  (** reading a key that is there changes nothing *)
  Lemma touch_present path k : forall (c w : cell), G.Cell_at keqb (path ++ [k]) c = G.Ok w -> G.Cell_touch keqb path k c = G.Ok c.
  Proof.
    unfold G.Cell_touch. induction path as [|k0 path IH]; intros c w E; cbn in *.
    - destruct c as [| |env items]; try discriminate. unfold G.Cell_touch1.
      destruct (G.adict_get keqb items k); [reflexivity|discriminate].
    - destruct c as [| |env items]; try discriminate.
      destruct (G.adict_get keqb items k0) as [u|] eqn:Eg; [|discriminate].
      rewrite (IH u w E). now rewrite (set_get_id _ _ _ Eg).
  Qed.

  (** ** [r[k] = v] through a reference to the innermost dictionary *)
  Definition bottom (v : cell) : option (EG.entry_state A) := match v with G.Cell_Entry e => Some e | _ => None end.

  Lemma store_ok path k d c v (w : cell) : wfc d c -> G.Cell_at keqb path c = G.Ok v -> S (length path) = length d ->
    wfc [] w ->
    exists c', G.Cell_store keqb path k w c = G.Ok c' /\ wfc d c' /\
               lookupc (path ++ [k]) c' = bottom w /\
               (forall ks, length ks = length d -> ks <> path ++ [k] -> lookupc ks c' = lookupc ks c) /\
               G.Cell_at keqb path c' = G.Cell_set keqb k w v /\ G.Cell_at keqb (path ++ [k]) c' = G.Ok w.
  Proof.
    intros W Ev L Ww. pose proof (wfc_at _ _ _ _ W Ev) as Wv.
    destruct (skipn (length path) d) as [|x rem] eqn:Es.
    { apply (f_equal (@length _)) in Es. rewrite skipn_length in Es. cbn in Es. lia. }
    assert (rem = []) as ->.
    { apply (f_equal (@length _)) in Es. rewrite skipn_length in Es. cbn in Es. destruct rem; [reflexivity|cbn in Es; lia]. }
    destruct v as [| |env items]; try (exfalso; exact Wv). destruct Wv as [-> F].
    set (v' := G.Cell_dict [] (G.adict_set keqb items k w)).
    assert (E1 : G.Cell_set keqb k w (G.Cell_dict [] items) = G.Ok v') by reflexivity.
    destruct (alter_defined _ _ _ _ _ Ev E1) as [c' Ec]. unfold G.Cell_store. rewrite Ec.
    assert (Wv' : wfc (skipn (length path) d) v').
    { rewrite Es. split; [reflexivity|]. apply Forall_set; auto. }
    exists c'. split; [reflexivity|].
    (* frame: by induction on the path *)
    clear Wv' E1. revert d c c' W Ev L Es Ec. induction path as [|k0 path IH]; intros d c c' W Ev L Es Ec; cbn in *.
    - inversion Ev; subst c. inversion Ec; subst c'. destruct d as [|x' [|y d]]; cbn in L; try lia.
      repeat split; auto.
      + apply Forall_set; auto.
      + cbn. rewrite get_set_same. destruct w; reflexivity.
      + intros [|k2 [|k3 ks]] Hl N; cbn in Hl; try lia. cbn.
        destruct (keqb_spec k2 k) as [->|N2]; [congruence|]. now rewrite get_set_other.
      + cbn. now rewrite get_set_same.
    - destruct c as [| |env its]; try discriminate. destruct d as [|x' rem]; [destruct W|].
      destruct (G.adict_get keqb its k0) as [u|] eqn:Eg; [|discriminate].
      destruct (G.Cell_alter keqb (G.Cell_set keqb k w) path u) as [u'|] eqn:Eu; [|discriminate]. inversion Ec; subst c'. clear Ec.
      cbn in L. assert (L' : S (length path) = length rem) by lia.
      destruct (IH rem u u' (wfc_get _ _ _ _ _ _ W Eg) Ev L' Es Eu) as [W' [Lk [Lo [Ea Ea2]]]].
      destruct W as [-> Fi]. repeat split.
      + apply Forall_set; auto.
      + cbn. now rewrite get_set_same.
      + intros [|k2 ks] Hl N; cbn in Hl; [lia|]. cbn.
        destruct (keqb_spec k2 k0) as [->|N2].
        * rewrite get_set_same, Eg. apply Lo; [lia|]. intros ->. now apply N.
        * now rewrite get_set_other.
      + cbn. now rewrite get_set_same.
      + cbn. now rewrite get_set_same.
  Qed.

  Lemma lookupc_bottom ks : forall d (c v : cell), wfc d c -> length ks = length d -> G.Cell_at keqb ks c = G.Ok v ->
    lookupc ks c = bottom v /\ wfc [] v.
  Proof.
    intros d c v W L E. pose proof (wfc_at _ _ _ _ W E) as Wv.
    rewrite L, skipn_all in Wv. split; [|exact Wv].
    rewrite <- (app_nil_r ks), (lookupc_at _ _ _ _ E). destruct v; reflexivity.
  Qed.
End Cells.

(* ------------------------------------------------------------------ *)
(** * The table, read and written through proxies *)
Section Tables.
  Context {K A : Type} (keqb : K -> K -> bool) (eqb : A -> A -> bool).
  Hypothesis keqb_spec : forall a b, reflect (a = b) (keqb a b).
  Notation cell := (G.Cell K A).
  Notation tbl := (G.table_state K A).
  Notation tmp := G.table_merge_policy.
  Notation trp := G.table_retention_policy.
  Notation tdims := G.table_dimensions.
  Notation troot := G.table__table.

  Definition with_root (t : tbl) (r : cell) : tbl := G.mk_table (tmp t) (trp t) (tdims t) r.
  Definition twf (t : tbl) : Prop := wfc (tmp t) (trp t) (tdims t) (troot t).
  Definition tlookup (t : tbl) (ks : list K) : option (EG.entry_state A) := lookupc keqb ks (troot t).
  (** what [table[k1]..[kn]] reads as (the model's [read]): a missing / [None] cell reads as the default entry *)
  Definition sem (t : tbl) (ks : list K) : entry A :=
    match tlookup t ks with Some e => ent e | None => default_entry (cmp (tmp t)) end.
  (** [t'] is [t] up to cells that read the same: same policies, dimensions, entries *)
  Definition tsame (t t' : tbl) : Prop :=
    tmp t' = tmp t /\ trp t' = trp t /\ tdims t' = tdims t /\ twf t' /\ forall ks, tlookup t' ks = tlookup t ks.

  Lemma tsame_refl t : twf t -> tsame t t.
  Proof. intros W. repeat split; auto. Qed.
  Lemma tsame_trans a b c : tsame a b -> tsame b c -> tsame a c.
  Proof.
    intros [A1 [A2 [A3 [A4 A5]]]] [B1 [B2 [B3 [B4 B5]]]].
    split; [congruence|]. split; [congruence|]. split; [congruence|]. split; [exact B4|]. intros ks. now rewrite B5, A5.
  Qed.
  Lemma tsame_sem a b ks : tsame a b -> sem b ks = sem a ks.
  Proof. intros [A1 [A2 [A3 [A4 A5]]]]. unfold sem. now rewrite A5, A1. Qed.

  (** following the keys [it] from the reference [entry]: the loop [for item in ..: entry = entry[item]] *)
  Fixpoint walk (it : list K) (root : cell) (entry : list K) : cell :=
    match it with
    | [] => root
    | k :: it' => match G.Cell_touch keqb entry k root with G.Ok r => walk it' r (entry ++ [k]) | G.Err _ => root end
    end.

  Lemma walk_ok mp rp d it : forall (root : cell) entry v, wfc mp rp d root -> G.Cell_at keqb entry root = G.Ok v ->
    length entry + length it <= length d ->
    wfc mp rp d (walk it root entry) /\ (forall ks, lookupc keqb ks (walk it root entry) = lookupc keqb ks root) /\
    (exists w, G.Cell_at keqb (entry ++ it) (walk it root entry) = G.Ok w) /\
    (G.gen_eproxy_get_real_for1 (A := A) keqb it root entry = G.Next (walk it root entry, entry ++ it)) /\
    (G.gen_eproxy_update_for1 (A := A) keqb it root entry = G.Next (walk it root entry, entry ++ it)) /\
    (G.gen_tproxy_getitem_for1 (A := A) keqb it root entry = G.Next (walk it root entry, entry ++ it)).
  Proof.
    induction it as [|k it IH]; intros root entry v W E L; cbn [walk].
    - rewrite app_nil_r. repeat split; eauto.
    - cbn in L. destruct (touch_ok keqb keqb_spec mp rp entry k d root v W E ltac:(lia)) as [c' [w [Et [Wc [Lc [Ac _]]]]]].
      rewrite Et. destruct (IH c' (entry ++ [k]) w Wc Ac) as [W' [L' [[w' A'] [F1 [F2 F3]]]]].
      { rewrite app_length. cbn. lia. }
      rewrite <- app_assoc in *. cbn [app] in *.
      repeat split; auto.
      + intros ks. now rewrite L', Lc.
      + eauto.
      + cbn [G.gen_eproxy_get_real_for1]. rewrite Et. apply F1.
      + cbn [G.gen_eproxy_update_for1]. rewrite Et. apply F2.
      + cbn [G.gen_tproxy_getitem_for1]. rewrite Et. apply F3.
  Qed.

  (** ** [EntryProxy._get_real] and the reading methods *)
  Definition walked (t : tbl) (ks : list K) : tbl := with_root t (walk ks (troot t) []).

  Lemma walked_same t ks : twf t -> length ks <= length (tdims t) -> tsame t (walked t ks).
  Proof.
    intros W L. destruct (walk_ok (tmp t) (trp t) (tdims t) ks (troot t) [] (troot t) W eq_refl L) as [W' [L' _]].
    repeat split; auto.
  Qed.

  Theorem gen_eproxy_get_real_eq t ks : twf t -> length ks = length (tdims t) ->
    G.gen_eproxy_get_real keqb (G.mk_eproxy t ks) = G.Ok (G.mk_eproxy (walked t ks) ks, tlookup t ks).
  Proof.
    intros W L. destruct t as [mp rp d root]. unfold twf in W. cbn in W, L.
    destruct (walk_ok mp rp d ks root [] root W eq_refl ltac:(cbn; lia)) as [W' [L' [[w Aw] [F1 _]]]].
    unfold G.gen_eproxy_get_real. rewrite F1. cbn [app] in *. rewrite Aw.
    destruct (lookupc_bottom keqb mp rp ks d _ w W' L Aw) as [Lb Wb].
    unfold tlookup, walked, with_root. cbn. rewrite <- (L' ks), Lb.
    destruct w as [|e|]; cbn; try reflexivity. destruct Wb.
  Qed.

  Theorem gen_eproxy_value_eq t ks : twf t -> length ks = length (tdims t) ->
    G.gen_eproxy_value keqb (G.mk_eproxy t ks) = G.Ok (G.mk_eproxy (walked t ks) ks, val (sem t ks)).
  Proof.
    intros W L. unfold G.gen_eproxy_value. destruct t as [mp rp d root].
    change (G.gen_eproxy_get_real keqb (G.mk_eproxy (G.mk_table mp rp d root) ks)) with
      (G.gen_eproxy_get_real keqb (G.mk_eproxy (G.mk_table mp rp d root) ks)).
    rewrite (gen_eproxy_get_real_eq (G.mk_table mp rp d root) ks W L). unfold walked, with_root, sem. cbn.
    destruct (tlookup (G.mk_table mp rp d root) ks) as [e|]; cbn.
    - rewrite gen_entry_value_eq. reflexivity.
    - destruct mp; reflexivity.
  Qed.

  Theorem gen_eproxy_infos_eq t ks : twf t -> length ks = length (tdims t) ->
    G.gen_eproxy_infos keqb (G.mk_eproxy t ks) = G.Ok (G.mk_eproxy (walked t ks) ks, tags (sem t ks)).
  Proof.
    intros W L. unfold G.gen_eproxy_infos. destruct t as [mp rp d root].
    rewrite (gen_eproxy_get_real_eq (G.mk_table mp rp d root) ks W L). unfold walked, with_root, sem. cbn.
    destruct (tlookup (G.mk_table mp rp d root) ks) as [e|]; cbn.
    - rewrite gen_entry_infos_eq. reflexivity.
    - reflexivity.
  Qed.

  Theorem gen_eproxy_is_infinite_eq t ks : twf t -> length ks = length (tdims t) ->
    G.gen_eproxy_is_infinite keqb (G.mk_eproxy t ks) = G.Ok (G.mk_eproxy (walked t ks) ks, ext_is_inf (val (sem t ks))).
  Proof.
    intros W L. unfold G.gen_eproxy_is_infinite. destruct t as [mp rp d root].
    rewrite (gen_eproxy_get_real_eq (G.mk_table mp rp d root) ks W L). unfold walked, with_root, sem. cbn.
    destruct (tlookup (G.mk_table mp rp d root) ks) as [e|]; cbn.
    - rewrite gen_entry_is_infinite_eq. reflexivity.
    - destruct mp; reflexivity.
  Qed.

  (** ** [EntryProxy.update] *)
  Definition has_fin (cs : list (EG.Candidate A)) : bool :=
    existsb (fun c => negb (ext_is_inf (EG.Candidate_value c))) cs.

  Lemma has_fin_model cs : has_fin cs = existsb (fun c => negb (ext_is_inf (fst c))) (map (@ccand A) cs).
  Proof. unfold has_fin. induction cs as [|c cs IH]; cbn; [reflexivity|]. now rewrite IH. Qed.

  Lemma zget_last {X} (l : list X) x : G.zget (l ++ [x]) (-1)%Z = Some x.
  Proof.
    unfold G.zget, G.zpos. cbn [Z.leb Z.compare]. rewrite app_length. cbn [length].
    replace (Z.of_nat (length l + 1) + -1)%Z with (Z.of_nat (length l)) by lia.
    destruct (Z.leb_spec 0 (Z.of_nat (length l))); [|lia]. rewrite Nat2Z.id, nth_error_app2 by lia.
    now rewrite Nat.sub_diag.
  Qed.

  (* the end of [update]: the cell holds the entry [e]; it is updated and stored back *)
  Local Ltac update_tail mp rp d pre k cs r v e Wr Av Ae L Lfull :=
    rewrite ?zget_last; rewrite (touch_present keqb pre k r _ Ae); unfold G.Cell_get; rewrite Ae;
    let Lb := fresh "Lb" in let Pm := fresh "Pm" in let Pr := fresh "Pr" in
    destruct (lookupc_bottom keqb mp rp (pre ++ [k]) d r _ Wr Lfull Ae) as [Lb [Pm Pr]];
    rewrite gen_entry_update_eq; cbn [G.entry_res]; rewrite Pm, Pr;
    let r' := fresh "r'" in let Es := fresh "Es" in let Wr' := fresh "Wr'" in let Lk := fresh "Lk" in let Lo' := fresh "Lo'" in
    destruct (store_ok keqb keqb_spec mp rp pre k d r v
                (G.Cell_Entry (mk mp rp (update eqb (cmp mp) (crp rp) (ent e) (map ccand cs)))) Wr Av L ltac:(split; reflexivity))
      as [r' [Es [Wr' [Lk [Lo' _]]]]];
    rewrite Es; exists (G.mk_table mp rp d r'), (mk mp rp (update eqb (cmp mp) (crp rp) (ent e) (map ccand cs)));
    split; [reflexivity|]; split; [reflexivity|]; split; [reflexivity|];
    split; [reflexivity|]; split; [exact Wr'|]; split; [unfold tlookup; cbn [troot]; rewrite Lk; reflexivity|]; split;
    [rewrite ent_mk
    |intros ks' Hl Hn; unfold tlookup; cbn [troot]; rewrite Lo' by auto].

  (** without a finite candidate nothing happens: the table is not even looked at *)
  Theorem gen_eproxy_update_nofin t ks cs : has_fin cs = false ->
    G.gen_eproxy_update keqb eqb (G.mk_eproxy t ks) cs = G.Ok (G.mk_eproxy t ks, tt).
  Proof.
    intros Hf. destruct t as [mp rp d root]. unfold G.gen_eproxy_update. cbv beta iota. fold (has_fin cs). now rewrite Hf.
  Qed.

  (** with one, the cell is instantiated (if it was not) and the entry updated *)
  Theorem gen_eproxy_update_fin t pre k cs : twf t -> S (length pre) = length (tdims t) -> has_fin cs = true ->
    exists t' e', G.gen_eproxy_update keqb eqb (G.mk_eproxy t (pre ++ [k])) cs = G.Ok (G.mk_eproxy t' (pre ++ [k]), tt) /\
      tmp t' = tmp t /\ trp t' = trp t /\ tdims t' = tdims t /\ twf t' /\
      tlookup t' (pre ++ [k]) = Some e' /\
      ent e' = update eqb (cmp (tmp t)) (crp (trp t)) (sem t (pre ++ [k])) (map ccand cs) /\
      (forall ks', length ks' = length (tdims t) -> ks' <> pre ++ [k] -> tlookup t' ks' = tlookup t ks').
  Proof.
    intros W L Hf. destruct t as [mp rp d root]. unfold twf in W. cbn in W, L.
    unfold G.gen_eproxy_update. cbv beta iota. fold (has_fin cs). rewrite Hf.
    rewrite removelast_last.
    destruct (walk_ok mp rp d pre root [] root W eq_refl ltac:(cbn; lia)) as [W1 [L1 [[w1 A1] [_ [F2 _]]]]].
    rewrite F2. cbv beta iota. change (@app K [] pre) with pre in *. set (root1 := walk pre root []) in *. clearbody root1.
    assert (Lfull : length (pre ++ [k]) = length d) by (rewrite app_length; cbn; lia).
    rewrite zget_last.
    destruct (touch_ok keqb keqb_spec mp rp pre k d root1 w1 W1 A1 ltac:(lia)) as [root2 [w2 [Et [W2 [L2 [A2 [v2 Av2]]]]]]].
    rewrite Et. unfold G.Cell_get at 1. rewrite A2.
    destruct (lookupc_bottom keqb mp rp (pre ++ [k]) d root2 w2 W2 Lfull A2) as [Lb Wb].
    assert (Lroot : forall ks, lookupc keqb ks root2 = lookupc keqb ks root) by (intros ks; now rewrite L2, L1).
    cbn [tmp trp tdims].
    destruct w2 as [|e|]; [| |destruct Wb]; cbn [G.Cell_is_None].
    - (* the cell holds None: a fresh entry with the policies of the table is stored first *)
      unfold G.gen_table_entry. rewrite gen_entry_default_eq. cbn [G.entry_res].
      set (e0 := mk mp rp (@default_entry A (cmp mp))).
      destruct (store_ok keqb keqb_spec mp rp pre k d root2 v2 (G.Cell_Entry e0) W2 Av2 L ltac:(split; reflexivity))
        as [root3 [Es [W3 [Lk [Lo [Ap A3]]]]]].
      rewrite Es.
      assert (exists v3, G.Cell_at keqb pre root3 = G.Ok v3) as [v3 Av3].
      { pose proof (wfc_at keqb mp rp _ _ _ _ W2 Av2) as Wv.
        assert (Hs : exists x rem, skipn (length pre) d = x :: rem).
        { destruct (skipn (length pre) d) eqn:Es'; [|eauto].
          apply (f_equal (@length _)) in Es'. rewrite skipn_length in Es'. cbn in Es'. lia. }
        destruct Hs as [x [rem Hs]]. rewrite Hs in Wv. destruct v2 as [| |env items]; try (exfalso; exact Wv).
        rewrite Ap. cbn. eauto. }
      update_tail mp rp d pre k cs root3 v3 e0 W3 Av3 A3 L Lfull.
      + unfold e0. rewrite ent_mk. unfold sem, tlookup. cbn [troot tmp]. now rewrite <- Lroot, Lb.
      + rewrite Lo by auto. apply Lroot.
    - (* the cell holds an entry *)
      update_tail mp rp d pre k cs root2 v2 e W2 Av2 A2 L Lfull.
      + unfold sem, tlookup. cbn [troot tmp]. now rewrite <- Lroot, Lb.
      + apply Lroot.
  Qed.

  Theorem gen_eproxy_update_spec t pre k cs : twf t -> S (length pre) = length (tdims t) ->
    exists t', G.gen_eproxy_update keqb eqb (G.mk_eproxy t (pre ++ [k])) cs = G.Ok (G.mk_eproxy t' (pre ++ [k]), tt) /\
      tmp t' = tmp t /\ trp t' = trp t /\ tdims t' = tdims t /\ twf t' /\
      sem t' (pre ++ [k]) = (if has_fin cs then update eqb (cmp (tmp t)) (crp (trp t)) (sem t (pre ++ [k])) (map ccand cs)
                             else sem t (pre ++ [k])) /\
      (forall ks', length ks' = length (tdims t) -> ks' <> pre ++ [k] -> tlookup t' ks' = tlookup t ks').
  Proof.
    intros W L. destruct (has_fin cs) eqn:Hf.
    - destruct (gen_eproxy_update_fin t pre k cs W L Hf) as [t' [e' [E [P1 [P2 [P3 [W' [Lk [He Lo]]]]]]]]].
      exists t'. repeat split; auto. unfold sem at 1. now rewrite Lk, He.
    - exists t. rewrite (gen_eproxy_update_nofin t _ cs Hf). repeat split; auto.
  Qed.

  (** ** [Table.__init__], [Table.entry] *)
  Theorem gen_table_init_eq (d : list G.DictDimension) mp rp :
    exists t, G.gen_table_init (K := K) (A := A) d mp rp = G.Ok t /\ tmp t = mp /\ trp t = rp /\ tdims t = d /\ twf t /\
              forall ks, tlookup t ks = None.
  Proof.
    unfold G.gen_table_init. destruct (generate_ok (K := K) (A := A) keqb mp rp d) as [c [Ec [Wc Lc]]]. rewrite Ec.
    eexists. repeat split; auto.
  Qed.

  Theorem gen_table_entry_eq (t : tbl) :
    G.gen_table_entry t = G.Ok (t, mk (tmp t) (trp t) (@default_entry A (cmp (tmp t)))).
  Proof. destruct t as [mp rp d root]. unfold G.gen_table_entry. now rewrite gen_entry_default_eq. Qed.

  Theorem gen_table_entry2_eq {U} (t : tbl) :
    G.gen_table_entry2 t = G.Ok (t, mk (tmp t) (trp t) (@default_entry U (cmp (tmp t)))).
  Proof. destruct t as [mp rp d root]. unfold G.gen_table_entry2. now rewrite gen_entry_default_eq. Qed.

  (** ** [TableProxy.__getitem__] / [__setitem__], [Table.__getitem__] / [__setitem__] *)
  Lemma walked_nil t : walked t [] = t.
  Proof. destruct t; reflexivity. Qed.

  Lemma full_test (pre : list K) (d : list G.DictDimension) :
    N.eqb (N.add (N.of_nat (length pre)) 1%N) (N.of_nat (length d)) = Nat.eqb (S (length pre)) (length d).
  Proof.
    destruct (Nat.eqb_spec (S (length pre)) (length d)) as [E|E].
    - apply N.eqb_eq. lia.
    - apply N.eqb_neq. lia.
  Qed.

  Theorem gen_tproxy_getitem_eq t pre k : twf t -> length pre < length (tdims t) ->
    G.gen_tproxy_getitem keqb (G.mk_tproxy t pre) k =
      if Nat.eqb (S (length pre)) (length (tdims t))
      then G.Ok (G.mk_tproxy (walked t pre) pre, G.Proxy_EntryProxy (G.mk_eproxy (walked t pre) (pre ++ [k])))
      else G.Ok (G.mk_tproxy t pre, G.Proxy_TableProxy (G.mk_tproxy t (pre ++ [k]))).
  Proof.
    intros W L. destruct t as [mp rp d root]. unfold twf in W. cbn in W, L. cbn [tdims].
    unfold G.gen_tproxy_getitem. cbv beta iota zeta. rewrite full_test.
    destruct (Nat.eqb (S (length pre)) (length d)); [|reflexivity].
    destruct (walk_ok mp rp d pre root [] root W eq_refl ltac:(cbn; lia)) as [_ [_ [_ [_ [_ F3]]]]].
    rewrite F3. reflexivity.
  Qed.

  Theorem gen_tproxy_setitem_spec t pre k c : twf t -> S (length pre) = length (tdims t) ->
    exists t', G.gen_tproxy_setitem keqb eqb (G.mk_tproxy t pre) k c = G.Ok (G.mk_tproxy t' pre, tt) /\
      tmp t' = tmp t /\ trp t' = trp t /\ tdims t' = tdims t /\ twf t' /\
      sem t' (pre ++ [k]) = (if has_fin [c] then update eqb (cmp (tmp t)) (crp (trp t)) (sem t (pre ++ [k])) [ccand c]
                             else sem t (pre ++ [k])) /\
      (forall ks', length ks' = length (tdims t) -> ks' <> pre ++ [k] -> tlookup t' ks' = tlookup t ks').
  Proof.
    intros W L. destruct (gen_eproxy_update_spec t pre k [c] W L) as [t' [E P]].
    exists t'. split; [|exact P]. destruct t as [mp rp d root]. cbn in L.
    unfold G.gen_tproxy_setitem. cbv beta iota zeta. rewrite full_test, L, Nat.eqb_refl.
    unfold G.gen_eproxy_init. cbv beta iota zeta. rewrite E. destruct t'; reflexivity.
  Qed.

  Theorem gen_tproxy_setitem_short t pre k c : S (length pre) <> length (tdims t) ->
    G.gen_tproxy_setitem keqb eqb (G.mk_tproxy t pre) k c = G.Err G.TypeError.
  Proof.
    intros N. destruct t as [mp rp d root]. cbn in N. unfold G.gen_tproxy_setitem. cbv beta iota zeta.
    rewrite full_test. destruct (Nat.eqb_spec (S (length pre)) (length d)); [contradiction|reflexivity].
  Qed.

  (** [table[k]]: a proxy on the rest of the dimensions -- an entry proxy when there is only one *)
  Theorem gen_table_getitem_eq t k : twf t -> tdims t <> [] ->
    G.gen_table_getitem keqb t k =
      G.Ok (t, if Nat.eqb 1 (length (tdims t)) then G.Proxy_EntryProxy (G.mk_eproxy t [k])
               else G.Proxy_TableProxy (G.mk_tproxy t [k])).
  Proof.
    intros W N. unfold G.gen_table_getitem. destruct t as [mp rp d root]. cbv beta iota zeta.
    unfold G.gen_tproxy_init. cbv beta iota zeta.
    rewrite (gen_tproxy_getitem_eq (G.mk_table mp rp d root) [] k W) by (cbn; destruct d; [contradiction|cbn; lia]).
    cbn [length tdims]. rewrite walked_nil. destruct (Nat.eqb 1 (length d)); reflexivity.
  Qed.

  Theorem gen_table_setitem_spec t k c : twf t -> length (tdims t) = 1 ->
    exists t', G.gen_table_setitem keqb eqb t k c = G.Ok (t', tt) /\
      tmp t' = tmp t /\ trp t' = trp t /\ tdims t' = tdims t /\ twf t' /\
      sem t' [k] = (if has_fin [c] then update eqb (cmp (tmp t)) (crp (trp t)) (sem t [k]) [ccand c] else sem t [k]) /\
      (forall ks', length ks' = length (tdims t) -> ks' <> [k] -> tlookup t' ks' = tlookup t ks').
  Proof.
    intros W L. destruct (gen_tproxy_setitem_spec t [] k c W ltac:(cbn; lia)) as [t' [E P]].
    exists t'. split; [|exact P]. unfold G.gen_table_setitem. destruct t as [mp rp d root]. cbv beta iota zeta.
    unfold G.gen_tproxy_init. cbv beta iota zeta. rewrite E. destruct t'; reflexivity.
  Qed.

  (** ** the methods of a proxy of either class *)
  Lemma Proxy_getitem_table p k : G.gen_Proxy_getitem keqb (G.Proxy_TableProxy p) k =
    match G.gen_tproxy_getitem (A := A) keqb p k with G.Ok (s, r) => G.Ok (G.Proxy_TableProxy s, r) | G.Err e => G.Err e end.
  Proof. reflexivity. Qed.
  Lemma Proxy_getitem_entry p k : G.gen_Proxy_getitem (A := A) keqb (G.Proxy_EntryProxy p) k = G.Err G.TypeError.
  Proof. reflexivity. Qed.
  Lemma Proxy_value_entry p : G.gen_Proxy_value keqb (G.Proxy_EntryProxy p) =
    match G.gen_eproxy_value (A := A) keqb p with G.Ok (s, r) => G.Ok (G.Proxy_EntryProxy s, r) | G.Err e => G.Err e end.
  Proof. reflexivity. Qed.
  Lemma Proxy_value_table p : G.gen_Proxy_value (A := A) keqb (G.Proxy_TableProxy p) = G.Err G.AttributeError.
  Proof. reflexivity. Qed.

  (** ** [table[k1]..[kn]]: a chain of subscripts, for any number of dimensions *)
  Fixpoint subscripts (p : G.Proxy K A) (ks : list K) : G.res (G.Proxy K A) :=
    match ks with
    | [] => G.Ok p
    | k :: ks' => match G.gen_Proxy_getitem keqb p k with G.Ok (_, p') => subscripts p' ks' | G.Err e => G.Err e end
    end.
  Definition table_at (t : tbl) (ks : list K) : G.res (G.Proxy K A) :=
    match ks with
    | [] => G.Ok (G.Proxy_TableProxy (G.mk_tproxy t []))
    | k :: ks' => match G.gen_table_getitem keqb t k with G.Ok (_, p) => subscripts p ks' | G.Err e => G.Err e end
    end.

  Lemma subscripts_ok rest : forall t pre, twf t -> rest <> [] -> length pre + length rest = length (tdims t) ->
    exists t', subscripts (G.Proxy_TableProxy (G.mk_tproxy t pre)) rest = G.Ok (G.Proxy_EntryProxy (G.mk_eproxy t' (pre ++ rest)))
               /\ tsame t t'.
  Proof.
    induction rest as [|k rest IH]; intros t pre W N L; [contradiction|]. cbn [subscripts].
    rewrite Proxy_getitem_table, (gen_tproxy_getitem_eq t pre k W) by (cbn in L; lia).
    destruct rest as [|k2 rest].
    - cbn in L. replace (Nat.eqb (S (length pre)) (length (tdims t))) with true by (symmetry; apply Nat.eqb_eq; lia).
      cbn [subscripts]. exists (walked t pre). split; [reflexivity|]. apply walked_same; [exact W|lia].
    - cbn in L. replace (Nat.eqb (S (length pre)) (length (tdims t))) with false by (symmetry; apply Nat.eqb_neq; lia).
      destruct (IH t (pre ++ [k]) W ltac:(discriminate)) as [t' [E S]].
      { rewrite app_length. cbn. lia. }
      rewrite <- app_assoc in E. exists t'. split; [exact E|exact S].
  Qed.

  Theorem table_at_ok t ks : twf t -> ks <> [] -> length ks = length (tdims t) ->
    exists t', table_at t ks = G.Ok (G.Proxy_EntryProxy (G.mk_eproxy t' ks)) /\ tsame t t'.
  Proof.
    intros W N L. destruct ks as [|k ks]; [contradiction|]. cbn [table_at].
    rewrite (gen_table_getitem_eq t k W) by (intros E; rewrite E in L; discriminate).
    destruct ks as [|k2 ks].
    - cbn in L. rewrite <- L. cbn [Nat.eqb subscripts]. exists t. split; [reflexivity|]. now apply tsame_refl.
    - cbn in L. replace (Nat.eqb 1 (length (tdims t))) with false by (symmetry; apply Nat.eqb_neq; lia).
      apply (subscripts_ok (k2 :: ks) t [k] W); [discriminate|cbn; lia].
  Qed.
End Tables.

(* ------------------------------------------------------------------ *)
(** * The model of [Model/Entry.v]: keys are lists of numbers *)
Section Model.
  Context {A : Type} (eqb : A -> A -> bool).
  Notation tbl := (G.table_state nat A).

  (** the generated table [t] holds what the model's table [m] holds *)
  Definition rep (t : tbl) (m : @table A) : Prop :=
    forall ks, length ks = length (G.table_dimensions t) -> option_map ent (tlookup Nat.eqb t ks) = lookup m ks.

  Lemma rep_sem t m ks : rep t m -> length ks = length (G.table_dimensions t) ->
    sem Nat.eqb t ks = read (cmp (G.table_merge_policy t)) m ks.
  Proof. intros R L. unfold sem, read. rewrite <- (R ks L). now destruct (tlookup Nat.eqb t ks). Qed.

  Lemma rep_same t t' m : tsame Nat.eqb t t' -> rep t m -> rep t' m.
  Proof. intros [_ [_ [D [_ S]]]] R ks L. rewrite S. apply R. congruence. Qed.

  Definition mdims (t : tbl) : Entry.dims := map (fun _ => None) (G.table_dimensions t).

  (** a fresh table holds nothing *)
  Theorem gen_table_init_model d mp rp :
    exists t, G.gen_table_init (K := nat) (A := A) d mp rp = G.Ok t /\ G.table_merge_policy t = mp /\
              G.table_retention_policy t = rp /\ G.table_dimensions t = d /\ twf t /\ rep t [].
  Proof.
    destruct (gen_table_init_eq (K := nat) (A := A) Nat.eqb d mp rp) as [t [E [P1 [P2 [P3 [W Lk]]]]]].
    exists t. repeat split; auto. intros ks _. now rewrite Lk.
  Qed.

  (** [table[k1]..[kn].value()], [.infos()], [.is_infinite()]: the model's [read]; the table still holds the same *)
  Theorem table_read_model t m ks : twf t -> rep t m -> ks <> [] -> length ks = length (G.table_dimensions t) ->
    exists t1, table_at Nat.eqb t ks = G.Ok (G.Proxy_EntryProxy (G.mk_eproxy t1 ks)) /\ twf t1 /\ rep t1 m /\
      (exists t2, G.gen_Proxy_value Nat.eqb (G.Proxy_EntryProxy (G.mk_eproxy t1 ks)) =
                    G.Ok (G.Proxy_EntryProxy (G.mk_eproxy t2 ks), val (read (cmp (G.table_merge_policy t)) m ks))
                  /\ twf t2 /\ rep t2 m) /\
      (exists t2, G.gen_Proxy_infos Nat.eqb (G.Proxy_EntryProxy (G.mk_eproxy t1 ks)) =
                    G.Ok (G.Proxy_EntryProxy (G.mk_eproxy t2 ks), tags (read (cmp (G.table_merge_policy t)) m ks))
                  /\ twf t2 /\ rep t2 m) /\
      (exists t2, G.gen_Proxy_is_infinite Nat.eqb (G.Proxy_EntryProxy (G.mk_eproxy t1 ks)) =
                    G.Ok (G.Proxy_EntryProxy (G.mk_eproxy t2 ks), ext_is_inf (val (read (cmp (G.table_merge_policy t)) m ks)))
                  /\ twf t2 /\ rep t2 m).
  Proof.
    intros W R N L. destruct (table_at_ok Nat.eqb Nat.eqb_spec t ks W N L) as [t1 [E S1]].
    pose proof S1 as [P1 [P2 [P3 [W1 _]]]]. pose proof (rep_same _ _ _ S1 R) as R1.
    assert (L1 : length ks = length (G.table_dimensions t1)) by congruence.
    pose proof (walked_same Nat.eqb Nat.eqb_spec t1 ks W1 ltac:(lia)) as S2.
    pose proof S2 as [_ [_ [_ [W2 _]]]]. pose proof (rep_same _ _ _ S2 R1) as R2.
    exists t1. repeat split; auto; exists (walked Nat.eqb t1 ks); (split; [|split; assumption]).
    - cbn [G.gen_Proxy_value]. rewrite (gen_eproxy_value_eq Nat.eqb Nat.eqb_spec t1 ks W1 L1).
      now rewrite (rep_sem t1 m ks R1 L1), P1.
    - cbn [G.gen_Proxy_infos]. rewrite (gen_eproxy_infos_eq Nat.eqb Nat.eqb_spec t1 ks W1 L1).
      now rewrite (rep_sem t1 m ks R1 L1), P1.
    - cbn [G.gen_Proxy_is_infinite]. rewrite (gen_eproxy_is_infinite_eq Nat.eqb Nat.eqb_spec t1 ks W1 L1).
      now rewrite (rep_sem t1 m ks R1 L1), P1.
  Qed.

  (** [table[k1]..[kn].update with the candidates cs]: the model's [write] *)
  Theorem table_update_model t m pre k cs : twf t -> rep t m -> S (length pre) = length (G.table_dimensions t) ->
    exists t1 t2, table_at Nat.eqb t (pre ++ [k]) = G.Ok (G.Proxy_EntryProxy (G.mk_eproxy t1 (pre ++ [k]))) /\
      G.gen_Proxy_update Nat.eqb eqb (G.Proxy_EntryProxy (G.mk_eproxy t1 (pre ++ [k]))) cs =
        G.Ok (G.Proxy_EntryProxy (G.mk_eproxy t2 (pre ++ [k])), tt) /\
      G.table_merge_policy t2 = G.table_merge_policy t /\ G.table_retention_policy t2 = G.table_retention_policy t /\
      G.table_dimensions t2 = G.table_dimensions t /\ twf t2 /\
      rep t2 (write eqb (cmp (G.table_merge_policy t)) (crp (G.table_retention_policy t)) m (pre ++ [k]) (map ccand cs)).
  Proof.
    intros W R L.
    assert (Lf : length (pre ++ [k]) = length (G.table_dimensions t)) by (rewrite app_length; cbn; lia).
    destruct (table_at_ok Nat.eqb Nat.eqb_spec t (pre ++ [k]) W ltac:(destruct pre; discriminate) Lf) as [t1 [E S1]].
    pose proof S1 as [P1 [P2 [P3 [W1 _]]]]. pose proof (rep_same _ _ _ S1 R) as R1.
    assert (L1 : S (length pre) = length (G.table_dimensions t1)) by congruence.
    assert (Lf1 : length (pre ++ [k]) = length (G.table_dimensions t1)) by congruence.
    unfold write. rewrite <- has_fin_model. destruct (has_fin cs) eqn:Hf.
    - destruct (gen_eproxy_update_fin Nat.eqb eqb Nat.eqb_spec t1 pre k cs W1 L1 Hf)
        as [t2 [e' [E2 [Q1 [Q2 [Q3 [W2 [Lk [He Lo]]]]]]]]].
      exists t1, t2. split; [exact E|]. split; [cbn [G.gen_Proxy_update]; now rewrite E2|].
      repeat split; try congruence. intros ks Lks.
      destruct (key_eqb_spec ks (pre ++ [k])) as [->|Nk].
      + rewrite lookup_store_same, Lk. cbn [option_map]. rewrite He, P1, P2. now rewrite (rep_sem t1 m _ R1 Lf1), P1.
      + rewrite lookup_store_other by congruence. rewrite (Lo ks) by congruence. apply R1. congruence.
    - exists t1, t1. split; [exact E|]. split.
      { cbn [G.gen_Proxy_update]. now rewrite (gen_eproxy_update_nofin Nat.eqb eqb t1 _ cs Hf). }
      repeat split; auto.
  Qed.
End Model.

(* ------------------------------------------------------------------ *)
(** * [Entry.__iter__], [EntryProxy.combine] *)
Section Iter.
  Context {A : Type}.

  Lemma entry_iter_loop v (l : list A) : forall acc,
    G.gen_entry_iter_for1 v l acc = G.Next (acc ++ map (fun i => EG.mk_Candidate v (Some i)) l).
  Proof.
    induction l as [|i l IH]; intros acc; cbn [G.gen_entry_iter_for1 map]; [now rewrite app_nil_r|].
    rewrite IH, <- app_assoc. reflexivity.
  Qed.

  (** iterating an entry: one candidate per tag, in the order of the tags (the model's [cands]) *)
  Theorem gen_entry_iter_eq (s : EG.entry_state A) :
    G.gen_entry_iter s = G.Ok (s, map (fun i => EG.mk_Candidate (EG.entry__value s) (Some i)) (EG.entry__infos s)).
  Proof. destruct s as [v l mp rp]. unfold G.gen_entry_iter. now rewrite entry_iter_loop. Qed.
End Iter.

Section Combine.
  Context {K A U : Type} (keqb : K -> K -> bool) (eqb2 : U -> U -> bool).
  Hypothesis keqb_spec : forall a b, reflect (a = b) (keqb a b).

  (** [proxy.combine(other, combinator)]: the proxy itself when the cell does not exist, else [Entry.combine] of the cell *)
  Theorem gen_eproxy_combine_eq (t : G.table_state K A) ks (o : EG.entry_state A) comb :
    twf t -> length ks = length (G.table_dimensions t) ->
    G.gen_eproxy_combine keqb eqb2 (G.mk_eproxy t ks) o comb =
      G.Ok (G.mk_eproxy (walked keqb t ks) ks,
            match tlookup keqb t ks with
            | None => G.Combined_EntryProxy (U := U) (G.mk_eproxy (walked keqb t ks) ks)
            | Some e => G.Combined_Entry2 (mk (EG.entry__merge_policy e) (EG.entry__retention_policy e)
                          (combine eqb2 (cmp (EG.entry__merge_policy e)) (crp (EG.entry__retention_policy e)) (ent e) (ent o)
                                   (comb_f comb (val (ent e)) (val (ent o)))))
            end).
  Proof.
    intros W L. unfold G.gen_eproxy_combine. destruct t as [mp rp d root].
    rewrite (gen_eproxy_get_real_eq keqb keqb_spec (G.mk_table mp rp d root) ks W L). unfold walked, with_root. cbn.
    destruct (tlookup keqb (G.mk_table mp rp d root) ks) as [e|]; [|reflexivity].
    rewrite gen_entry_combine_eq. reflexivity.
  Qed.
End Combine.

(* non-vacuity: a table with two dictionary dimensions; a write, then a read, through the generated code *)
Example table_example :
  exists t0 t1 p1 t2,
    G.gen_table_init (K := nat) (A := nat) [G.mk_DictDimension; G.mk_DictDimension] EG.MergePolicy_MIN EG.RetentionPolicy_ALL = G.Ok t0 /\
    twf t0 /\
    table_at Nat.eqb t0 [3; 5]%nat = G.Ok p1 /\
    G.gen_Proxy_update Nat.eqb Nat.eqb p1 [EG.mk_Candidate (Fin 2) (Some 7%nat); EG.mk_Candidate PInf (Some 8%nat)] = G.Ok (G.Proxy_EntryProxy (G.mk_eproxy t1 [3; 5]%nat), tt) /\
    G.gen_Proxy_value Nat.eqb (G.Proxy_EntryProxy (G.mk_eproxy t1 [3; 5]%nat)) = G.Ok (G.Proxy_EntryProxy (G.mk_eproxy t2 [3; 5]%nat), Fin 2) /\
    sem Nat.eqb t2 [3; 5]%nat = {| val := Fin 2; tags := [7%nat] |} /\ sem Nat.eqb t2 [3; 6]%nat = default_entry MIN.
Proof. do 4 eexists. repeat split; try reflexivity. cbn. repeat constructor. Qed.

Print Assumptions gen_table_init_eq.
Print Assumptions gen_table_entry_eq.
Print Assumptions gen_eproxy_get_real_eq.
Print Assumptions gen_eproxy_value_eq.
Print Assumptions gen_eproxy_infos_eq.
Print Assumptions gen_eproxy_is_infinite_eq.
Print Assumptions gen_eproxy_update_spec.
Print Assumptions gen_tproxy_getitem_eq.
Print Assumptions gen_tproxy_setitem_spec.
Print Assumptions gen_table_getitem_eq.
Print Assumptions gen_table_setitem_spec.
Print Assumptions table_at_ok.
Print Assumptions gen_table_init_model.
Print Assumptions table_read_model.
Print Assumptions table_update_model.
Print Assumptions gen_entry_iter_eq.
Print Assumptions gen_eproxy_combine_eq.
