(** review C, item 7: names pass through escape in the labels of Model/Tikz.v *)
From Coq Require Import String Ascii List Bool Arith ZArith Lia.
From SR Require Import Model.Escape Model.Wrap Model.Tikz.
Import ListNotations.
Module PartF.
Local Open Scope list_scope.

(** ** species labels ([_tikz_draw_fork]): the name goes through [escape], whatever the name *)

(* without wrapping the label IS the escaped name *)
Lemma species_label_escapes : forall name : str,
  species_label None name = Some (escape name).
Proof. intros name. reflexivity. Qed.
Print Assumptions species_label_escapes.

(* with a wrapping width: the escaped name is wrapped, then the line feeds become "\\" *)
Lemma species_label_wrapped_escapes : forall (w : nat) (name : str),
  species_label (Some w) name = option_map (replace1 nl bsbs) (balanced_wrap (escape name) w).
Proof. intros w name. reflexivity. Qed.
Print Assumptions species_label_wrapped_escapes.

(* both cases at once: the only occurrence of the name in the label is [escape name] *)
Lemma species_label_factors : forall (width : option nat) (name : str),
  species_label width name =
  (fun e : str => match width with
                  | None => Some e
                  | Some w => option_map (replace1 nl bsbs) (balanced_wrap e w)
                  end) (escape name).
Proof. intros width name. reflexivity. Qed.
Print Assumptions species_label_factors.

(** ** leaf labels ([_compute_branches]) *)

(* [rsplit_us] splits at an underscore: the two parts are the name around it
   (the last one: the second part has none) *)
Lemma rsplit_us_split : forall (name a b : str),
  rsplit_us name = Some (a, b) -> name = a ++ us :: b.
Proof.
  induction name as [| c r IH]; intros a b H; simpl in H; [discriminate |].
  destruct (rsplit_us r) as [[a' b'] |] eqn:E.
  - injection H as <- <-. simpl. f_equal. apply IH. reflexivity.
  - destruct (Ascii.eqb c us) eqn:Ec; [| discriminate].
    injection H as <- <-. apply Ascii.eqb_eq in Ec. subst c. reflexivity.
Qed.
Print Assumptions rsplit_us_split.

Lemma rsplit_us_last : forall (name a b : str),
  rsplit_us name = Some (a, b) -> rsplit_us b = None.
Proof.
  induction name as [| c r IH]; intros a b H; simpl in H; [discriminate |].
  destruct (rsplit_us r) as [[a' b'] |] eqn:E.
  - injection H as <- <-. apply (IH a' b'). reflexivity.
  - destruct (Ascii.eqb c us); [| discriminate]. injection H as <- <-. exact E.
Qed.
Print Assumptions rsplit_us_last.

(* a leaf without a displayed synteny ([synteny_text] gives the empty text), name "a_b":
   both parts of the name go through [escape] *)
Lemma leaf_label_escapes : forall (width : option nat) (name : str) (syn psyn : option (list str)) (a b : str),
  synteny_text width syn = Some [] ->
  rsplit_us name = Some (a, b) ->
  node_label width true name syn psyn = Some (escape a ++ textsub ++ escape b ++ [rbrace]).
Proof.
  intros width name syn psyn a b Hs Hr. unfold node_label. rewrite Hs.
  destruct name as [| c r]; [discriminate |]. rewrite Hr. reflexivity.
Qed.
Print Assumptions leaf_label_escapes.

(* the plain-reconciliation instance: no synteny at all *)
Lemma leaf_label_escapes_nosyn : forall (width : option nat) (name : str) (psyn : option (list str)) (a b : str),
  rsplit_us name = Some (a, b) ->
  node_label width true name None psyn = Some (escape a ++ textsub ++ escape b ++ [rbrace]).
Proof. intros. apply leaf_label_escapes; [reflexivity | assumption]. Qed.
Print Assumptions leaf_label_escapes_nosyn.

(* the complete leaf case, every name: the name is used only through [rsplit_us] and [escape] *)
Lemma leaf_label_cases : forall (width : option nat) (name : str) (syn psyn : option (list str)),
  node_label width true name syn psyn =
  match synteny_text width syn with
  | None => None
  | Some (c :: st) => Some (c :: st)
  | Some [] =>
      match name with
      | [] => Some []
      | _ => match rsplit_us name with
             | Some (a, b) => Some (escape a ++ textsub ++ escape b ++ [rbrace])
             | None => None
             end
      end
  end.
Proof.
  intros width name syn psyn. unfold node_label.
  destruct (synteny_text width syn) as [[| c st] |]; [| reflexivity | reflexivity].
  destruct name; reflexivity.
Qed.
Print Assumptions leaf_label_cases.

(* a displayed synteny: every family name goes through [escape] *)
Lemma leaf_label_synteny_escapes : forall (width : option nat) (name : str) (fams : list str)
    (psyn : option (list str)) (c : ascii) (st : str),
  option_map (replace1 nl bsbs) (format_synteny (map escape fams) width) = Some (c :: st) ->
  node_label width true name (Some fams) psyn = Some (c :: st).
Proof. intros width name fams psyn c st H. unfold node_label, synteny_text. rewrite H. reflexivity. Qed.
Print Assumptions leaf_label_synteny_escapes.

End PartF.
