(** The functions of [Gen/LcaGen.v] -- generated from [src/superrec2/utils/trees.py] by
    [translator/lca_gen.py] -- are equal to the hand-written model [Model/Euler.v].

    The generated code works on trees whose nodes carry an identifier (the identity of the Python
    node object) and a list of children; the model works on shapes ([rose]) and root paths.  The
    conversion is explicit: [shape] forgets the identifiers, [sub root p] is the node at the root
    path [p], [find_path root i] the root path of the node with identifier [i] (first match in
    preorder), [pth root i] the same as a total function: an identifier that does not occur in the
    tree -- a node of another tree -- is sent to [bad_path root], a path that addresses no node of
    [root], which is how the harness hands foreign nodes to the model.  Entries [(level, node)] of
    the generated tour are converted with [enc root].

    Hypotheses of the theorems: the identifiers of the tree are pairwise distinct ([NoDup (ids
    root)]: two different node objects have different identities) and [node_id_eqb] decides
    equality of identifiers.  [node_ltb], what [<] between two distinct nodes would answer, is
    arbitrary: no statement depends on it (Python raises TypeError there; the proofs show, with
    [tuple_min_never_compares_nodes] of [Proofs/EulerProofs.v], that [min] only ever compares
    tuples with different levels or with the same node).

    - [gen_euler_tour_eq]: [_euler_tour(root)] is the model's [tour 0 [] (shape root)].
    - [gen_lca_init_eq]: [__init__] succeeds and builds the model's structure: same tour, same
      sparse table, and [traversal_index] is the model's first-occurrence [index].
    - [gen_lca_call_eq], [gen_is_ancestor_eq], [gen_is_strict_ancestor_eq], [gen_is_comparable_eq],
      [gen_level_eq], [gen_distance_eq]: on an object built by [__init__], for all arguments (nodes
      of the tree or not, any number of them) every method answers what the model answers --
      [None] for an exception -- and leaves the object unchanged. *)
From Coq Require Import List Bool Arith ZArith NArith Lia.
From SR Require Import Model.Rmq Model.Euler Proofs.RmqProofs Proofs.EulerProofs Proofs.RmqGenProofs.
From SR Require Gen.RmqGen Gen.LcaGen.
Import ListNotations.
Module G := SR.Gen.LcaGen.
Module R := SR.Gen.RmqGen.

Local Arguments N.to_nat : simpl never.
Local Arguments N.of_nat : simpl never.
Local Arguments N.add : simpl never.
Local Arguments N.succ : simpl never.
Local Arguments Nat.pow : simpl never.

Section LcaGen.
  Context {node_id : Type} (node_id_eqb : node_id -> node_id -> bool) (node_ltb : node_id -> node_id -> bool).
  Hypothesis node_id_eqb_spec : forall a b, node_id_eqb a b = true <-> a = b.

  Notation T := (G.TreeNode node_id).
  Notation tid := (@G.TreeNode_id node_id).
  Notation kids := (@G.TreeNode_children node_id).
  Notation gentry := (N * T)%type.

  Lemma eqb_refl i : node_id_eqb i i = true.
  Proof. now apply node_id_eqb_spec. Qed.

  Lemma eqb_neq i j : i <> j -> node_id_eqb i j = false.
  Proof. intros H. destruct (node_id_eqb i j) eqn:E; [|reflexivity]. apply node_id_eqb_spec in E. contradiction. Qed.

  (* ---------------------------------------------------------------- *)
  (** * Trees: induction principle, shape, nodes at root paths, identifiers *)

  Section TreeInd.
    Variable P : T -> Prop.
    Hypothesis H : forall i cs, Forall P cs -> P (G.TreeNode_node i cs).
    Fixpoint tree_ind' (t : T) : P t :=
      match t with
      | G.TreeNode_node i cs =>
          H i cs ((fix go (cs : list T) : Forall P cs :=
                     match cs with [] => Forall_nil _ | c :: cs' => Forall_cons _ (tree_ind' c) (go cs') end) cs)
      end.
  End TreeInd.

  Fixpoint shape (t : T) : rose :=
    match t with G.TreeNode_node _ cs => Node (map shape cs) end.

  (* identifiers in preorder *)
  Fixpoint ids (t : T) : list node_id :=
    match t with G.TreeNode_node i cs => i :: flat_map ids cs end.

  (* the node at a root path *)
  Fixpoint sub (t : T) (p : path) : option T :=
    match p with
    | [] => Some t
    | k :: p' => match nth_error (kids t) k with Some c => sub c p' | None => None end
    end.

  (* root path -> identifier *)
  Definition id_at (t : T) (p : path) : option node_id := option_map tid (sub t p).

  (* identifier -> root path: the first node in preorder that carries the identifier *)
  Fixpoint find_in (f : T -> option path) (k : nat) (cs : list T) : option path :=
    match cs with
    | [] => None
    | c :: cs' => match f c with Some p => Some (k :: p) | None => find_in f (S k) cs' end
    end.

  Fixpoint find_path (i : node_id) (t : T) : option path :=
    match t with
    | G.TreeNode_node j cs =>
        if node_id_eqb i j then Some []
        else (fix go (k : nat) (cs : list T) : option path :=
                match cs with
                | [] => None
                | c :: cs' => match find_path i c with Some p => Some (k :: p) | None => go (S k) cs' end
                end) 0 cs
    end.

  Lemma find_path_eq i j cs :
    find_path i (G.TreeNode_node j cs) = if node_id_eqb i j then Some [] else find_in (find_path i) 0 cs.
  Proof.
    simpl. destruct (node_id_eqb i j); [reflexivity|]. generalize 0.
    induction cs as [|c cs IH]; intros k; simpl; [reflexivity|]. now rewrite IH.
  Qed.

  (* a root path that addresses no node of the tree *)
  Definition bad_path (t : T) : path := [length (kids t)].

  Definition pth (root : T) (i : node_id) : path :=
    match find_path i root with Some p => p | None => bad_path root end.

  Definition distinct_ids (root : T) : Prop :=
    forall p q n m, sub root p = Some n -> sub root q = Some m -> tid n = tid m -> p = q.

  Lemma sub_app t p q : sub t (p ++ q) = match sub t p with Some c => sub c q | None => None end.
  Proof.
    revert t; induction p as [|k p IH]; intros t; simpl; [reflexivity|].
    destruct (nth_error (kids t) k); [apply IH|reflexivity].
  Qed.

  Lemma sub_bad t : sub t (bad_path t) = None.
  Proof.
    unfold bad_path. simpl. destruct (nth_error (kids t) (length (kids t))) eqn:E; [|reflexivity].
    assert (length (kids t) < length (kids t)) by (apply nth_error_Some; congruence). lia.
  Qed.

  Lemma valid_sub : forall p t, valid (shape t) p = true <-> exists n, sub t p = Some n.
  Proof.
    induction p as [|k p IH]; intros [i cs]; simpl.
    - split; eauto.
    - rewrite nth_error_map'. destruct (nth_error cs k) as [c|]; simpl; [apply IH|].
      split; [discriminate|intros [n H]; discriminate].
  Qed.

  Lemma find_in_some f k cs q : find_in f k cs = Some q ->
    exists j c p, nth_error cs j = Some c /\ f c = Some p /\ q = (k + j) :: p.
  Proof.
    revert k; induction cs as [|c cs IH]; intros k; simpl; [discriminate|].
    destruct (f c) as [p|] eqn:E.
    - intros H. injection H as <-. exists 0, c, p. rewrite Nat.add_0_r. auto.
    - intros H. destruct (IH _ H) as [j [c' [p [Hn [Hf ->]]]]]. exists (S j), c', p.
      repeat split; auto. f_equal. lia.
  Qed.

  Lemma find_in_none f k cs : find_in f k cs = None -> forall c, In c cs -> f c = None.
  Proof.
    revert k; induction cs as [|c cs IH]; intros k; simpl; [tauto|].
    destruct (f c) eqn:E; [discriminate|]. intros H c' [<-|Hc]; [exact E|eauto].
  Qed.

  (* what [find_path] finds is a node with that identifier *)
  Lemma find_path_sound i : forall t p, find_path i t = Some p -> exists n, sub t p = Some n /\ tid n = i.
  Proof.
    induction t as [j cs IH] using tree_ind'. intros p. rewrite find_path_eq.
    destruct (node_id_eqb i j) eqn:E.
    - intros H. injection H as <-. apply node_id_eqb_spec in E. subst. eexists. split; reflexivity.
    - intros H. apply find_in_some in H as [k [c [q [Hn [Hf ->]]]]]. simpl. rewrite Hn.
      rewrite Forall_forall in IH. apply (IH c (nth_error_In _ _ Hn) q Hf).
  Qed.

  (* every node is found under some path *)
  Lemma find_path_total : forall p t n, sub t p = Some n -> exists q, find_path (tid n) t = Some q.
  Proof.
    induction p as [|k p IH]; intros [j cs] n; cbn [sub G.TreeNode_children].
    - intros H. injection H as <-. rewrite find_path_eq. cbn [G.TreeNode_id]. rewrite eqb_refl. eauto.
    - destruct (nth_error cs k) as [c|] eqn:Hn; [|discriminate]. intros H.
      rewrite find_path_eq. destruct (node_id_eqb (tid n) j); [eauto|].
      destruct (find_in (find_path (tid n)) 0 cs) as [q|] eqn:E; [eauto|].
      destruct (IH c n H) as [q Hq].
      rewrite (find_in_none _ _ _ E c (nth_error_In _ _ Hn)) in Hq. discriminate.
  Qed.

  Lemma find_path_sub root p n : distinct_ids root -> sub root p = Some n -> find_path (tid n) root = Some p.
  Proof.
    intros D H. destruct (find_path_total p root n H) as [q Hq]. rewrite Hq. f_equal.
    destruct (find_path_sound _ _ _ Hq) as [m [Hm E]]. apply (D q p m n Hm H E).
  Qed.

  Lemma pth_sub root p n : distinct_ids root -> sub root p = Some n -> pth root (tid n) = p.
  Proof. intros D H. unfold pth. now rewrite (find_path_sub root p n D H). Qed.

  (* [pth] is injective as soon as one of the two identifiers occurs in the tree *)
  Lemma pth_member_inj root i j q : find_path j root = Some q -> pth root i = q -> i = j.
  Proof.
    intros Hj Hi. unfold pth in Hi. destruct (find_path i root) as [q'|] eqn:E.
    - subst q'. destruct (find_path_sound _ _ _ E) as [n [Hn <-]].
      destruct (find_path_sound _ _ _ Hj) as [m [Hm <-]]. congruence.
    - subst q. destruct (find_path_sound _ _ _ Hj) as [m [Hm _]]. rewrite sub_bad in Hm. discriminate.
  Qed.

  Lemma pth_valid root i : valid (shape root) (pth root i) = true <-> find_path i root <> None.
  Proof.
    unfold pth. destruct (find_path i root) as [p|] eqn:E.
    - split; [discriminate|]. intros _. apply valid_sub. destruct (find_path_sound _ _ _ E) as [n [Hn _]]. eauto.
    - split; [|congruence]. intros H. apply valid_sub in H as [n Hn]. rewrite sub_bad in Hn. discriminate.
  Qed.

  (* identifier <-> root path, both directions *)
  Lemma id_at_pth root i p : find_path i root = Some p -> id_at root p = Some i.
  Proof. intros H. destruct (find_path_sound _ _ _ H) as [n [Hn <-]]. unfold id_at. now rewrite Hn. Qed.

  Lemma pth_id_at root p i : distinct_ids root -> id_at root p = Some i -> pth root i = p.
  Proof.
    unfold id_at. intros D H. destruct (sub root p) as [n|] eqn:E; [|discriminate].
    injection H as <-. exact (pth_sub root p n D E).
  Qed.

  (** ** Pairwise distinct identifiers, as [NoDup] of the preorder list *)

  Lemma sub_ids : forall p t n, sub t p = Some n -> In (tid n) (ids t).
  Proof.
    induction p as [|k p IH]; intros [j cs] n; simpl.
    - intros H. injection H as <-. left. reflexivity.
    - destruct (nth_error cs k) as [c|] eqn:Hn; [|discriminate]. intros H. right.
      apply in_flat_map. exists c. split; [eapply nth_error_In; eauto|eauto].
  Qed.

  Lemma NoDup_app_l {X} (a b : list X) : NoDup (a ++ b) -> NoDup a.
  Proof.
    induction a as [|x a IH]; simpl; intros H; [constructor|].
    inversion H as [|? ? Hx Hr]; subst. constructor; [|auto]. intros Hi. apply Hx, in_or_app. auto.
  Qed.
  Lemma NoDup_app_r {X} (a b : list X) : NoDup (a ++ b) -> NoDup b.
  Proof. induction a as [|x a IH]; simpl; intros H; [exact H|]. inversion H; auto. Qed.
  Lemma NoDup_app_disj {X} (a b : list X) x : NoDup (a ++ b) -> In x a -> In x b -> False.
  Proof.
    induction a as [|y a IH]; simpl; intros H Ha Hb; [tauto|].
    inversion H as [|? ? Hy Hr]; subst. destruct Ha as [->|Ha]; [|eauto].
    apply Hy, in_or_app. auto.
  Qed.

  Lemma flat_disjoint : forall (cs : list T) j j' c c' x,
    NoDup (flat_map ids cs) -> nth_error cs j = Some c -> nth_error cs j' = Some c' -> j < j' ->
    In x (ids c) -> In x (ids c') -> False.
  Proof.
    induction cs as [|c0 cs IH]; intros j j' c c' x Hd Hj Hj' Hlt Hx Hx'; [destruct j; discriminate|].
    simpl in Hd. destruct j' as [|j']; [lia|]. simpl in Hj'. destruct j as [|j]; simpl in Hj.
    - injection Hj as ->. apply (NoDup_app_disj _ _ x Hd Hx). apply in_flat_map. exists c'.
      split; [eapply nth_error_In; eauto|exact Hx'].
    - apply (IH j j' c c' x (NoDup_app_r _ _ Hd) Hj Hj' ltac:(lia) Hx Hx').
  Qed.

  Lemma flat_child : forall (cs : list T) j c, NoDup (flat_map ids cs) -> nth_error cs j = Some c -> NoDup (ids c).
  Proof.
    induction cs as [|c0 cs IH]; intros [|j] c Hd Hj; simpl in *; try discriminate.
    - injection Hj as ->. exact (NoDup_app_l _ _ Hd).
    - exact (IH j c (NoDup_app_r _ _ Hd) Hj).
  Qed.

  Theorem NoDup_distinct_ids : forall root, NoDup (ids root) -> distinct_ids root.
  Proof.
    induction root as [i cs IH] using tree_ind'. intros Hd p q n m Hp Hq E.
    simpl in Hd. inversion Hd as [|? ? Hi Hcs]; subst.
    destruct p as [|k p], q as [|k' q]; simpl in Hp, Hq.
    - reflexivity.
    - exfalso. injection Hp as <-. simpl in E. destruct (nth_error cs k') as [c|] eqn:Hn; [|discriminate].
      apply Hi. rewrite E. apply in_flat_map. exists c. split; [eapply nth_error_In; eauto|eapply sub_ids; eauto].
    - exfalso. injection Hq as <-. simpl in E. destruct (nth_error cs k) as [c|] eqn:Hn; [|discriminate].
      apply Hi. rewrite <- E. apply in_flat_map. exists c. split; [eapply nth_error_In; eauto|eapply sub_ids; eauto].
    - destruct (nth_error cs k) as [c|] eqn:Hn; [|discriminate].
      destruct (nth_error cs k') as [c'|] eqn:Hn'; [|discriminate].
      pose proof (sub_ids _ _ _ Hp) as I1. pose proof (sub_ids _ _ _ Hq) as I2. rewrite E in I1.
      destruct (Nat.lt_trichotomy k k') as [Hlt|[->|Hlt]].
      + exfalso. exact (flat_disjoint cs k k' c c' _ Hcs Hn Hn' Hlt I1 I2).
      + assert (c' = c) by congruence. subst c'. f_equal.
        rewrite Forall_forall in IH. apply (IH c (nth_error_In _ _ Hn) (flat_child cs k' c Hcs Hn) p q n m Hp Hq E).
      + exfalso. exact (flat_disjoint cs k' k c' c _ Hcs Hn' Hn Hlt I2 I1).
  Qed.

  (* ---------------------------------------------------------------- *)
  (** * _euler_tour *)

  (* a generated entry [(level, node)] and the model's entry [(level, root path)] *)
  Definition enc (root : T) (e : gentry) : entry := (N.to_nat (fst e), pth root (tid (snd e))).

  Definition ent_rel (root : T) (ge : gentry) (me : entry) : Prop :=
    fst ge = N.of_nat (fst me) /\ sub root (snd me) = Some (snd ge).

  (* the loop of [_euler_tour] over the children (a local [fix] in the generated text) *)
  Fixpoint gloop (t : T) (level : N) (it : list T) (tour : list gentry) : G.flow (list gentry) (list gentry) :=
    match it with
    | [] => G.Next tour
    | child :: it' =>
        match G.gen__euler_tour child (N.add level 1%N) with
        | G.Err e => G.Fail e
        | G.Ok l => gloop t level it' ((tour ++ l) ++ [(level, t)])
        end
    end.

  Lemma gen_tour_unfold t level :
    G.gen__euler_tour t level =
      if G.TreeNode_is_leaf t then G.Ok [(level, t)]
      else match gloop t level (kids t) [(level, t)] with
           | G.Next tour => G.Ok tour
           | G.Ret r => G.Ok r
           | G.Fail e => G.Err e
           end.
  Proof.
    destruct t as [i cs]. cbn [G.gen__euler_tour]. destruct (G.TreeNode_is_leaf (G.TreeNode_node i cs)); [reflexivity|].
    match goal with |- match ?a with _ => _ end = match ?b with _ => _ end => assert (a = b) as -> end; [|reflexivity].
    cbn [G.TreeNode_children]. remember (G.TreeNode_node i cs) as t eqn:Et. clear Et.
    generalize [(level, t)] at 2 3.
    induction cs as [|c cs' IH]; intros acc; [reflexivity|].
    cbn [gloop]. destruct (G.gen__euler_tour c (N.add level 1%N)) as [l|e]; [|reflexivity]. apply IH.
  Qed.

  Definition tour_ok (t : T) : Prop :=
    forall root p level, sub root p = Some t ->
    exists l, G.gen__euler_tour t level = G.Ok l /\ Forall2 (ent_rel root) l (tour (N.to_nat level) p (shape t)).

  Lemma gloop_ok root p t level : sub root p = Some t ->
    forall cs pre, kids t = pre ++ cs -> Forall tour_ok cs ->
    forall acc macc, Forall2 (ent_rel root) acc macc ->
    exists l, gloop t level cs acc = G.Next l /\
              Forall2 (ent_rel root) l (macc ++ tblocks (N.to_nat level) p (length pre) (map shape cs)).
  Proof.
    intros Ht. induction cs as [|c cs IH]; intros pre Hk Hcs acc macc Hacc.
    - exists acc. split; [reflexivity|]. simpl. now rewrite app_nil_r.
    - inversion Hcs as [|? ? Hc Hcs']; subst.
      assert (sub root (p ++ [length pre]) = Some c) as Hsub.
      { rewrite sub_app, Ht. simpl. rewrite Hk, nth_error_app2 by lia. now rewrite Nat.sub_diag. }
      destruct (Hc root (p ++ [length pre]) (N.add level 1%N) Hsub) as [l [El Rl]].
      cbn [gloop]. rewrite El.
      replace (N.to_nat (N.add level 1)) with (S (N.to_nat level)) in Rl by lia.
      destruct (IH (pre ++ [c]) ltac:(rewrite Hk, <- app_assoc; reflexivity) Hcs'
                  ((acc ++ l) ++ [(level, t)])
                  ((macc ++ tour (S (N.to_nat level)) (p ++ [length pre]) (shape c)) ++ [(N.to_nat level, p)]))
        as [l' [El' Rl']].
      { apply Forall2_app; [apply Forall2_app; assumption|]. constructor; [|constructor].
        split; simpl; [lia|exact Ht]. }
      exists l'. split; [exact El'|].
      rewrite app_length in Rl'. simpl in Rl'. rewrite Nat.add_1_r in Rl'.
      cbn [map tblocks]. rewrite <- !app_assoc in Rl'. exact Rl'.
  Qed.

  Lemma tour_ok_all : forall t, tour_ok t.
  Proof.
    induction t as [i cs IH] using tree_ind'. intros root p level Ht.
    change (shape (G.TreeNode_node i cs)) with (Node (map shape cs)).
    rewrite gen_tour_unfold, tour_eq.
    destruct (gloop_ok root p _ level Ht cs [] eq_refl IH [(level, G.TreeNode_node i cs)] [(N.to_nat level, p)])
      as [l [El Rl]].
    { constructor; [|constructor]. split; simpl; [lia|exact Ht]. }
    unfold G.TreeNode_is_leaf. cbn [G.TreeNode_children shape] in *. destruct cs as [|c cs].
    - eexists. split; [reflexivity|]. constructor; [|constructor]. split; simpl; [lia|exact Ht].
    - rewrite El. exists l. split; [reflexivity|exact Rl].
  Qed.

  Lemma ent_rel_enc root ge me : distinct_ids root -> ent_rel root ge me -> enc root ge = me.
  Proof.
    intros D [H1 H2]. destruct me as [lv q]. simpl in *. unfold enc. rewrite H1, (pth_sub root q _ D H2).
    f_equal. lia.
  Qed.

  Lemma Forall2_enc root l m : distinct_ids root -> Forall2 (ent_rel root) l m -> map (enc root) l = m.
  Proof. intros D. induction 1 as [|ge me l m H _ IH]; simpl; [reflexivity|]. now rewrite (ent_rel_enc root ge me D H), IH. Qed.

  (* every entry of the generated tour carries a node of the tree *)
  Lemma Forall2_member root l m : distinct_ids root -> Forall2 (ent_rel root) l m ->
    Forall (fun ge => exists q, find_path (tid (snd ge)) root = Some q) l.
  Proof.
    intros D. induction 1 as [|ge me l m [_ H] _ IH]; constructor; [|exact IH].
    exists (snd me). exact (find_path_sub root _ _ D H).
  Qed.

  Theorem gen_euler_tour_eq (root : T) : NoDup (ids root) ->
    exists l, G.gen__euler_tour root 0%N = G.Ok l /\ map (enc root) l = tour 0 [] (shape root).
  Proof.
    intros Hd. destruct (tour_ok_all root root [] 0%N eq_refl) as [l [El Rl]].
    exists l. split; [exact El|]. exact (Forall2_enc root _ _ (NoDup_distinct_ids root Hd) Rl).
  Qed.

  (* the same for the tour of any subtree, at any level (the recursive calls) *)
  Theorem gen_euler_tour_sub_eq (root t : T) (p : path) (level : N) : NoDup (ids root) -> sub root p = Some t ->
    exists l, G.gen__euler_tour t level = G.Ok l /\ map (enc root) l = tour (N.to_nat level) p (shape t).
  Proof.
    intros Hd Ht. destruct (tour_ok_all t root p level Ht) as [l [El Rl]].
    exists l. split; [exact El|]. exact (Forall2_enc root _ _ (NoDup_distinct_ids root Hd) Rl).
  Qed.

  (* ---------------------------------------------------------------- *)
  (** * The order of Python on the tuples [(level, node)] and the model's order on levels *)

  Notation eltb := (G.entry_ltb node_id_eqb node_ltb).
  Notation leb1 := (leb_of eltb).

  Lemma fst_enc root e : fst (enc root e) = N.to_nat (fst e).
  Proof. reflexivity. Qed.

  (* [min] on generated entries and on the model's entries: the same choice whenever the levels differ;
     for equal levels the choice does not matter if the two entries are the same model entry *)
  Lemma pymin_enc root a b : (fst a = fst b -> enc root a = enc root b) ->
    enc root (pymin leb1 a b) = pymin entry_leb (enc root a) (enc root b).
  Proof.
    intros H. unfold pymin.
    assert (leb1 a b = entry_leb (enc root a) (enc root b) \/ enc root a = enc root b) as [E|E].
    { unfold leb_of, G.entry_ltb, entry_leb. rewrite !fst_enc.
      destruct (N.eqb_spec (fst b) (fst a)) as [E|E]; [right; apply H; congruence|left].
      destruct (N.ltb_spec (fst b) (fst a)); cbn [negb];
        destruct (Nat.leb_spec (N.to_nat (fst a)) (N.to_nat (fst b))); (reflexivity || lia). }
    - rewrite E. destruct (entry_leb _ _); reflexivity.
    - destruct (leb1 a b), (entry_leb (enc root a) (enc root b)); congruence.
  Qed.

  Lemma nth_error_eq_ext {X} : forall l1 l2 : list X, (forall i, nth_error l1 i = nth_error l2 i) -> l1 = l2.
  Proof.
    induction l1 as [|x l1 IH]; intros [|y l2] H; [reflexivity|discriminate (H 0)|discriminate (H 0)|].
    injection (H 0) as ->. f_equal. apply IH. intros i. exact (H (S i)).
  Qed.

  (* [query] on a well-formed table, for any comparison function (no order property is needed) *)
  Lemma query_rows {X} (leb : X -> X -> bool) (data : list X) (x0 : X) (t : table) i j :
    length t = Nat.log2 (length data) + 1 ->
    (forall d row, nth_error t d = Some row -> row_ok leb data x0 d row) ->
    i < j <= length data ->
    query leb t i j = QVal (pymin leb (tbl leb data x0 (Nat.log2 (j - i)) i)
                                      (tbl leb data x0 (Nat.log2 (j - i)) (j - 2 ^ Nat.log2 (j - i)))).
  Proof.
    intros Lt Ht Hij. unfold query, ilog2. destruct (Nat.leb_spec j i); [lia|].
    remember (Nat.log2 (j - i)) as d eqn:Ed.
    assert (2 ^ d <= j - i < 2 ^ S d) as [P1 P2] by (subst d; apply Nat.log2_spec; lia).
    assert (d <= Nat.log2 (length data)) as Hd by (subst d; apply Nat.log2_le_mono; lia).
    destruct (nth_error t d) as [row|] eqn:Er.
    2:{ apply nth_error_None in Er. lia. }
    rewrite (get2_ok leb data x0 d row i (j - 2 ^ d) (Ht d row Er)) by lia. reflexivity.
  Qed.

  (* a cell of the (mathematical) sparse table is an element of the data, for any comparison function *)
  Lemma tbl_in {X} (leb : X -> X -> bool) (data : list X) (x0 : X) : forall d i,
    i + 2 ^ d <= length data -> In (tbl leb data x0 d i) data.
  Proof.
    induction d as [|d IH]; intros i Hi.
    - cbn [tbl]. unfold dat. apply nth_In. rewrite Nat.pow_0_r in Hi. lia.
    - pose proof (pow2_pos d). rewrite Nat.pow_succ_r' in Hi. cbn [tbl]. unfold pymin.
      destruct (leb _ _); apply IH; lia.
  Qed.

  (* when the nodes of two tuples are the same, or their levels differ, [<] on the tuples does not ask for an order
     on nodes: it answers the same whatever [node_ltb] is *)
  Lemma entry_ltb_indep (a b : gentry) : (fst a = fst b -> tid (snd a) = tid (snd b)) ->
    forall f f', G.entry_ltb node_id_eqb f b a = G.entry_ltb node_id_eqb f' b a.
  Proof.
    intros H f f'. unfold G.entry_ltb. destruct (N.eqb_spec (fst b) (fst a)) as [E|E]; [|reflexivity].
    rewrite (H (eq_sym E)), eqb_refl. reflexivity.
  Qed.

  (* ---------------------------------------------------------------- *)
  (** * An object built by __init__ *)

  Section Built.
    Variable root : T.
    Variable L : lca.
    Hypothesis HD : distinct_ids root.
    Hypothesis HL : make (shape root) = Some L.

    Notation enc' := (enc root).
    Notation pth' := (fun n : T => pth root (tid n)).

    Variable gl : list gentry.                       (* the generated tour *)
    Hypothesis Hgl : map enc' gl = traversal L.
    Hypothesis Hmem : Forall (fun ge => exists q, find_path (tid (snd ge)) root = Some q) gl.

    Let n := length gl.

    Lemma len_trav : length (traversal L) = n.
    Proof. rewrite <- Hgl. apply map_length. Qed.

    Lemma trav_tour : traversal L = tour 0 [] (shape root).
    Proof. destruct (make_inv _ _ HL) as [-> _]. symmetry. apply tour_root. Qed.

    Lemma build_model : build entry_leb (traversal L) = Some (rmq L).
    Proof. destruct (make_inv _ _ HL) as [-> H]. exact H. Qed.

    (* two minima (for the order on levels) of two blocks that cover a range and have the same level are the same entry *)
    Lemma minima_same m0 a b lo mid1 mid2 hi :
      min_f entry_leb (traversal L) m0 a lo mid1 -> min_f entry_leb (traversal L) m0 b mid2 hi ->
      lo <= mid2 -> mid2 <= mid1 -> mid1 <= hi -> hi <= n -> fst a = fst b -> a = b.
    Proof.
      intros [[k1 [K1 E1]] M1] [[k2 [K2 E2]] M2] H1 H2 H3 H4 E.
      pose proof len_trav as Ln.
      assert (forall k, k < n -> nth_error (traversal L) k = Some (dat (traversal L) m0 k)) as Hnth.
      { intros k Hk. unfold dat. apply nth_error_nth'. lia. }
      apply (tuple_min_never_compares_nodes (shape root) L HL lo (hi - 1) k1 k2 a b); try lia.
      - rewrite E1. apply Hnth. lia.
      - rewrite E2. apply Hnth. lia.
      - intros k e Hk He. rewrite (Hnth k ltac:(lia)) in He. injection He as <-.
        destruct (Nat.lt_ge_cases k mid1) as [Hlt|Hge].
        + specialize (M1 k ltac:(lia)). unfold entry_leb in M1. now apply Nat.leb_le in M1.
        + specialize (M2 k ltac:(lia)). unfold entry_leb in M2. apply Nat.leb_le in M2. lia.
    Qed.

    Variable g0 : gentry.

    (* the mathematical sparse tables of the generated tour and of the model's tour *)
    Lemma tbl_agree : forall d i, i + 2 ^ d <= n ->
      enc' (tbl leb1 gl g0 d i) = tbl entry_leb (traversal L) (enc' g0) d i.
    Proof.
      induction d as [|d IH]; intros i Hi.
      - cbn [tbl]. unfold dat. rewrite <- Hgl. symmetry. apply map_nth.
      - pose proof (pow2_pos d) as Hp. rewrite Nat.pow_succ_r' in Hi. cbn [tbl].
        rewrite pymin_enc; rewrite !IH by lia; [reflexivity|].
        intros E.
        apply (minima_same (enc' g0) _ _ i (i + 2 ^ d) (i + 2 ^ d) (i + 2 ^ d + 2 ^ d)); try lia.
        + apply (tbl_correct entry_leb entry_leb_trans entry_leb_total).
        + apply (tbl_correct entry_leb entry_leb_trans entry_leb_total).
        + rewrite <- !IH by lia. rewrite !fst_enc. now rewrite E.
    Qed.

    Hypothesis Hne : gl <> [].
    Variable gt : table (A := gentry).
    Hypothesis Hgt : build leb1 gl = Some gt.

    Lemma gt_rows : length gt = Nat.log2 n + 1 /\ forall d row, nth_error gt d = Some row -> row_ok leb1 gl g0 d row.
    Proof. destruct (build_ok leb1 gl g0 Hne) as [t [Ht H]]. assert (t = gt) by congruence. subst t. exact H. Qed.

    Lemma mt_rows : length (rmq L) = Nat.log2 n + 1 /\
      forall d row, nth_error (rmq L) d = Some row -> row_ok entry_leb (traversal L) (enc' g0) d row.
    Proof.
      assert (traversal L <> []) as Hne'. { rewrite <- Hgl. destruct gl; [congruence|discriminate]. }
      destruct (build_ok entry_leb (traversal L) (enc' g0) Hne') as [t [Ht H]].
      rewrite build_model in Ht. injection Ht as <-. rewrite len_trav in H. exact H.
    Qed.

    (* the generated sparse table is the model's *)
    Lemma table_agree : map (map (option_map enc')) gt = rmq L.
    Proof.
      destruct gt_rows as [Lg Rg]. destruct mt_rows as [Lm Rm]. pose proof len_trav as Ln.
      apply nth_error_eq_ext. intros d. rewrite nth_error_map'.
      destruct (nth_error gt d) as [grow|] eqn:Eg.
      2:{ apply nth_error_None in Eg. symmetry. apply nth_error_None. lia. }
      destruct (nth_error (rmq L) d) as [mrow|] eqn:Em.
      2:{ apply nth_error_None in Em. assert (d < length gt) by (apply nth_error_Some; congruence). lia. }
      cbn [option_map]. f_equal.
      destruct (Rg d grow Eg) as [G1 G2]. destruct (Rm d mrow Em) as [M1 M2]. fold n in G1, G2. rewrite Ln in M1, M2.
      apply nth_error_eq_ext. intros i. rewrite nth_error_map'.
      destruct (Nat.lt_ge_cases i n) as [Hi|Hi].
      - rewrite (G2 i Hi), (M2 i Hi). cbn [option_map].
        destruct (Nat.leb_spec (i + 2 ^ d) n); [|reflexivity]. cbn [option_map]. now rewrite tbl_agree.
      - rewrite (proj2 (nth_error_None grow i)) by lia. rewrite (proj2 (nth_error_None mrow i)) by lia. reflexivity.
    Qed.

    (* a query on a range of the tour: the same answer on both sides *)
    Lemma query_agree s e : s <= e -> e < n ->
      exists m, query leb1 gt s (e + 1) = QVal m /\ query entry_leb (rmq L) s (e + 1) = QVal (enc' m).
    Proof.
      intros Hse He. destruct gt_rows as [Lg Rg]. destruct mt_rows as [Lm Rm]. pose proof len_trav as Ln.
      eexists. split; [apply (query_rows leb1 gl g0 gt s (e + 1) Lg Rg); fold n; lia|].
      rewrite (query_rows entry_leb (traversal L) (enc' g0) (rmq L) s (e + 1)) by (rewrite ?Ln; auto; lia).
      f_equal. remember (Nat.log2 (e + 1 - s)) as d eqn:Ed.
      assert (2 ^ d <= e + 1 - s < 2 ^ S d) as [P1 P2] by (subst d; apply Nat.log2_spec; lia).
      rewrite Nat.pow_succ_r' in P2.
      rewrite pymin_enc; rewrite !tbl_agree by lia; [reflexivity|].
      intros E.
      apply (minima_same (enc' g0) _ _ s (s + 2 ^ d) (e + 1 - 2 ^ d) (e + 1)); try lia.
      + apply (tbl_correct entry_leb entry_leb_trans entry_leb_total).
      + pose proof (tbl_correct entry_leb entry_leb_trans entry_leb_total (traversal L) (enc' g0) d (e + 1 - 2 ^ d)) as H.
        replace (e + 1 - 2 ^ d + 2 ^ d) with (e + 1) in H by lia. exact H.
      + rewrite <- !tbl_agree by lia. rewrite !fst_enc. now rewrite E.
    Qed.

    (** ** [min] never has to order two distinct nodes *)

    Lemma same_entry_same_node a b : In a gl -> enc' a = enc' b -> tid (snd a) = tid (snd b).
    Proof.
      intros Ia E. rewrite Forall_forall in Hmem. destruct (Hmem a Ia) as [q Hq].
      symmetry. apply (pth_member_inj root _ _ q Hq).
      assert (pth root (tid (snd a)) = q) as <- by (unfold pth; now rewrite Hq).
      symmetry. exact (f_equal snd E).
    Qed.

    (* while the table is built: [min(table[d][i], table[d][i + 2^d])] *)
    Theorem build_min_args d i : i + 2 ^ S d <= n ->
      let a := tbl leb1 gl g0 d i in let b := tbl leb1 gl g0 d (i + 2 ^ d) in
      fst a = fst b -> tid (snd a) = tid (snd b).
    Proof.
      intros Hi a b E. pose proof (pow2_pos d) as Hp. rewrite Nat.pow_succ_r' in Hi.
      apply same_entry_same_node; [apply tbl_in; fold n; lia|]. subst a b. rewrite !tbl_agree by lia.
      apply (minima_same (enc' g0) _ _ i (i + 2 ^ d) (i + 2 ^ d) (i + 2 ^ d + 2 ^ d)); try lia.
      + apply (tbl_correct entry_leb entry_leb_trans entry_leb_total).
      + apply (tbl_correct entry_leb entry_leb_trans entry_leb_total).
      + rewrite <- !tbl_agree by lia. rewrite !fst_enc. now rewrite E.
    Qed.

    (* in a query on the range [s, e + 1): [min(table[d][s], table[d][e + 1 - 2^d])] *)
    Theorem query_min_args s e : s <= e -> e < n ->
      let d := Nat.log2 (e + 1 - s) in
      let a := tbl leb1 gl g0 d s in let b := tbl leb1 gl g0 d (e + 1 - 2 ^ d) in
      fst a = fst b -> tid (snd a) = tid (snd b).
    Proof.
      intros Hse He d a b E.
      assert (2 ^ d <= e + 1 - s < 2 ^ S d) as [P1 P2] by (subst d; apply Nat.log2_spec; lia).
      rewrite Nat.pow_succ_r' in P2.
      apply same_entry_same_node; [apply tbl_in; fold n; lia|]. subst a b. rewrite !tbl_agree by lia.
      apply (minima_same (enc' g0) _ _ s (s + 2 ^ d) (e + 1 - 2 ^ d) (e + 1)); try lia.
      + apply (tbl_correct entry_leb entry_leb_trans entry_leb_total).
      + pose proof (tbl_correct entry_leb entry_leb_trans entry_leb_total (traversal L) (enc' g0) d (e + 1 - 2 ^ d)) as H.
        replace (e + 1 - 2 ^ d + 2 ^ d) with (e + 1) in H by lia. exact H.
      + rewrite <- !tbl_agree by lia. rewrite !fst_enc. now rewrite E.
    Qed.

    (** ** traversal_index *)

    (* first position (counted from [k]) of an entry whose node carries the identifier [i] *)
    Fixpoint gfirst (i : node_id) (l : list gentry) (k : nat) : option nat :=
      match l with
      | [] => None
      | e :: l' => if node_id_eqb (tid (snd e)) i then Some k else gfirst i l' (S k)
      end.

    Lemma eqb_pth j i q : find_path j root = Some q -> node_id_eqb j i = path_eqb (pth root j) (pth root i).
    Proof.
      intros Hj. destruct (path_eqb_spec (pth root j) (pth root i)) as [E|E].
      - assert (pth root j = q) as Hq by (unfold pth; now rewrite Hj).
        rewrite (pth_member_inj root i j q Hj) by congruence. apply eqb_refl.
      - apply eqb_neq. intros ->. contradiction.
    Qed.

    Lemma gfirst_first_index i : forall l k,
      Forall (fun ge => exists q, find_path (tid (snd ge)) root = Some q) l ->
      gfirst i l k = first_index (pth root i) (map enc' l) k.
    Proof.
      induction l as [|e l IH]; intros k Hm; [reflexivity|]. inversion Hm as [|? ? [q Hq] Hm']; subst.
      cbn [gfirst map first_index]. change (snd (enc' e)) with (pth root (tid (snd e))).
      rewrite (eqb_pth _ i q Hq). destruct (path_eqb _ _); [reflexivity|]. apply IH. exact Hm'.
    Qed.

    Notation dget := (G.dict_get node_id_eqb).

    Lemma init_loop : forall (it : list gentry) (idx : N) (d : list (node_id * N)),
      exists d', G.gen_lca_init_for1 node_id_eqb it idx d = G.Next d' /\
        forall i, dget d' i = match dget d i with
                              | Some v => Some v
                              | None => option_map N.of_nat (gfirst i it (N.to_nat idx))
                              end.
    Proof.
      induction it as [|[lv node] it IH]; intros idx d.
      - exists d. split; [reflexivity|]. intros i. cbn [gfirst option_map]. destruct (dget d i); reflexivity.
      - cbn [G.gen_lca_init_for1]. unfold G.dict_mem.
        destruct (dget d (tid node)) as [v|] eqn:Ed; cbn [negb].
        + destruct (IH (N.succ idx) d) as [d' [E H]]. exists d'. split; [exact E|].
          intros i. rewrite (H i). destruct (dget d i) eqn:Ei; [reflexivity|].
          cbn [gfirst snd]. rewrite N2Nat.inj_succ.
          destruct (node_id_eqb (tid node) i) eqn:En; [|reflexivity].
          apply node_id_eqb_spec in En. subst i. congruence.
        + destruct (IH (N.succ idx) ((tid node, idx) :: d)) as [d' [E H]]. exists d'. split; [exact E|].
          intros i. rewrite (H i). cbn [G.dict_get gfirst snd]. rewrite N2Nat.inj_succ.
          destruct (node_id_eqb i (tid node)) eqn:En.
          * apply node_id_eqb_spec in En. subst i. rewrite Ed, eqb_refl. cbn [option_map]. now rewrite N2Nat.id.
          * rewrite (eqb_neq (tid node) i); [reflexivity|].
            intros <-. rewrite eqb_refl in En. discriminate.
    Qed.

    Variable gd : list (node_id * N).
    Hypothesis Hgd : forall i, dget gd i = option_map N.of_nat (index L (pth root i)).

    (* an identifier that [traversal_index] knows occurs in the tree *)
    Lemma index_member i k : index L (pth root i) = Some k -> exists q, find_path i root = Some q.
    Proof.
      unfold index. intros H. apply first_index_some in H as [lv [_ H]]. rewrite Nat.sub_0_r, <- Hgl in H.
      rewrite nth_error_map' in H. destruct (nth_error gl k) as [ge|] eqn:Eg; [|discriminate].
      cbn [option_map] in H. injection H as _ Hp.
      rewrite Forall_forall in Hmem. destruct (Hmem ge (nth_error_In _ _ Eg)) as [q Hq].
      exists q. rewrite (pth_member_inj root i _ q Hq); [exact Hq|].
      rewrite <- Hp. unfold pth. now rewrite Hq.
    Qed.

    Lemma index_lt p k : index L p = Some k -> k < n.
    Proof.
      unfold index. intros H. apply first_index_some in H as [lv [_ H]]. rewrite Nat.sub_0_r in H.
      rewrite <- len_trav. apply nth_error_Some. congruence.
    Qed.

    (** ** __call__ *)

    Lemma call_loop : forall (nodes : list T) (s e : N),
      match G.gen_lca_call_for1 node_id_eqb gd nodes s e with
      | G.Next (s', e') => span L (N.to_nat s) (N.to_nat e) (map pth' nodes) = Some (N.to_nat s', N.to_nat e')
      | G.Fail err => err = G.KeyError /\ span L (N.to_nat s) (N.to_nat e) (map pth' nodes) = None
      | G.Ret _ => False
      end.
    Proof.
      induction nodes as [|nd nodes IH]; intros s e; [reflexivity|].
      cbn [G.gen_lca_call_for1 map span]. rewrite Hgd.
      destruct (index L (pth root (tid nd))) as [k|]; cbn [option_map]; [|split; reflexivity].
      specialize (IH (N.min s (N.of_nat k)) (N.max e (N.of_nat k))).
      rewrite N2Nat.inj_min, N2Nat.inj_max, Nat2N.id in IH. exact IH.
    Qed.

    Lemma span_range : forall ps s e s' e', span L s e ps = Some (s', e') -> s <= e -> e < n -> s' <= e' /\ e' < n.
    Proof.
      induction ps as [|p ps IH]; intros s e s' e'; cbn [span].
      - intros H. injection H as <- <-. auto.
      - destruct (index L p) as [k|] eqn:Ek; [|discriminate]. intros H Hse He.
        apply index_lt in Ek. apply (IH _ _ _ _ H); lia.
    Qed.

    Lemma span_members : forall nodes s e r, span L s e (map pth' nodes) = Some r ->
      Forall (fun nd => exists q, find_path (tid nd) root = Some q) nodes.
    Proof.
      induction nodes as [|nd nodes IH]; intros s e r; cbn [map span]; [constructor|].
      destruct (index L (pth root (tid nd))) as [k|] eqn:Ek; [|discriminate]. intros H.
      constructor; [exact (index_member _ _ Ek)|exact (IH _ _ _ H)].
    Qed.

    Notation gs := (G.mk_lca root gl (R.mk_rmq gt) gd).

    (* the answer of a method as the model sees it: [None] for an exception *)
    Definition res_val {X Y : Type} (f : X -> Y) (r : G.res (G.lca_state node_id * X)) : option Y :=
      match r with G.Ok (_, x) => Some (f x) | G.Err _ => None end.

    Definition unchanged {X : Type} (st : G.lca_state node_id) (r : G.res (G.lca_state node_id * X)) : Prop :=
      forall st' x, r = G.Ok (st', x) -> st' = st.

    Lemma call_built (nodes : list T) :
      res_val pth' (G.gen_lca_call node_id_eqb node_ltb gs nodes) = lca_query L (map pth' nodes) /\
      unchanged gs (G.gen_lca_call node_id_eqb node_ltb gs nodes) /\
      (forall err, G.gen_lca_call node_id_eqb node_ltb gs nodes = G.Err err ->
                   (nodes = [] /\ err = G.TypeError) \/ (nodes <> [] /\ err = G.KeyError)).
    Proof.
      unfold unchanged. destruct nodes as [|n0 rest].
      { split; [reflexivity|]. split; [discriminate|]. intros err H. left. split; [reflexivity|]. now injection H as <-. }
      unfold G.gen_lca_call. cbv zeta beta. cbn [G.is_empty negb map lca_query].
      change (N.to_nat 0%N) with 0. change (N.to_nat 1%N) with 1. cbn [nth_error skipn].
      rewrite Hgd. destruct (index L (pth root (tid n0))) as [k0|] eqn:Ek0; cbn [option_map].
      2:{ split; [reflexivity|]. split; [discriminate|]. intros err H. right. split; [discriminate|]. now injection H as <-. }
      pose proof (call_loop rest (N.of_nat k0) (N.of_nat k0)) as Hloop. rewrite Nat2N.id in Hloop.
      destruct (G.gen_lca_call_for1 node_id_eqb gd rest (N.of_nat k0) (N.of_nat k0)) as [[s' e']|r|err].
      2:{ contradiction. }
      2:{ destruct Hloop as [-> Hloop]. rewrite Hloop. split; [reflexivity|]. split; [discriminate|].
          intros err' H. right. split; [discriminate|]. now injection H as <-. }
      rewrite Hloop.
      destruct (span_range _ _ _ _ _ Hloop (le_n _) (index_lt _ _ Ek0)) as [Hse He].
      destruct (query_agree _ _ Hse He) as [m [Q1 Q2]].
      destruct (gen_rmq_query_eq eltb gt s' (N.add e' 1%N)) as [Q S].
      replace (N.to_nat (N.add e' 1)) with (N.to_nat e' + 1) in Q by lia. rewrite Q1 in Q. rewrite Q2.
      destruct (R.gen_rmq_query eltb (R.mk_rmq gt) s' (N.add e' 1%N)) as [[st [a|]]|err]; cbn in Q; try discriminate.
      injection Q as ->. cbn [G.rmq_res]. split; [reflexivity|]. split; [|discriminate].
      intros st' x H. injection H as <- _. reflexivity.
    Qed.

    Lemma call_members (nodes : list T) st r : G.gen_lca_call node_id_eqb node_ltb gs nodes = G.Ok (st, r) ->
      Forall (fun nd => exists q, find_path (tid nd) root = Some q) nodes.
    Proof.
      intros H. destruct (call_built nodes) as [E _]. rewrite H in E. cbn [res_val] in E.
      destruct nodes as [|n0 rest]; [constructor|]. cbn [map lca_query] in E.
      destruct (index L (pth root (tid n0))) as [k0|] eqn:Ek0; [|discriminate].
      constructor; [exact (index_member _ _ Ek0)|].
      destruct (span L k0 k0 (map pth' rest)) as [r'|] eqn:Es; [|discriminate]. exact (span_members _ _ _ _ Es).
    Qed.

    (** ** is_ancestor_of, is_strict_ancestor_of, is_comparable *)

    Lemma eqb_sym i j : node_id_eqb i j = node_id_eqb j i.
    Proof.
      destruct (node_id_eqb j i) eqn:E.
      - apply node_id_eqb_spec in E. subst. apply eqb_refl.
      - apply eqb_neq. intros ->. rewrite eqb_refl in E. discriminate.
    Qed.

    Lemma path_eqb_sym a b : path_eqb a b = path_eqb b a.
    Proof. destruct (path_eqb_spec a b), (path_eqb_spec b a); congruence. Qed.

    Lemma is_ancestor_built (a b : T) :
      res_val (fun x : bool => x) (G.gen_lca_is_ancestor_of node_id_eqb node_ltb gs a b) = is_ancestor_of L (pth' a) (pth' b) /\
      unchanged gs (G.gen_lca_is_ancestor_of node_id_eqb node_ltb gs a b).
    Proof.
      unfold unchanged, G.gen_lca_is_ancestor_of, is_ancestor_of. cbv zeta beta.
      destruct (call_built [a; b]) as [E _]. cbn [map] in E. rewrite <- E.
      destruct (G.gen_lca_call node_id_eqb node_ltb gs [a; b]) as [[st r]|err] eqn:Ec; cbn [res_val option_map];
        [|split; [reflexivity|discriminate]].
      apply call_members in Ec. inversion Ec as [|? ? [q Hq] _]; subst.
      split; [|intros st' x H; injection H as <- _; reflexivity].
      f_equal. rewrite eqb_sym, path_eqb_sym. exact (eqb_pth _ _ q Hq).
    Qed.

    Lemma is_strict_ancestor_built (a b : T) :
      res_val (fun x : bool => x) (G.gen_lca_is_strict_ancestor_of node_id_eqb node_ltb gs a b)
        = is_strict_ancestor_of L (pth' a) (pth' b) /\
      unchanged gs (G.gen_lca_is_strict_ancestor_of node_id_eqb node_ltb gs a b).
    Proof.
      unfold unchanged, G.gen_lca_is_strict_ancestor_of, is_strict_ancestor_of. cbv zeta beta.
      destruct (call_built [a; b]) as [E _]. cbn [map] in E. rewrite <- E.
      destruct (G.gen_lca_call node_id_eqb node_ltb gs [a; b]) as [[st r]|err] eqn:Ec; cbn [res_val option_map];
        [|split; [reflexivity|discriminate]].
      apply call_members in Ec. inversion Ec as [|? ? [q Hq] _]; subst.
      split; [|intros st' x H; injection H as <- _; reflexivity].
      f_equal. rewrite (eqb_sym (tid r)), (path_eqb_sym (pth root (tid r))).
      now rewrite (eqb_pth _ (tid r) q Hq), (eqb_pth _ (tid b) q Hq).
    Qed.

    Lemma is_comparable_built (a b : T) :
      res_val (fun x : bool => x) (G.gen_lca_is_comparable node_id_eqb node_ltb gs a b) = is_comparable L (pth' a) (pth' b) /\
      unchanged gs (G.gen_lca_is_comparable node_id_eqb node_ltb gs a b).
    Proof.
      unfold unchanged, G.gen_lca_is_comparable, is_comparable. cbv zeta beta.
      destruct (is_ancestor_built a b) as [E1 _]. destruct (is_ancestor_built b a) as [E2 _].
      rewrite <- E1, <- E2.
      destruct (G.gen_lca_is_ancestor_of node_id_eqb node_ltb gs a b) as [[st [|]]|err]; cbn [res_val];
        try (split; [reflexivity|try discriminate; intros st' x H; injection H as <- _; reflexivity]).
      destruct (G.gen_lca_is_ancestor_of node_id_eqb node_ltb gs b a) as [[st2 r2]|err]; cbn [res_val];
        (split; [reflexivity|try discriminate; intros st' x H; injection H as <- _; reflexivity]).
    Qed.

    (** ** level, distance *)

    Lemma level_built (a : T) :
      res_val N.to_nat (G.gen_lca_level node_id_eqb gs a) = level L (pth' a) /\
      unchanged gs (G.gen_lca_level node_id_eqb gs a).
    Proof.
      unfold unchanged, G.gen_lca_level, level. cbv zeta beta. rewrite Hgd.
      destruct (index L (pth root (tid a))) as [k|]; cbn [option_map]; [|split; [reflexivity|discriminate]].
      rewrite Nat2N.id, <- Hgl, nth_error_map'.
      destruct (nth_error gl k) as [ge|]; cbn [option_map res_val]; [|split; [reflexivity|discriminate]].
      split; [reflexivity|]. intros st' x H. injection H as <- _. reflexivity.
    Qed.

    Lemma distance_built (a b : T) :
      res_val (fun z : Z => z) (G.gen_lca_distance node_id_eqb node_ltb gs a b) = distance L (pth' a) (pth' b) /\
      unchanged gs (G.gen_lca_distance node_id_eqb node_ltb gs a b).
    Proof.
      unfold unchanged, G.gen_lca_distance, distance. cbv zeta beta.
      destruct (level_built a) as [Ea _]. destruct (level_built b) as [Eb _].
      destruct (call_built [a; b]) as [Ec _]. cbn [map] in Ec. rewrite <- Ea, <- Eb, <- Ec.
      destruct (G.gen_lca_level node_id_eqb gs a) as [[st1 la]|err]; cbn [res_val]; [|split; [reflexivity|discriminate]].
      destruct (G.gen_lca_level node_id_eqb gs b) as [[st2 lb]|err]; cbn [res_val]; [|split; [reflexivity|discriminate]].
      destruct (G.gen_lca_call node_id_eqb node_ltb gs [a; b]) as [[st3 c]|err]; cbn [res_val];
        [|split; [reflexivity|discriminate]].
      destruct (level_built c) as [El _]. rewrite <- El.
      destruct (G.gen_lca_level node_id_eqb gs c) as [[st4 lc]|err]; cbn [res_val]; [|split; [reflexivity|discriminate]].
      split; [f_equal; lia|]. intros st' x H. injection H as <- _. reflexivity.
    Qed.
  End Built.

  (* ---------------------------------------------------------------- *)
  (** * __init__ *)

  Notation member root := (fun ge : gentry => exists q, find_path (tid (snd ge)) root = Some q).

  Lemma init_built (root : T) (L : lca) : NoDup (ids root) -> make (shape root) = Some L ->
    exists gl gt gd,
      G.gen_lca_init node_id_eqb node_ltb root = G.Ok (G.mk_lca root gl (R.mk_rmq gt) gd) /\
      G.gen__euler_tour root 0%N = G.Ok gl /\
      map (enc root) gl = traversal L /\ Forall (member root) gl /\ gl <> [] /\ build leb1 gl = Some gt /\
      (forall i, G.dict_get node_id_eqb gd i = option_map N.of_nat (index L (pth root i))).
  Proof.
    intros Hnd HL. pose proof (NoDup_distinct_ids root Hnd) as D.
    destruct (tour_ok_all root root [] 0%N eq_refl) as [gl [El Rl]]. change (N.to_nat 0%N) with 0 in Rl.
    pose proof (Forall2_enc root _ _ D Rl) as Hmap. rewrite <- (trav_tour root L HL) in Hmap.
    pose proof (Forall2_member root _ _ D Rl) as Hmem.
    assert (gl <> []) as Hne.
    { intros ->. destruct (make_inv _ _ HL) as [E _]. rewrite <- Hmap in E. symmetry in E.
      apply map_eq_nil in E. exact (tourp_nonempty _ _ E). }
    destruct (build_defined leb1 gl Hne) as [gt Hgt].
    destruct (init_loop gl 0%N []) as [gd [Ed Hd]].
    exists gl, gt, gd. split; [|split; [exact El|repeat split; auto]].
    - unfold G.gen_lca_init. cbv zeta. rewrite El, (gen_rmq_init_eq eltb gl), Hgt. cbn [G.rmq_res]. now rewrite Ed.
    - intros i. rewrite (Hd i). cbn [G.dict_get]. change (N.to_nat 0%N) with 0.
      rewrite (gfirst_first_index root i gl 0 Hmem), Hmap. reflexivity.
  Qed.

  (* the generated object and the model's structure, through the conversion *)
  Definition state_rel (root : T) (gs : G.lca_state node_id) (L : lca) : Prop :=
    G.lca_tree gs = root /\
    map (enc root) (G.lca_traversal gs) = traversal L /\
    map (map (option_map (enc root))) (R.rmq_sparse_table (G.lca_range_min_query gs)) = rmq L /\
    forall i, G.dict_get node_id_eqb (G.lca_traversal_index gs) i = option_map N.of_nat (index L (pth root i)).

  Theorem gen_lca_init_eq (root : T) : NoDup (ids root) ->
    exists gs L, G.gen_lca_init node_id_eqb node_ltb root = G.Ok gs /\ make (shape root) = Some L /\
                 state_rel root gs L.
  Proof.
    intros Hnd. destruct (make_defined (shape root)) as [L HL].
    destruct (init_built root L Hnd HL) as [gl [gt [gd [E [Etour [Hmap [Hmem [Hne [Hgt Hgd]]]]]]]]].
    eexists _, L. split; [exact E|]. split; [exact HL|]. repeat split; cbn; auto.
    destruct gl as [|g0 gl']; [congruence|].
    exact (table_agree root L HL _ Hmap Hmem g0 Hne gt Hgt).
  Qed.

  (* Python's [min] on the tuples of the tour never has to order two distinct nodes (which would raise TypeError):
     neither while [RangeMinQuery.__init__] fills the table -- cell [i] of row [d + 1] is [min] of the cells [i] and
     [i + 2^d] of row [d], which [Proofs/RmqProofs.v] ([row_ok]) shows to be [tbl .. d i] and [tbl .. d (i + 2^d)] --
     nor in a query on a range [s, e + 1) of the tour.  Hence [entry_ltb], evaluated on these arguments, answers the
     same for every [node_ltb] ([entry_ltb_indep]). *)
  Theorem gen_lca_never_orders_nodes (root : T) (gl : list gentry) (g0 : gentry) : NoDup (ids root) ->
    G.gen__euler_tour root 0%N = G.Ok gl ->
    (forall d i, i + 2 ^ S d <= length gl ->
       let a := tbl leb1 gl g0 d i in let b := tbl leb1 gl g0 d (i + 2 ^ d) in
       forall f, G.entry_ltb node_id_eqb f b a = eltb b a) /\
    (forall s e, s <= e -> e < length gl ->
       let d := Nat.log2 (e + 1 - s) in
       let a := tbl leb1 gl g0 d s in let b := tbl leb1 gl g0 d (e + 1 - 2 ^ d) in
       forall f, G.entry_ltb node_id_eqb f b a = eltb b a).
  Proof.
    intros Hnd El. destruct (make_defined (shape root)) as [L HL].
    destruct (init_built root L Hnd HL) as [gl' [gt [gd [E [Etour [Hmap [Hmem [Hne [Hgt Hgd]]]]]]]]].
    assert (gl' = gl) as -> by congruence.
    split.
    - intros d i Hi a b f. apply entry_ltb_indep. exact (build_min_args root L HL gl Hmap Hmem g0 d i Hi).
    - intros s e Hse He d a b f. apply entry_ltb_indep. exact (query_min_args root L HL gl Hmap Hmem g0 s e Hse He).
  Qed.

  (* ---------------------------------------------------------------- *)
  (** * The methods, on an object built by __init__ *)

  Section Methods.
    Variable root : T.
    Variable gs : G.lca_state node_id.
    Variable L : lca.
    Hypothesis Hnd : NoDup (ids root).
    Hypothesis Hinit : G.gen_lca_init node_id_eqb node_ltb root = G.Ok gs.
    Hypothesis HL : make (shape root) = Some L.

    Notation pth' := (fun n : T => pth root (tid n)).

    Ltac built lem :=
      pose proof (NoDup_distinct_ids root Hnd) as D;
      destruct (init_built root L Hnd HL) as [gl [gt [gd [E [Etour [Hmap [Hmem [Hne [Hgt Hgd]]]]]]]]];
      rewrite Hinit in E; injection E as ->;
      destruct gl as [|g0 gl'] eqn:Egl; [congruence|]; rewrite <- Egl in *;
      intros; eapply lem; eassumption.

    (* [__call__], any number of arguments: TypeError without argument, KeyError on a node of another tree, else the model's answer *)
    Theorem gen_lca_call_eq (nodes : list T) :
      res_val pth' (G.gen_lca_call node_id_eqb node_ltb gs nodes) = lca_query L (map pth' nodes) /\
      unchanged gs (G.gen_lca_call node_id_eqb node_ltb gs nodes).
    Proof.
      assert (forall nodes : list T,
        res_val pth' (G.gen_lca_call node_id_eqb node_ltb gs nodes) = lca_query L (map pth' nodes) /\
        unchanged gs (G.gen_lca_call node_id_eqb node_ltb gs nodes) /\
        (forall err, G.gen_lca_call node_id_eqb node_ltb gs nodes = G.Err err ->
                     (nodes = [] /\ err = G.TypeError) \/ (nodes <> [] /\ err = G.KeyError))) as H by built call_built.
      destruct (H nodes) as [H1 [H2 _]]. split; assumption.
    Qed.

    (* the only exceptions of [__call__]: TypeError exactly when it is called without a node; otherwise KeyError (by
       [gen_lca_call_eq] and [Proofs/EulerProofs.v]: exactly when a node is not in the tree) -- never an IndexError,
       an AssertionError or an error of the range-minimum query *)
    Theorem gen_lca_call_errors (nodes : list T) (err : G.err) :
      G.gen_lca_call node_id_eqb node_ltb gs nodes = G.Err err ->
      (nodes = [] /\ err = G.TypeError) \/ (nodes <> [] /\ err = G.KeyError).
    Proof.
      assert (forall nodes : list T,
        res_val pth' (G.gen_lca_call node_id_eqb node_ltb gs nodes) = lca_query L (map pth' nodes) /\
        unchanged gs (G.gen_lca_call node_id_eqb node_ltb gs nodes) /\
        (forall err, G.gen_lca_call node_id_eqb node_ltb gs nodes = G.Err err ->
                     (nodes = [] /\ err = G.TypeError) \/ (nodes <> [] /\ err = G.KeyError))) as H by built call_built.
      destruct (H nodes) as [_ [_ H3]]. exact (H3 err).
    Qed.

    Theorem gen_is_ancestor_eq (a b : T) :
      res_val (fun x : bool => x) (G.gen_lca_is_ancestor_of node_id_eqb node_ltb gs a b)
        = is_ancestor_of L (pth' a) (pth' b) /\
      unchanged gs (G.gen_lca_is_ancestor_of node_id_eqb node_ltb gs a b).
    Proof. revert a b. built is_ancestor_built. Qed.

    Theorem gen_is_strict_ancestor_eq (a b : T) :
      res_val (fun x : bool => x) (G.gen_lca_is_strict_ancestor_of node_id_eqb node_ltb gs a b)
        = is_strict_ancestor_of L (pth' a) (pth' b) /\
      unchanged gs (G.gen_lca_is_strict_ancestor_of node_id_eqb node_ltb gs a b).
    Proof. revert a b. built is_strict_ancestor_built. Qed.

    Theorem gen_is_comparable_eq (a b : T) :
      res_val (fun x : bool => x) (G.gen_lca_is_comparable node_id_eqb node_ltb gs a b)
        = is_comparable L (pth' a) (pth' b) /\
      unchanged gs (G.gen_lca_is_comparable node_id_eqb node_ltb gs a b).
    Proof. revert a b. built is_comparable_built. Qed.

    Theorem gen_level_eq (a : T) :
      res_val N.to_nat (G.gen_lca_level node_id_eqb gs a) = level L (pth' a) /\
      unchanged gs (G.gen_lca_level node_id_eqb gs a).
    Proof. revert a. built level_built. Qed.

    Theorem gen_distance_eq (a b : T) :
      res_val (fun z : Z => z) (G.gen_lca_distance node_id_eqb node_ltb gs a b) = distance L (pth' a) (pth' b) /\
      unchanged gs (G.gen_lca_distance node_id_eqb node_ltb gs a b).
    Proof. revert a b. built distance_built. Qed.

    (* with [Proofs/EulerProofs.v]: on nodes of the tree the generated [__call__] returns the node at the longest
       common prefix of their root paths, i.e. their lowest common ancestor *)
    Corollary gen_lca_call_lcp (n0 : T) (p0 : path) (ns : list T) (ps : list path) :
      sub root p0 = Some n0 -> Forall2 (fun nd p => sub root p = Some nd) ns ps ->
      exists st r, G.gen_lca_call node_id_eqb node_ltb gs (n0 :: ns) = G.Ok (st, r) /\ st = gs /\
                   id_at root (lcp_list p0 ps) = Some (tid r).
    Proof.
      intros H0 Hns. pose proof (NoDup_distinct_ids root Hnd) as D.
      assert (map pth' ns = ps) as Hps.
      { induction Hns as [|nd p ns ps Hn _ IH]; [reflexivity|]. cbn [map]. now rewrite (pth_sub root p nd D Hn), IH. }
      assert (Forall (fun q => valid (shape root) q = true) ps) as Vps.
      { clear Hps. induction Hns as [|nd p ns ps Hn _ IH]; constructor; [apply valid_sub; eauto|exact IH]. }
      assert (valid (shape root) p0 = true) as V0 by (apply valid_sub; eauto).
      destruct (gen_lca_call_eq (n0 :: ns)) as [E U].
      cbn [map] in E. rewrite Hps, (pth_sub root p0 n0 D H0), (euler_lca (shape root) L HL p0 ps V0 Vps) in E.
      destruct (G.gen_lca_call node_id_eqb node_ltb gs (n0 :: ns)) as [[st r]|err]; [|discriminate].
      cbn [res_val] in E. injection E as E. exists st, r. split; [reflexivity|]. split; [exact (U st r eq_refl)|].
      rewrite <- E. apply id_at_pth. unfold pth in *. destruct (find_path (tid r) root) as [q|] eqn:Eq; [reflexivity|].
      exfalso. pose proof (lca_valid (shape root) p0 ps V0) as V.
      rewrite <- E in V. apply valid_sub in V as [m Hm]. rewrite sub_bad in Hm. discriminate.
    Qed.
  End Methods.
End LcaGen.

(* ------------------------------------------------------------------ *)
(** * The hypotheses are satisfiable: a tree with identifiers 0..8, compared with [Nat.eqb] *)

Definition ex_node (i : nat) (cs : list (G.TreeNode nat)) : G.TreeNode nat := G.TreeNode_node i cs.
Definition ex_tree : G.TreeNode nat :=
  ex_node 0 [ex_node 1 [ex_node 2 []; ex_node 3 [ex_node 4 []; ex_node 5 []]]; ex_node 6 []; ex_node 7 [ex_node 8 []]].

Example ex_tree_distinct : NoDup (ids ex_tree).
Proof. cbn. repeat (constructor; [cbn; intuition discriminate|]). constructor. Qed.

Example ex_tree_queries :
  exists gs L, G.gen_lca_init Nat.eqb (fun _ _ => true) ex_tree = G.Ok gs /\ make (shape ex_tree) = Some L /\
    res_val (fun n => pth Nat.eqb ex_tree (G.TreeNode_id n))
            (G.gen_lca_call Nat.eqb (fun _ _ => true) gs [ex_node 5 []; ex_node 2 []]) = Some [0] /\
    lca_query L [[0; 1; 1]; [0; 0]] = Some [0] /\
    res_val (fun z : Z => z) (G.gen_lca_distance Nat.eqb (fun _ _ => true) gs (ex_node 5 []) (ex_node 2 [])) = Some 3%Z /\
    res_val (fun n => pth Nat.eqb ex_tree (G.TreeNode_id n))
            (G.gen_lca_call Nat.eqb (fun _ _ => true) gs [ex_node 5 []; ex_node 99 []]) = None /\
    G.gen_lca_call Nat.eqb (fun _ _ => true) gs [] = G.Err G.TypeError /\
    pth Nat.eqb ex_tree 99 = [3] /\ valid (shape ex_tree) [3] = false.
Proof. eexists _, _. split; [vm_compute; reflexivity|]. split; [vm_compute; reflexivity|]. vm_compute. repeat split. Qed.

Print Assumptions NoDup_distinct_ids.
Print Assumptions gen_euler_tour_eq.
Print Assumptions gen_euler_tour_sub_eq.
Print Assumptions gen_lca_init_eq.
Print Assumptions gen_lca_call_eq.
Print Assumptions gen_lca_call_errors.
Print Assumptions gen_is_ancestor_eq.
Print Assumptions gen_is_strict_ancestor_eq.
Print Assumptions gen_is_comparable_eq.
Print Assumptions gen_level_eq.
Print Assumptions gen_distance_eq.
Print Assumptions gen_lca_call_lcp.
Print Assumptions gen_lca_never_orders_nodes.
Print Assumptions ex_tree_queries.
