(** The functions of [Gen/ToposortGen.v] -- generated from [src/superrec2/utils/toposort.py] by
    [translator/toposort_gen.py] -- are equal to the hand-written model [Model/Toposort.v].

    The generated code is polymorphic in the type of nodes and takes their equality [eqb] and the
    iteration order of sets [ord] as parameters; the model works on [nat] with [Nat.eqb] and takes
    the same [ord].  A dict is an association list in insertion order on both sides, a deque / a
    set the list of its items, so that no conversion of values is needed: only results are
    converted, [cres] sending the error [G.KeyError] to [TKeyError] and so on (a bijection between
    the error values of the two sides; [rres] is its inverse).

    - [gen_toposort_eq]: for EVERY graph (well formed or not), [toposort] is the model's
      [toposort], errors ([KeyError] for a successor that is not a key, [ValueError],
      [OutOfFuel]) included.
    - [gen_toposort_all_eq]: for every set order [ord] and every graph on which the model's
      [toposort_all_with ord] does not return [TOutOfFuel], the generated [toposort_all] (iterating
      every set [s] in the order [ord s]) returns what the model returns -- the same list of
      orderings in the same order, or the same error.  This is an EQUALITY for the iteration policy
      [ord] that both sides share, for every [ord], not only a permutation.  The side condition
      is needed because the two sides test their fuel at different places (the generated function
      on entry, the model after the test [if not starts]); [Proofs/ToposortProofs.v] shows that it
      holds on every well-formed graph ([gen_toposort_all_wf]) and on every graph with distinct
      keys and a successor that is not a key, where both sides raise [KeyError]
      ([gen_toposort_all_keyerror]).  [gen_toposort_all_perm] adds that two set orders give
      permutations of each other, and [gen_toposort_all_spec] transports the property itself. *)
From Coq Require Import List Bool Arith ZArith NArith Lia Permutation.
From SR Require Import Model.Toposort Proofs.ToposortProofs.
From SR Require Gen.ToposortGen.
Import ListNotations.
Module G := SR.Gen.ToposortGen.

(* ------------------------------------------------------------------ *)
(** * Conversion of results *)

Definition cerr {X : Type} (e : G.err) : tres X :=
  match e with
  | G.IndexError => TIndexError
  | G.OutOfFuel => TOutOfFuel
  | G.ValueError => TValueError
  | G.KeyError => TKeyError
  end.

Definition cres {X : Type} (r : G.res X) : tres X :=
  match r with G.Ok x => TOk x | G.Err e => cerr e end.

(* the inverse direction, convenient for rewriting generated calls *)
Definition rres {X : Type} (t : tres X) : G.res X :=
  match t with
  | TOk x => G.Ok x
  | TKeyError => G.Err G.KeyError
  | TValueError => G.Err G.ValueError
  | TIndexError => G.Err G.IndexError
  | TOutOfFuel => G.Err G.OutOfFuel
  end.

Lemma cres_rres {X} (t : tres X) : cres (rres t) = t.
Proof. destruct t; reflexivity. Qed.

Lemma rres_cres {X} (r : G.res X) : rres (cres r) = r.
Proof. destruct r as [x|[]]; reflexivity. Qed.

(* the outcome of a generated loop that has no [return]: [Next] the final state, or an error *)
Definition tflow {S S' R : Type} (f : S -> S') (t : tres S) : G.flow S' R :=
  match t with
  | TOk s => G.Next (f s)
  | TKeyError => G.Fail G.KeyError
  | TValueError => G.Fail G.ValueError
  | TIndexError => G.Fail G.IndexError
  | TOutOfFuel => G.Fail G.OutOfFuel
  end.

Definition swap {X Y : Type} (p : X * Y) : Y * X := (snd p, fst p).
Definition same {X : Type} (x : X) : X := x.

Definition tmap {X Y : Type} (f : X -> Y) (t : tres X) : tres Y :=
  match t with
  | TOk x => TOk (f x)
  | TKeyError => TKeyError
  | TValueError => TValueError
  | TIndexError => TIndexError
  | TOutOfFuel => TOutOfFuel
  end.

(* the model's abbreviations, unfolded so that both sides are spelled the same way *)
Ltac norm := unfold zero_map, all_succs, keys, graph, imap, node in *.

(* ------------------------------------------------------------------ *)
(** * Containers: the generated helpers are the model's *)

Lemma adict_get_eq {V} (m : list (node * V)) k : G.adict_get Nat.eqb m k = lookup m k.
Proof. induction m as [|[k' a] m IH]; simpl; [reflexivity|]. now rewrite IH. Qed.

Lemma adict_set_eq (m : imap) k d a : lookup m k = Some a -> G.adict_set Nat.eqb m k d = update m k d.
Proof.
  induction m as [|[k' a'] m IH]; simpl; [discriminate|].
  destruct (Nat.eqb k k'); [reflexivity|]. intros H. now rewrite IH.
Qed.

Lemma seq_remove_eq x l : G.seq_remove Nat.eqb x l = remove_first x l.
Proof.
  induction l as [|y l IH]; simpl; [reflexivity|]. rewrite IH.
  destruct (Nat.eqb x y); [reflexivity|]. destruct (remove_first x l); reflexivity.
Qed.

Lemma set_mem_eq x l : G.set_mem Nat.eqb x l = memb x l.
Proof. induction l as [|y l IH]; simpl; [reflexivity|]. now rewrite IH. Qed.

Lemma set_add_eq x l : G.set_add Nat.eqb x l = set_add x l.
Proof. unfold G.set_add, set_add. now rewrite set_mem_eq. Qed.

Lemma lookup_update_hit (m : imap) k d a : lookup m k = Some a -> lookup (update m k d) k = Some d.
Proof.
  induction m as [|[k' a'] m IH]; simpl; [discriminate|].
  destruct (Nat.eqb k k') eqn:E; simpl; rewrite E; [reflexivity|exact IH].
Qed.

Lemma N_of_nat_eqb a b : N.eqb (N.of_nat a) (N.of_nat b) = Nat.eqb a b.
Proof.
  destruct (Nat.eqb_spec a b) as [->|H]; [apply N.eqb_refl|]. apply N.eqb_neq. lia.
Qed.

(* ------------------------------------------------------------------ *)
(** * [toposort] *)

(* [if indeg[succ] == 0: starts.remove(succ)] then [indeg[succ] += 1], for each successor of one node *)
Lemma toposort_for2_eq : forall it starts indeg,
  G.gen_toposort_for2 Nat.eqb it starts indeg
  = tflow same (fold_res kahn_init_step it (starts, indeg)).
Proof.
  induction it as [|succ it IH]; intros starts indeg; [reflexivity|].
  cbn [G.gen_toposort_for2 fold_res]. unfold kahn_init_step at 1.
  rewrite adict_get_eq. destruct (lookup indeg succ) as [d|] eqn:El; [|reflexivity].
  destruct (Z.eqb d 0).
  - rewrite seq_remove_eq. destruct (remove_first succ starts) as [starts'|]; [|reflexivity].
    rewrite (adict_set_eq _ _ _ _ El). cbn [tbind]. apply IH.
  - rewrite (adict_set_eq _ _ _ _ El). cbn [tbind]. apply IH.
Qed.

(* ... for the successor sets of all nodes, in the order of [graph.values()] *)
Lemma toposort_for1_eq : forall sets starts indeg,
  G.gen_toposort_for1 Nat.eqb sets starts indeg
  = tflow same (fold_res kahn_init_step (concat sets) (starts, indeg)).
Proof.
  induction sets as [|succs sets IH]; intros starts indeg; [reflexivity|].
  cbn [G.gen_toposort_for1 concat]. rewrite toposort_for2_eq, fold_res_app.
  destruct (fold_res kahn_init_step succs (starts, indeg)) as [[starts' indeg']| | | |]; try reflexivity.
  cbn [tflow same tbind]. apply IH.
Qed.

(* [indeg[node_to] -= 1; if indeg[node_to] == 0: starts.append(node_to)] for each successor *)
Lemma toposort_for4_eq : forall it starts indeg,
  G.gen_toposort_for4 Nat.eqb it starts indeg = tflow swap (relax dq_append it indeg starts).
Proof.
  induction it as [|node_to it IH]; intros starts indeg; [reflexivity|].
  cbn [G.gen_toposort_for4]. unfold relax. cbn [fold_res]. unfold relax_step at 1.
  rewrite adict_get_eq. destruct (lookup indeg node_to) as [d|] eqn:El; [|reflexivity].
  rewrite (adict_set_eq _ _ _ _ El), adict_get_eq, (lookup_update_hit _ _ _ _ El).
  cbn [tbind]. fold (relax dq_append it (update indeg node_to (d - 1)%Z)
                      (if ((d - 1) =? 0)%Z then dq_append node_to starts else starts)).
  destruct (Z.eqb (Z.sub d 1) 0); apply IH.
Qed.

(* the outcome of the generated [while] loop against the model's: the final [result], or the same error;
   the generated loop never takes its [Ret] exit (there is no [return] in the loop) *)
Definition sim_while (f : G.flow (list node * imap * list node) (option (list node))) (t : tres (list node)) : Prop :=
  match f with
  | G.Next (_, _, result) => t = TOk result
  | G.Ret _ => False
  | G.Fail e => t = cerr e
  end.

Lemma toposort_while3_eq g : forall fuel starts indeg result,
  sim_while (G.gen_toposort_while3 Nat.eqb g fuel starts indeg result) (kahn_loop g fuel starts indeg result).
Proof.
  induction fuel as [|fuel IH]; intros starts indeg result.
  - destruct starts; reflexivity.
  - destruct starts as [|node_from rest]; [reflexivity|].
    cbn [G.gen_toposort_while3 G.is_empty negb kahn_loop]. norm.
    rewrite adict_get_eq. destruct (lookup g node_from) as [succs|]; [|reflexivity].
    rewrite toposort_for4_eq.
    destruct (relax dq_append succs indeg rest) as [[indeg' starts']| | | |]; try reflexivity.
    cbn [tflow swap fst snd tbind]. apply IH.
Qed.

Theorem gen_toposort_rres : forall g : graph, G.gen_toposort Nat.eqb g = rres (toposort g).
Proof.
  intros g. unfold G.gen_toposort, toposort. rewrite toposort_for1_eq. norm.
  match goal with |- _ = rres (tbind ?t _) => destruct t as [[starts indeg]| | | |] end; try reflexivity.
  cbn [tflow same tbind].
  pose proof (toposort_while3_eq g (length g) starts indeg []) as H. norm.
  destruct (G.gen_toposort_while3 Nat.eqb g (length g) starts indeg [])
    as [[[starts' indeg'] result]|r|e]; cbn [sim_while] in H; [|contradiction|].
  - rewrite H. cbn [tbind rres]. rewrite N_of_nat_eqb.
    destruct (Nat.eqb (length result) (length g)); reflexivity.
  - rewrite H. destruct e; reflexivity.
Qed.

(** [toposort(graph)] as generated is the model's [toposort], for every graph. *)
Theorem gen_toposort_eq : forall g : graph, cres (G.gen_toposort Nat.eqb g) = toposort g.
Proof. intros g. rewrite gen_toposort_rres. apply cres_rres. Qed.

(* ------------------------------------------------------------------ *)
(** * [toposort_all] *)

Section All.
  Variable ord : list node -> list node.

  Lemma set_discard_eq x l : G.set_discard Nat.eqb x l = discard x l.
  Proof. reflexivity. Qed.

  (* [starts.discard(succ); indeg[succ] += 1] *)
  Lemma all_for2_eq : forall it starts indeg,
    G.gen_toposort_all_for2 Nat.eqb it starts indeg
    = tflow same (fold_res all_init_step it (starts, indeg)).
  Proof.
    induction it as [|succ it IH]; intros starts indeg; [reflexivity|].
    cbn [G.gen_toposort_all_for2 fold_res]. unfold all_init_step at 1.
    rewrite adict_get_eq. destruct (lookup indeg succ) as [d|] eqn:El; [|reflexivity].
    rewrite (adict_set_eq _ _ _ _ El), set_discard_eq. cbn [tbind]. apply IH.
  Qed.

  Lemma all_for1_eq : forall sets starts indeg,
    G.gen_toposort_all_for1 Nat.eqb sets starts indeg
    = tflow same (fold_res all_init_step (concat sets) (starts, indeg)).
  Proof.
    induction sets as [|succs sets IH]; intros starts indeg; [reflexivity|].
    cbn [G.gen_toposort_all_for1 concat]. rewrite all_for2_eq, fold_res_app.
    destruct (fold_res all_init_step succs (starts, indeg)) as [[starts' indeg']| | | |]; try reflexivity.
    cbn [tflow same tbind]. apply IH.
  Qed.

  (* [indeg[node_to] -= 1; if indeg[node_to] == 0: next_starts.add(node_to)] *)
  Lemma bt_for2_eq : forall it indeg next_starts,
    G.gen__toposort_all_bt_for2 Nat.eqb it indeg next_starts = tflow same (relax set_add it indeg next_starts).
  Proof.
    induction it as [|node_to it IH]; intros indeg next_starts; [reflexivity|].
    cbn [G.gen__toposort_all_bt_for2]. unfold relax. cbn [fold_res]. unfold relax_step at 1.
    rewrite adict_get_eq. destruct (lookup indeg node_to) as [d|] eqn:El; [|reflexivity].
    rewrite (adict_set_eq _ _ _ _ El), adict_get_eq, (lookup_update_hit _ _ _ _ El), set_add_eq.
    cbn [tbind]. fold (relax set_add it (update indeg node_to (d - 1)%Z)
                        (if ((d - 1) =? 0)%Z then set_add node_to next_starts else next_starts)).
    destruct (Z.eqb (Z.sub d 1) 0); apply IH.
  Qed.

  (* [subresult.append(node_from); results.append(subresult)] *)
  Lemma bt_for3_eq (node_from : node) : forall it results,
    G.gen__toposort_all_bt_for3 node_from it results
    = G.Next (results ++ map (fun sub => sub ++ [node_from]) it).
  Proof.
    induction it as [|sub it IH]; intros results; cbn [G.gen__toposort_all_bt_for3 map].
    - now rewrite app_nil_r.
    - rewrite IH, <- app_assoc. reflexivity.
  Qed.

  (* [indeg[node_to] += 1] *)
  Lemma bt_for4_eq : forall it indeg,
    G.gen__toposort_all_bt_for4 Nat.eqb it indeg = tflow same (restore it indeg).
  Proof.
    induction it as [|node_to it IH]; intros indeg; [reflexivity|].
    cbn [G.gen__toposort_all_bt_for4]. unfold restore. cbn [fold_res]. unfold restore_step at 1.
    rewrite adict_get_eq. destruct (lookup indeg node_to) as [d|] eqn:El; [|reflexivity].
    rewrite (adict_set_eq _ _ _ _ El). cbn [tbind]. apply IH.
  Qed.

  (* the loop [for node_from in starts] of [_toposort_all_bt] (a local [fix] in the generated text), the
     recursive calls running on [fuel] *)
  Fixpoint gloop (fuel : nat) (g : graph) (starts : list node) (it : list node) (indeg : imap)
      (results : list (list node)) : G.flow (imap * list (list node)) (imap * list (list node)) :=
    match it with
    | [] => G.Next (indeg, results)
    | node_from :: it' =>
        match G.seq_remove Nat.eqb node_from starts with
        | None => G.Fail G.KeyError
        | Some next_starts =>
            match G.adict_get Nat.eqb g node_from with
            | None => G.Fail G.KeyError
            | Some succs =>
                match G.gen__toposort_all_bt_for2 Nat.eqb succs indeg next_starts with
                | G.Next (indeg, next_starts) =>
                    match G.gen__toposort_all_bt_rec Nat.eqb ord fuel next_starts g indeg with
                    | G.Err e => G.Fail e
                    | G.Ok (indeg, subresults) =>
                        match G.gen__toposort_all_bt_for3 node_from subresults results with
                        | G.Next results =>
                            match G.adict_get Nat.eqb g node_from with
                            | None => G.Fail G.KeyError
                            | Some succs' =>
                                match G.gen__toposort_all_bt_for4 Nat.eqb succs' indeg with
                                | G.Next indeg => gloop fuel g starts it' indeg results
                                | G.Ret r => G.Ret r
                                | G.Fail e => G.Fail e
                                end
                            end
                        | G.Ret r => G.Ret r
                        | G.Fail e => G.Fail e
                        end
                    end
                | G.Ret r => G.Ret r
                | G.Fail e => G.Fail e
                end
            end
        end
    end.

  Lemma bt_rec_unfold fuel starts g indeg :
    G.gen__toposort_all_bt_rec Nat.eqb ord (S fuel) starts g indeg =
      if negb (negb (G.is_empty starts)) then G.Ok (indeg, [[]])
      else match gloop fuel g starts (ord starts) indeg [] with
           | G.Next (indeg, results) => G.Ok (indeg, results)
           | G.Ret r => G.Ok r
           | G.Fail e => G.Err e
           end.
  Proof.
    cbn [G.gen__toposort_all_bt_rec]. destruct (negb (negb (G.is_empty starts))); [reflexivity|].
    match goal with |- match ?a with _ => _ end = match ?b with _ => _ end => assert (a = b) as -> end; [|reflexivity].
    norm. generalize (@nil (list nat)) as results. generalize indeg as indeg0.
    induction (ord starts) as [|node_from it IH]; intros indeg0 results; [reflexivity|].
    cbn [gloop]. norm.
    destruct (G.seq_remove Nat.eqb node_from starts) as [next_starts|]; [|reflexivity].
    destruct (G.adict_get Nat.eqb g node_from) as [succs|]; [|reflexivity].
    destruct (G.gen__toposort_all_bt_for2 Nat.eqb succs indeg0 next_starts) as [[indeg1 next_starts1]|r|e]; try reflexivity.
    destruct (G.gen__toposort_all_bt_rec Nat.eqb ord fuel next_starts1 g indeg1) as [[indeg2 subresults]|e]; try reflexivity.
    destruct (G.gen__toposort_all_bt_for3 node_from subresults results) as [results1|r|e]; try reflexivity.
    destruct (G.gen__toposort_all_bt_for4 Nat.eqb succs indeg2) as [indeg3|r|e]; try reflexivity.
    apply IH.
  Qed.

  Section Graph.
    Variable g : graph.

    (* one level of the recursion: if the recursive calls on [fuel] agree with the model's on [fuel'],
       so does the loop over the start nodes *)
    Lemma gloop_eq fuel fuel' starts
      (IH : forall starts indeg, bt ord g fuel' starts indeg <> TOutOfFuel ->
              G.gen__toposort_all_bt_rec Nat.eqb ord fuel starts g indeg = rres (tmap swap (bt ord g fuel' starts indeg))) :
      forall it results indeg,
        fold_res (bt_body g (bt ord g fuel') starts) it (results, indeg) <> TOutOfFuel ->
        gloop fuel g starts it indeg results
        = tflow swap (fold_res (bt_body g (bt ord g fuel') starts) it (results, indeg)).
    Proof.
      induction it as [|node_from it IHit]; intros results indeg Hnf; [reflexivity|].
      cbn [gloop]. cbn [fold_res] in Hnf |- *. unfold bt_body at 1. unfold bt_body at 1 in Hnf. norm.
      rewrite seq_remove_eq. destruct (remove_first node_from starts) as [next_starts0|]; [|reflexivity].
      rewrite adict_get_eq. destruct (lookup g node_from) as [succs|]; [|reflexivity].
      rewrite bt_for2_eq.
      destruct (relax set_add succs indeg next_starts0) as [[indeg1 next_starts]| | | |]; try reflexivity.
      cbn [tflow same tbind] in Hnf |- *.
      destruct (bt ord g fuel' next_starts indeg1) as [[subresults indeg2]| | | |] eqn:Eb;
        try (rewrite IH by (rewrite Eb; discriminate); rewrite Eb; reflexivity).
      2: { exfalso. apply Hnf. reflexivity. }
      rewrite IH by (rewrite Eb; discriminate). rewrite Eb.
      cbn [tmap swap fst snd rres tbind] in Hnf |- *.
      rewrite bt_for3_eq, bt_for4_eq.
      destruct (restore succs indeg2) as [indeg3| | | |]; try reflexivity.
      cbn [tflow same tbind] in Hnf |- *. apply IHit. exact Hnf.
    Qed.

    (* [_toposort_all_bt]: the generated function on fuel [S n] against the model's on fuel [n] *)
    Lemma bt_rec_eq : forall fuel starts indeg, bt ord g fuel starts indeg <> TOutOfFuel ->
      G.gen__toposort_all_bt_rec Nat.eqb ord (S fuel) starts g indeg = rres (tmap swap (bt ord g fuel starts indeg)).
    Proof.
      induction fuel as [|fuel IH]; intros starts indeg Hnf; rewrite bt_rec_unfold.
      - destruct starts as [|s starts]; [reflexivity|]. exfalso. apply Hnf. reflexivity.
      - destruct starts as [|s starts]; [reflexivity|].
        cbn [G.is_empty negb]. cbn [bt] in Hnf |- *.
        rewrite (gloop_eq (S fuel) fuel (s :: starts) IH) by exact Hnf.
        destruct (fold_res (bt_body g (bt ord g fuel) (s :: starts)) (ord (s :: starts)) ([], indeg))
          as [[results indeg']| | | |]; reflexivity.
    Qed.

    (* the final loop: [return []] at the first sub-result that is too short, else reverse each in place *)
    Lemma all_for3_eq : forall it done,
      G.gen_toposort_all_for3 g it (length done) (done ++ it)
      = if forallb (fun sub => length sub =? length g) it
        then G.Next (done ++ map (@rev node) it) else G.Ret [].
    Proof.
      induction it as [|sub it IH]; intros done; [reflexivity|].
      cbn [G.gen_toposort_all_for3 forallb map]. rewrite N_of_nat_eqb.
      destruct (Nat.eqb (length sub) (length g)); cbn [negb andb]; [|reflexivity].
      assert (G.list_set (done ++ sub :: it) (length done) (rev sub) = Some (done ++ rev sub :: it)) as ->.
      { clear. induction done as [|x done IHd]; cbn [G.list_set app length]; [reflexivity|]. now rewrite IHd. }
      replace (done ++ rev sub :: it) with ((done ++ [rev sub]) ++ it) by (rewrite <- app_assoc; reflexivity).
      replace (S (length done)) with (length (done ++ [rev sub])) by (rewrite app_length; cbn; lia).
      rewrite IH, <- app_assoc. reflexivity.
    Qed.

    Theorem gen_toposort_all_rres : toposort_all_with ord g <> TOutOfFuel ->
      G.gen_toposort_all Nat.eqb ord g = rres (toposort_all_with ord g).
    Proof.
      unfold G.gen_toposort_all, toposort_all_with. intros Hnf. rewrite all_for1_eq. norm.
      match goal with |- _ = rres (tbind ?t _) => destruct t as [[starts indeg]| | | |] end; try reflexivity.
      cbn [tflow same tbind] in Hnf |- *. unfold G.gen__toposort_all_bt.
      assert (bt ord g (length g) starts indeg <> TOutOfFuel) as Hb.
      { intros E. apply Hnf. rewrite E. reflexivity. }
      rewrite (bt_rec_eq _ _ _ Hb).
      destruct (bt ord g (length g) starts indeg) as [[results indeg']| | | |]; try reflexivity.
      cbn [tmap swap fst snd rres tbind].
      pose proof (all_for3_eq results []) as H3. cbn [app length] in H3. norm. rewrite H3.
      destruct (forallb (fun sub => length sub =? length g) results); reflexivity.
    Qed.
  End Graph.

  (** [toposort_all(graph)] as generated, iterating every set [s] it builds in the order [ord s], is the
      model's [toposort_all_with ord] wherever the model does not run out of fuel. *)
  Theorem gen_toposort_all_eq : forall g : graph, toposort_all_with ord g <> TOutOfFuel ->
    cres (G.gen_toposort_all Nat.eqb ord g) = toposort_all_with ord g.
  Proof. intros g H. rewrite (gen_toposort_all_rres g H). apply cres_rres. Qed.

  (** The side condition holds on every well-formed graph, for every possible set order ... *)
  Theorem gen_toposort_all_wf : forall g : graph, wf g -> set_order ord ->
    cres (G.gen_toposort_all Nat.eqb ord g) = toposort_all_with ord g.
  Proof.
    intros g Hwf Hord. apply gen_toposort_all_eq.
    destruct (toposort_all_total g Hwf ord Hord) as [R E]. rewrite E. discriminate.
  Qed.

  (** ... in particular the generated function neither raises nor runs out of fuel there ... *)
  Corollary gen_toposort_all_total : forall g : graph, wf g -> set_order ord ->
    exists R, G.gen_toposort_all Nat.eqb ord g = G.Ok R.
  Proof.
    intros g Hwf Hord. destruct (toposort_all_total g Hwf ord Hord) as [R E]. exists R.
    rewrite gen_toposort_all_rres by (rewrite E; discriminate). now rewrite E.
  Qed.

  (** ... and a successor that is not a key raises [KeyError] on both sides. *)
  Theorem gen_toposort_all_keyerror : forall g : graph, NoDup (map fst g) ->
    (exists u v, edge g u v /\ ~ In v (map fst g)) ->
    G.gen_toposort_all Nat.eqb ord g = G.Err G.KeyError.
  Proof.
    intros g Hnd Hbad. pose proof (toposort_all_keyerror ord g Hnd Hbad) as E.
    rewrite gen_toposort_all_rres by (rewrite E; discriminate). now rewrite E.
  Qed.

  (** The property itself, for the generated code: on a well-formed graph it returns exactly the topological
      orderings, each once. *)
  Theorem gen_toposort_all_spec : forall g : graph, wf g -> set_order ord ->
    exists R, G.gen_toposort_all Nat.eqb ord g = G.Ok R /\ NoDup R /\ forall l, In l R <-> topo g l.
  Proof.
    intros g Hwf Hord. destruct (toposort_all_total g Hwf ord Hord) as [R E]. exists R.
    split; [|split].
    - rewrite gen_toposort_all_rres by (rewrite E; discriminate). now rewrite E.
    - exact (toposort_all_nodup g Hwf ord Hord R E).
    - exact (toposort_all_complete_sound g Hwf ord Hord R E).
  Qed.
End All.

(** The instance the correspondence check evaluates: sets iterated in list order. *)
Corollary gen_toposort_all_list_order : forall g : graph, toposort_all g <> TOutOfFuel ->
  cres (G.gen_toposort_all Nat.eqb (fun s => s) g) = toposort_all g.
Proof. intros g. exact (gen_toposort_all_eq (fun s => s) g). Qed.

(** Whatever order Python iterates the sets in, the result is the same up to a permutation. *)
Theorem gen_toposort_all_perm : forall ord ord' (g : graph), wf g -> set_order ord -> set_order ord' ->
  exists R R', G.gen_toposort_all Nat.eqb ord g = G.Ok R /\ G.gen_toposort_all Nat.eqb ord' g = G.Ok R' /\
               Permutation R R'.
Proof.
  intros ord ord' g Hwf Ho Ho'.
  destruct (gen_toposort_all_spec ord g Hwf Ho) as (R & E & Hnd & Hin).
  destruct (gen_toposort_all_spec ord' g Hwf Ho') as (R' & E' & Hnd' & Hin').
  exists R, R'. split; [exact E|]. split; [exact E'|].
  apply NoDup_Permutation; [exact Hnd|exact Hnd'|]. intros l. rewrite Hin, Hin'. reflexivity.
Qed.

(** The [KeyError] case of [toposort]. *)
Theorem gen_toposort_keyerror : forall g : graph, NoDup (map fst g) ->
  (exists u v, edge g u v /\ ~ In v (map fst g)) -> G.gen_toposort Nat.eqb g = G.Err G.KeyError.
Proof. intros g Hnd Hbad. rewrite gen_toposort_rres, (toposort_keyerror g Hnd Hbad). reflexivity. Qed.

(* ------------------------------------------------------------------ *)
(** * Non-vacuity: concrete graphs, several orderings, two set orders, the error cases *)

Definition ex_diamond : graph := [(0, [1; 2]); (1, [3]); (2, [3]); (3, [])].
Definition ex_wide : graph := [(4, []); (0, [2]); (1, [2]); (2, [])].
Definition ex_cycle : graph := [(0, [1]); (1, [2]); (2, [0]); (3, [])].
Definition ex_bad : graph := [(0, [1; 7]); (1, [])].

Example gen_toposort_example :
  wf ex_diamond /\ wf ex_wide /\ wf ex_cycle /\
  (* the generated [toposort] *)
  G.gen_toposort Nat.eqb ex_diamond = G.Ok (Some [0; 1; 2; 3]) /\
  G.gen_toposort Nat.eqb ex_wide = G.Ok (Some [4; 0; 1; 2]) /\
  G.gen_toposort Nat.eqb ex_cycle = G.Ok None /\
  G.gen_toposort Nat.eqb ex_bad = G.Err G.KeyError /\
  (* the generated [toposort_all], sets iterated in list order ... *)
  G.gen_toposort_all Nat.eqb (fun s => s) ex_diamond = G.Ok [[0; 1; 2; 3]; [0; 2; 1; 3]] /\
  length (match G.gen_toposort_all Nat.eqb (fun s => s) ex_wide with G.Ok R => R | G.Err _ => [] end) = 8 /\
  (* ... and in reverse list order: the same orderings, enumerated in another order *)
  set_order (@rev node) /\
  G.gen_toposort_all Nat.eqb (@rev node) ex_diamond = G.Ok [[0; 2; 1; 3]; [0; 1; 2; 3]] /\
  cres (G.gen_toposort_all Nat.eqb (@rev node) ex_wide) = toposort_all_with (@rev node) ex_wide /\
  G.gen_toposort_all Nat.eqb (fun s => s) ex_cycle = G.Ok [] /\
  G.gen_toposort_all Nat.eqb (@rev node) ex_bad = G.Err G.KeyError.
Proof.
  assert (wf ex_diamond) as W1 by (apply wfb_wf; reflexivity).
  assert (wf ex_wide) as W2 by (apply wfb_wf; reflexivity).
  assert (wf ex_cycle) as W3 by (apply wfb_wf; reflexivity).
  assert (set_order (@rev node)) as Hrev by (intros s; apply Permutation_sym, Permutation_rev).
  split; [exact W1|]. split; [exact W2|]. split; [exact W3|].
  do 6 (split; [reflexivity|]).
  split; [exact Hrev|]. split; [reflexivity|].
  split; [apply gen_toposort_all_wf; assumption|].
  split; reflexivity.
Qed.

Print Assumptions gen_toposort_eq.
Print Assumptions gen_toposort_all_eq.
Print Assumptions gen_toposort_all_wf.
Print Assumptions gen_toposort_all_total.
Print Assumptions gen_toposort_all_keyerror.
Print Assumptions gen_toposort_all_spec.
Print Assumptions gen_toposort_all_perm.
Print Assumptions gen_toposort_all_list_order.
Print Assumptions gen_toposort_keyerror.
Print Assumptions gen_toposort_example.
