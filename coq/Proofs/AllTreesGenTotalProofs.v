(** [all_trees_from_triples]: the generated function ([Gen/BuildGen.v]) EQUALS the model
    ([Model/Triples.v], [all_trees]) for ALL leaf lists and triple lists, error cases included, for
    every iteration order [ord] of the set inside [DisjointSet.binary] that lists the distinct items
    of its argument ([set_orderN]).

    Proofs/AllTreesGenProofs.v shows "whenever the model returns a list, the generated function returns
    the same list" and explains why more needs an argument: the fuel conventions differ, and on an
    error the model reads [groups_leaves[1]] before the first recursive call while the code (and the
    generated function) reads it after.  Both differences vanish on the states that can arise: the
    partition is built on a reachable [DisjointSet], so every partition [binary()] returns has exactly
    two non-empty groups ([dsu_binary], Proofs/DisjointSetProofs.v) -- both reads succeed, and every
    group is strictly smaller than the leaf list, so that neither side runs out of fuel. *)
From Coq Require Import List Bool Arith ZArith NArith Lia Permutation.
From SR Require Import Model.DisjointSet Model.Triples Proofs.DisjointSetProofs Proofs.TriplesProofs
  Proofs.DsuGenProofs Proofs.DsuBinaryGenProofs Proofs.BuildGenProofs Proofs.BuildGenTotalProofs
  Proofs.AllTreesGenProofs.
From SR Require Gen.DsuGen Gen.BuildGen.
Import ListNotations.
Module B := SR.Gen.BuildGen.
Module G := SR.Gen.DsuGen.

Notation nats := (map N.to_nat).

(* ------------------------------------------------------------------ *)
(** * the model never runs out of fuel *)

(* what [dsu_binary] says about one returned partition, as needed here *)
Definition two_groups (n : nat) (b : dsu) : Prop :=
  exists d' g0 g1, to_list b = Ok (d', [g0; g1]) /\
    (forall i, In i g0 \/ In i g1 -> i < n) /\ length g0 < n /\ length g1 < n.

Lemma represents_two_groups n b R : represents n b R -> len b = 2%Z -> two_groups n b.
Proof.
  intros (d' & l & T & P & Ln) L2. rewrite L2 in Ln.
  destruct l as [|g0 [|g1 [|g2 l]]]; cbn [length] in Ln; try lia.
  exists d', g0, g1. split; [exact T|].
  pose proof P as (NE & ND & Cov & Q).
  pose proof (partition_perm _ _ _ P) as PP.
  assert (length (concat [g0; g1]) = n) as LC by (rewrite (Permutation_length PP), seq_length; reflexivity).
  split.
  - intros i [I|I]; apply Cov; cbn; rewrite app_nil_r; apply in_or_app; auto.
  - split; [pose proof (group_smaller [g0; g1] g0 NE ltac:(cbn; lia) (or_introl eq_refl))
           |pose proof (group_smaller [g0; g1] g1 NE ltac:(cbn; lia) (or_intror (or_introl eq_refl)))]; lia.
Qed.

Lemma all_bins_fuel rec leaves triples : forall bins,
  (forall b, In b bins -> exists d' g0 g1, to_list b = Ok (d', [g0; g1]) /\
       (forall i, In i g0 \/ In i g1 -> i < length leaves) /\
       rec (gl leaves g0) (filter (inside (gl leaves g0)) triples) <> Err OutOfFuel /\
       rec (gl leaves g1) (filter (inside (gl leaves g1)) triples) <> Err OutOfFuel) ->
  all_bins rec leaves triples bins <> Err OutOfFuel.
Proof.
  induction bins as [|b bins IH]; intros H; [discriminate|].
  rewrite all_bins_cons.
  destruct (H b (or_introl eq_refl)) as (d' & g0 & g1 & T & R & N0 & N1). rewrite T. cbn [bind].
  cbn [go_m]. rewrite !(get_all_ok leaves) by (intros i I; apply R; auto). cbn [bind get nth_error].
  fold (gl leaves g0) (gl leaves g1).
  destruct (rec (gl leaves g0) _) as [ls|e0]; cbn [bind]; [|intros X; apply N0; exact X].
  destruct (rec (gl leaves g1) _) as [rs|e1]; cbn [bind]; [|intros X; apply N1; exact X].
  specialize (IH (fun b' I => H b' (or_intror I))).
  destruct (all_bins rec leaves triples bins) as [more|e]; cbn [bind]; [discriminate|exact IH].
Qed.

Lemma all_trees_aux_no_fuel ord : set_order ord -> forall fuel leaves triples,
  length leaves <= fuel -> all_trees_aux ord fuel leaves triples <> Err OutOfFuel.
Proof.
  intros SO. induction fuel as [|f IH]; intros leaves triples L.
  - destruct leaves; [discriminate|simpl in L; lia].
  - destruct leaves as [|a [|b [|c rest]]]; try discriminate.
    remember (a :: b :: c :: rest) as leaves eqn:EL.
    assert (all_trees_aux ord (S f) leaves triples =
            (d <- unite_triples leaves triples (make (length leaves)) ;;
             ' (_, bins) <- binary ord d ;;
             all_bins (all_trees_aux ord f) leaves triples bins)) as ->
      by (subst leaves; reflexivity).
    clear a b c rest EL.
    destruct (unite_triples_any leaves triples [] (make (length leaves)) (R_make _)) as [E|(d & ps & E & R)];
      rewrite E; cbn [bind]; [discriminate|].
    destruct (dsu_binary _ _ _ ord R SO) as (d1 & bs & Bn & _ & P1 & _). rewrite Bn. cbn [bind].
    apply all_bins_fuel. intros b Ib. destruct (P1 b Ib) as (L2 & s & _ & Rp).
    destruct (represents_two_groups _ _ _ Rp L2) as (d' & g0 & g1 & T & Rg & S0 & S1).
    exists d', g0, g1. split; [exact T|]. split; [exact Rg|].
    split; apply IH; unfold gl; rewrite map_length; lia.
Qed.

Theorem all_trees_no_fuel_error ord leaves triples : set_order ord ->
  all_trees ord leaves triples <> Err OutOfFuel.
Proof.
  intros SO. unfold all_trees.
  destruct (tree_from_triples leaves triples) as [[t|]|e] eqn:ET; cbn [bind].
  - apply all_trees_aux_no_fuel; [exact SO|lia].
  - discriminate.
  - intros X. injection X as ->. exact (tree_from_triples_no_fuel_error _ _ ET).
Qed.

(* ------------------------------------------------------------------ *)
(** * the tie, two-sided *)

Definition CML (r : res (list tree)) : res (list (B.Tree nat)) :=
  match r with Ok l => Ok (map emb l) | Err e => Err e end.

Section Tie.
Context {A : Type} (eqb : A -> A -> bool) (enc : A -> nat) (ord : list N -> list N).
Hypothesis Henc : forall a b, eqb a b = (enc a =? enc b).
Hypothesis SO : set_orderN ord.

Notation encs := (map enc).
Notation enct := (BuildGenProofs.enct enc).
Notation tmap := (BuildGenProofs.tmap enc).

Definition CGL (r : B.res (list (B.Tree A))) : res (list (B.Tree nat)) :=
  match r with B.Ok l => Ok (map tmap l) | B.Err e => Err (cerrB e) end.

Definition CFL (fl : B.flow (list (B.Tree A)) (list (B.Tree A))) : res (list (B.Tree nat)) :=
  match fl with B.Next r => Ok (map tmap r) | B.Ret r => Ok (map tmap r) | B.Fail e => Err (cerrB e) end.

Lemma loopA_eq rec_g rec_m leaves triples :
  (forall l ts, rec_m (encs l) (map enct ts) <> Err OutOfFuel ->
                CGL (rec_g l ts) = CML (rec_m (encs l) (map enct ts))) ->
  forall bins results acc, map tmap results = map emb acc ->
    (forall b, In b bins -> exists d' g0 g1, to_list (st b) = Ok (d', [g0; g1])) ->
    all_bins rec_m (encs leaves) (map enct triples) (map st bins) <> Err OutOfFuel ->
    CFL (loopA eqb rec_g leaves triples bins results) =
      match all_bins rec_m (encs leaves) (map enct triples) (map st bins) with
      | Ok ts => Ok (map emb (acc ++ ts))
      | Err e => Err e
      end.
Proof.
  intros Hrec. induction bins as [|b bins IH]; intros results acc Hacc H2 Hne.
  - cbn. now rewrite app_nil_r, Hacc.
  - cbn [map] in *. rewrite all_bins_cons in *. cbn [loopA]. cbv zeta.
    destruct (H2 b (or_introl eq_refl)) as (d' & g0 & g1 & T).
    pose proof (gen_dsu_to_list_eq b) as TL. rewrite T in TL.
    destruct (G.gen_dsu_to_list b) as [[b' gs]|e]; cbn [cres] in TL; [|discriminate].
    injection TL as _ TL. rewrite T in *. cbn [bind B.dsu_res] in *. rewrite <- TL in *.
    destruct gs as [|h0 [|h1 [|h2 gs]]]; cbn [map] in TL; try discriminate. clear TL.
    rewrite (go_eq enc leaves [h0; h1]) in *.
    destruct (B.list_gets_all9 leaves [h0; h1]) as [gls|] eqn:EG; cbn [bind] in *; [|reflexivity].
    assert (exists l0 l1, gls = [l0; l1]) as (l0 & l1 & ->).
    { cbn in EG. destruct (B.list_gets9 leaves h0); [|discriminate]. destruct (B.list_gets9 leaves h1); [|discriminate].
      injection EG as <-. eauto. }
    change (N.to_nat 0) with 0. change (N.to_nat 1) with 1. cbn [map nth_error get bind] in *.
    rewrite <- !(filter_eq eqb enc Henc) in *.
    match goal with |- context [rec_m (encs l0) ?b] => set (ts0 := b) in * end.
    match goal with |- context [rec_m (encs l1) ?b] => set (ts1 := b) in * end.
    pose proof (Hrec l0) as H0. pose proof (Hrec l1) as H1.
    match goal with |- context [rec_g l0 ?t] => specialize (H0 t) end.
    match goal with |- context [rec_g l1 ?t] => specialize (H1 t) end.
    fold ts0 in H0. fold ts1 in H1.
    destruct (rec_m (encs l0) ts0) as [ls|e0] eqn:E0; cbn [bind] in *.
    2:{ assert (e0 <> OutOfFuel) as Ne by (intros ->; apply Hne; reflexivity).
        specialize (H0 ltac:(congruence)). destruct (rec_g l0 _) as [x|e]; cbn in H0; [discriminate|].
        exact H0. }
    specialize (H0 ltac:(discriminate)). destruct (rec_g l0 _) as [ls'|e]; cbn in H0; [|discriminate].
    injection H0 as H0.
    destruct (rec_m (encs l1) ts1) as [rs|e1] eqn:E1; cbn [bind] in *.
    2:{ assert (e1 <> OutOfFuel) as Ne by (intros ->; apply Hne; reflexivity).
        specialize (H1 ltac:(congruence)). destruct (rec_g l1 _) as [x|e]; cbn in H1; [discriminate|].
        exact H1. }
    specialize (H1 ltac:(discriminate)). destruct (rec_g l1 _) as [rs'|e]; cbn in H1; [|discriminate].
    injection H1 as H1.
    rewrite (for3_eq rs' ls' results).
    specialize (IH (results ++ gprod ls' rs') (acc ++ product_trees ls rs)).
    rewrite !map_app, (gprod_emb enc ls' ls rs' rs H0 H1), Hacc in IH.
    specialize (IH eq_refl (fun b' I => H2 b' (or_intror I))).
    destruct (all_bins rec_m (encs leaves) (map enct triples) (map st bins)) as [more|e] eqn:EM; cbn [bind] in *.
    + rewrite IH by discriminate. now rewrite <- app_assoc.
    + apply IH. exact Hne.
Qed.

Lemma all_rec_eq : forall f leaves triples,
  all_trees_aux (ord_nat ord) f (encs leaves) (map enct triples) <> Err OutOfFuel ->
  CGL (B.gen_all_trees_aux_rec eqb ord (S f) leaves triples) =
    CML (all_trees_aux (ord_nat ord) f (encs leaves) (map enct triples)).
Proof.
  induction f as [|f IH]; intros leaves triples Hne;
    (destruct leaves as [|a [|b [|c rest]]]; [reflexivity|reflexivity|reflexivity|]).
  - exfalso. apply Hne. reflexivity.
  - remember (a :: b :: c :: rest) as leaves eqn:EL.
    assert (all_trees_aux (ord_nat ord) (S f) (encs leaves) (map enct triples) =
            (d <- unite_triples (encs leaves) (map enct triples) (make (length (encs leaves))) ;;
             ' (_, bins) <- binary (ord_nat ord) d ;;
             all_bins (all_trees_aux (ord_nat ord) f) (encs leaves) (map enct triples) bins)) as EB
      by (subst leaves; reflexivity).
    rewrite EB in *. clear EB.
    cbn [B.gen_all_trees_aux_rec]. cbv zeta beta.
    replace (B.is_empty leaves) with false by (subst leaves; reflexivity). cbn [negb].
    rewrite ?(N.eqb_sym 1%N), ?(N.eqb_sym 2%N).
    rewrite !(fun k Hk => eq_trans (f_equal (fun l => N.eqb (N.of_nat (length l)) k) EL) (len3 a b c rest k Hk))
      by (auto).
    clear a b c rest EL.
    unfold G.gen_dsu_init. cbn [B.dsu_res].
    set (s0 := G.mk_dsu _ _ _).
    assert (st s0 = make (length (encs leaves))) as Es0.
    { unfold s0, st, make. cbn [G.dsu_parent G.dsu_rank G.dsu_groups].
      rewrite nats_of_nats, nats_repeat, Nat2N.id, map_length, nat_N_Z. reflexivity. }
    rewrite <- Es0 in *.
    pose proof (for1_all_eq eqb enc Henc leaves triples s0) as F1.
    destruct (unite_triples_any (encs leaves) (map enct triples) [] (st s0)) as [UK|(d & ps & UO & R)].
    { rewrite Es0. apply R_make. }
    { destruct (B.gen_all_trees_aux_for1 eqb (B.enum_dict9 eqb [] 0%N leaves) triples s0) as [s1|r|e];
        [congruence|contradiction|rewrite F1; reflexivity]. }
    destruct (B.gen_all_trees_aux_for1 eqb (B.enum_dict9 eqb [] 0%N leaves) triples s0) as [s1|r|e];
      [|contradiction|congruence].
    rewrite F1 in *. injection UO as <-. cbn [bind] in *.
    destruct (gen_dsu_binary_total _ _ ord s1 R SO) as (s2 & bins & GB & _ & P1 & _).
    pose proof (gen_dsu_binary_eq ord s1) as BE. rewrite GB in *. cbn [cres] in BE. rewrite <- BE in *.
    unfold cpair in *. cbn [fst snd bind B.dsu_res] in *.
    assert (forall b, In b bins -> exists d' g0 g1, to_list (st b) = Ok (d', [g0; g1])) as TG.
    { intros b Ib. destruct (P1 b Ib) as (L2 & c & _ & Rp).
      destruct (represents_two_groups _ _ _ Rp L2) as (d' & g0 & g1 & T & _). eauto. }
    pose proof (loopA_eq (B.gen_all_trees_aux_rec eqb ord (S f)) (all_trees_aux (ord_nat ord) f) leaves triples IH
                  bins [] [] eq_refl TG Hne) as L.
    unfold loopA in L.
    match goal with
    | |- CGL (match ?X with B.Next _ => _ | B.Ret _ => _ | B.Fail _ => _ end) = _ =>
        match type of L with CFL ?Y = _ => change X with Y end
    end.
    match goal with |- CGL (match ?X with B.Next _ => _ | B.Ret _ => _ | B.Fail _ => _ end) = _ =>
      destruct X; cbn [CFL CGL] in *; rewrite L end;
      destruct (all_bins _ _ _ _); reflexivity.
Qed.

Theorem gen_all_trees_from_triples_eq_all (leaves : list A) (triples : list (A * A * A)) :
  CGL (B.gen_all_trees_from_triples eqb ord leaves triples) =
    CML (all_trees (ord_nat ord) (encs leaves) (map enct triples)).
Proof.
  pose proof (all_trees_no_fuel_error (ord_nat ord) (encs leaves) (map enct triples) (set_order_nat ord SO)) as NF.
  unfold all_trees in *. unfold B.gen_all_trees_from_triples.
  pose proof (gen_tree_from_triples_eq_all eqb enc Henc leaves triples) as E.
  destruct (tree_from_triples (encs leaves) (map enct triples)) as [o|e] eqn:ET; cbn [bind] in *;
    destruct (B.gen_tree_from_triples eqb leaves triples) as [o'|e']; cbn in E; try discriminate.
  - injection E as E. destruct o as [t|], o' as [t'|]; cbn in E; try discriminate; [|reflexivity].
    rewrite map_length in *. unfold B.gen_all_trees_aux.
    pose proof (all_rec_eq _ leaves triples NF) as R.
    destruct (B.gen_all_trees_aux_rec eqb ord (S (length leaves)) leaves triples); exact R.
  - injection E as <-. reflexivity.
Qed.

End Tie.

Print Assumptions all_trees_no_fuel_error.
Print Assumptions gen_all_trees_from_triples_eq_all.
