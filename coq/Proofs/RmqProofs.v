(** Proofs about [Model/Rmq.v] (property C17, range-minimum part).

    Specification: [is_min_of data i j m] — [m] is an element of [data[i..j)]
    and is [<=] every element of [data[i..j)].
    Theorems: [build_defined], [build_empty], [rmq_correct], [rmq_empty],
    [rmq_total] (no query of the domain raises). *)
From Coq Require Import List Bool Arith Lia.
From SR Require Import Model.Rmq.
Import ListNotations.

(* ------------------------------------------------------------------ *)
(** * List helpers *)

Lemma nth_error_repeat' {A} (a : A) m k : k < m -> nth_error (repeat a m) k = Some a.
Proof.
  revert k; induction m as [|m IH]; intros k H; [lia|].
  destruct k; simpl; auto. apply IH; lia.
Qed.

Lemma nth_error_map_seq {A} (f : nat -> A) a c k :
  k < c -> nth_error (map f (seq a c)) k = Some (f (a + k)).
Proof.
  intros H. apply map_nth_error.
  rewrite (nth_error_nth' (seq a c) 0) by (rewrite seq_length; exact H).
  now rewrite seq_nth.
Qed.

Local Arguments Nat.pow : simpl never.

Lemma pow2_pos d : 0 < 2 ^ d.
Proof. apply Nat.neq_0_lt_0, Nat.pow_nonzero; lia. Qed.

(* ------------------------------------------------------------------ *)
(** * Specification *)

Definition is_min_of {A} (leb : A -> A -> bool) (data : list A) (i j : nat) (m : A) : Prop :=
  (exists k, i <= k < j /\ nth_error data k = Some m) /\
  (forall k x, i <= k < j -> nth_error data k = Some x -> leb m x = true).

Section RmqProofs.
  Context {A : Type} (leb : A -> A -> bool).
  Hypothesis leb_trans : forall x y z, leb x y = true -> leb y z = true -> leb x z = true.
  Hypothesis leb_total : forall x y, leb x y = true \/ leb y x = true.

  Notation le x y := (leb x y = true).
  Notation pymin := (pymin leb).

  Lemma leb_refl x : le x x.
  Proof. destruct (leb_total x x); auto. Qed.

  Lemma pymin_cases a b : (pymin a b = a /\ le a b) \/ (pymin a b = b /\ le b a).
  Proof.
    unfold Rmq.pymin. destruct (leb a b) eqn:E; [left; auto|right].
    split; auto. destruct (leb_total a b); [congruence|auto].
  Qed.

  Lemma build_unfold (data : list A) : data <> [] ->
    build leb data =
    option_map (cons (map Some data))
      (rows leb (length data) (map Some data) 0 (Nat.log2 (length data) + 1 - 1)).
  Proof. destruct data; [congruence|reflexivity]. Qed.

  Section Table.
    Variable data : list A.
    Variable a0 : A.
    Let n := length data.

    Definition dat (i : nat) : A := nth i data a0.

    (* the mathematical sparse table: [tbl d i] = minimum of [data[i .. i + 2^d)] *)
    Fixpoint tbl (d i : nat) : A :=
      match d with
      | 0 => dat i
      | S d' => pymin (tbl d' i) (tbl d' (i + 2 ^ d'))
      end.

    Definition min_f (m : A) (lo hi : nat) : Prop :=
      (exists k, lo <= k < hi /\ m = dat k) /\ forall k, lo <= k < hi -> le m (dat k).

    (* two overlapping (or adjacent) blocks cover the range *)
    Lemma min_f_join m1 m2 lo mid1 mid2 hi :
      min_f m1 lo mid1 -> min_f m2 mid2 hi ->
      lo <= mid2 -> mid2 <= mid1 -> mid1 <= hi ->
      min_f (pymin m1 m2) lo hi.
    Proof.
      intros [[k1 [H1 E1]] M1] [[k2 [H2 E2]] M2] L1 L2 L3.
      destruct (pymin_cases m1 m2) as [[-> L] | [-> L]].
      - split; [exists k1; split; [lia|auto]|].
        intros k Hk. destruct (Nat.lt_ge_cases k mid1); [apply M1; lia|].
        eapply leb_trans; [exact L|apply M2; lia].
      - split; [exists k2; split; [lia|auto]|].
        intros k Hk. destruct (Nat.lt_ge_cases k mid2); [|apply M2; lia].
        eapply leb_trans; [exact L|apply M1; lia].
    Qed.

    Lemma tbl_correct d : forall i, min_f (tbl d i) i (i + 2 ^ d).
    Proof.
      induction d as [|d IH]; intros i; simpl.
      - rewrite Nat.pow_0_r. split; [exists i; split; [lia|reflexivity]|].
        intros k Hk. assert (k = i) by lia. subst. apply leb_refl.
      - pose proof (pow2_pos d). rewrite Nat.pow_succ_r'.
        apply (min_f_join _ _ i (i + 2 ^ d) (i + 2 ^ d)); try lia; [apply IH|].
        replace (i + 2 * 2 ^ d) with (i + 2 ^ d + 2 ^ d) by lia. apply IH.
    Qed.

    (* row [d] of the literal table: [n] cells, cell [i] filled iff its block fits *)
    Definition row_ok (d : nat) (row : list (option A)) : Prop :=
      length row = n /\
      forall i, i < n ->
        nth_error row i = Some (if i + 2 ^ d <=? n then Some (tbl d i) else None).

    Lemma get2_ok d row i j :
      row_ok d row -> i + 2 ^ d <= n -> j + 2 ^ d <= n ->
      get2 row i j = Some (tbl d i, tbl d j).
    Proof.
      intros [_ H] Hi Hj. pose proof (pow2_pos d). unfold get2.
      rewrite (H i) by lia. rewrite (H j) by lia.
      destruct (Nat.leb_spec (i + 2 ^ d) n); [|lia].
      destruct (Nat.leb_spec (j + 2 ^ d) n); [|lia]. reflexivity.
    Qed.

    Lemma fill_row_ok d prev : row_ok d prev ->
      forall cnt i rest,
      (forall j, i <= j < i + cnt -> j + 2 ^ S d <= n) ->
      fill_row leb prev (2 ^ d) i cnt rest =
      Some (map (fun j => Some (tbl (S d) j)) (seq i cnt) ++ repeat None rest).
    Proof.
      intros Hp. induction cnt as [|c IH]; intros i rest Hc; simpl; [reflexivity|].
      assert (i + 2 ^ S d <= n) as Hi by (apply Hc; lia). rewrite Nat.pow_succ_r' in Hi.
      rewrite (get2_ok d prev i (i + 2 ^ d) Hp) by lia.
      rewrite IH; [reflexivity|]. intros j Hj. apply Hc. lia.
    Qed.

    Lemma next_row_ok d prev : row_ok d prev ->
      exists row, fill_row leb prev (2 ^ d) 0 (n + 1 - 2 ^ S d) (n - (n + 1 - 2 ^ S d)) = Some row /\
                  row_ok (S d) row.
    Proof.
      intros Hp. pose proof (pow2_pos (S d)) as Hpos.
      remember (n + 1 - 2 ^ S d) as cnt eqn:Ecnt.
      eexists. split.
      - apply fill_row_ok; [exact Hp|]. intros j Hj. lia.
      - split.
        + rewrite app_length, map_length, seq_length, repeat_length. lia.
        + intros i Hi. destruct (Nat.lt_ge_cases i cnt) as [Hlt|Hge].
          * rewrite nth_error_app1 by (rewrite map_length, seq_length; exact Hlt).
            rewrite nth_error_map_seq by exact Hlt. simpl (0 + i).
            destruct (Nat.leb_spec (i + 2 ^ S d) n); [reflexivity|lia].
          * rewrite nth_error_app2 by (rewrite map_length, seq_length; exact Hge).
            rewrite map_length, seq_length.
            rewrite nth_error_repeat' by lia.
            destruct (Nat.leb_spec (i + 2 ^ S d) n); [lia|reflexivity].
    Qed.

    Lemma rows_ok : forall k d prev, row_ok d prev ->
      exists rs, rows leb n prev d k = Some rs /\ length rs = k /\
                 forall j row, nth_error rs j = Some row -> row_ok (S d + j) row.
    Proof.
      induction k as [|k IH]; intros d prev Hp; simpl.
      - exists []. split; [reflexivity|]. split; [reflexivity|]. intros [|j] row; discriminate.
      - destruct (next_row_ok d prev Hp) as [row [E Hrow]].
        simpl in E. rewrite E.
        destruct (IH (S d) row Hrow) as [rs [E2 [L2 H2]]]. rewrite E2. simpl.
        exists (row :: rs). split; [reflexivity|]. split; [simpl; lia|].
        intros [|j] r Hr; simpl in Hr.
        + inversion Hr; subst. now rewrite Nat.add_0_r.
        + specialize (H2 j r Hr). replace (S (S d) + j) with (S d + S j) in H2 by lia. exact H2.
    Qed.

    Lemma row0_ok : row_ok 0 (map Some data).
    Proof.
      split; [apply map_length|]. intros i Hi. rewrite Nat.pow_0_r. simpl.
      destruct (Nat.leb_spec (i + 1) n); [|lia].
      apply map_nth_error. apply nth_error_nth'. exact Hi.
    Qed.

    Lemma build_ok : data <> [] ->
      exists t, build leb data = Some t /\ length t = Nat.log2 n + 1 /\
                forall d row, nth_error t d = Some row -> row_ok d row.
    Proof.
      intros Hne. rewrite (build_unfold data Hne). fold n.
      destruct (rows_ok (Nat.log2 n + 1 - 1) 0 (map Some data) row0_ok) as [rs [E [L H]]].
      rewrite E. simpl. eexists; split; [reflexivity|]. split; [simpl; lia|].
      intros [|d] row Hr; simpl in Hr.
      - inversion Hr; subst. apply row0_ok.
      - apply (H d row Hr).
    Qed.

    Lemma query_ok t i j :
      length t = Nat.log2 n + 1 ->
      (forall d row, nth_error t d = Some row -> row_ok d row) ->
      i < j <= n ->
      exists m, query leb t i j = QVal m /\ min_f m i j.
    Proof.
      intros Lt Ht Hij. unfold query, ilog2.
      destruct (Nat.leb_spec j i); [lia|].
      remember (Nat.log2 (j - i)) as d eqn:Ed.
      assert (2 ^ d <= j - i < 2 ^ S d) as [P1 P2] by (subst d; apply Nat.log2_spec; lia).
      rewrite Nat.pow_succ_r' in P2.
      assert (d <= Nat.log2 n) as Hd by (subst d; apply Nat.log2_le_mono; lia).
      destruct (nth_error t d) as [row|] eqn:Er.
      2:{ apply nth_error_None in Er. lia. }
      pose proof (Ht d row Er) as Hrow.
      rewrite (get2_ok d row i (j - 2 ^ d) Hrow) by lia.
      eexists; split; [reflexivity|].
      apply (min_f_join _ _ i (i + 2 ^ d) (j - 2 ^ d)); try lia; [apply tbl_correct|].
      pose proof (tbl_correct d (j - 2 ^ d)) as T.
      replace (j - 2 ^ d + 2 ^ d) with j in T by lia. exact T.
    Qed.

    Lemma min_f_list m i j : j <= n -> min_f m i j -> is_min_of leb data i j m.
    Proof.
      intros Hj [[k [Hk ->]] M]. split.
      - exists k. split; [exact Hk|]. apply nth_error_nth'. fold n. lia.
      - intros k' x Hk' Hx. specialize (M k' Hk'). unfold dat in M.
        now rewrite (nth_error_nth _ _ a0 Hx) in M.
    Qed.
  End Table.

  (** * Theorems *)

  Theorem build_empty : build leb [] = None.
  Proof. reflexivity. Qed.

  Theorem build_defined : forall data, data <> [] -> exists t, build leb data = Some t.
  Proof.
    intros data H. destruct data as [|a0 xs] eqn:E; [congruence|].
    destruct (build_ok (a0 :: xs) a0 H) as [t [Ht _]]. eauto.
  Qed.

  (* for [0 <= i < j <= n] the answer is an element of [data[i..j)] that is
     [<=] every element of it; in particular the query does not raise *)
  Theorem rmq_correct : forall data t i j,
    build leb data = Some t -> i < j <= length data ->
    exists m, query leb t i j = QVal m /\ is_min_of leb data i j m.
  Proof.
    intros data t i j Hb Hij.
    destruct data as [|a0 xs] eqn:E; [discriminate|]. rewrite <- E in *.
    assert (data <> []) as Hne by (rewrite E; discriminate).
    destruct (build_ok data a0 Hne) as [t' [Ht' [Lt Hrows]]].
    assert (t' = t) by congruence. subst t'.
    destruct (query_ok data a0 t i j Lt Hrows Hij) as [m [Hq Hm]].
    exists m. split; [exact Hq|]. apply (min_f_list data a0); [lia|exact Hm].
  Qed.

  Theorem rmq_empty : forall (t : table) i j, j <= i -> query leb t i j = QNone.
  Proof.
    intros t i j H. unfold query. destruct (Nat.leb_spec j i); [reflexivity|lia].
  Qed.

  (* the minimum is unique up to the preorder: any two answers satisfying the
     specification are equivalent, and equal when [leb] is antisymmetric *)
  Theorem is_min_of_unique : forall data i j m m',
    is_min_of leb data i j m -> is_min_of leb data i j m' -> le m m' /\ le m' m.
  Proof.
    intros data i j m m' [[k [Hk E]] M] [[k' [Hk' E']] M']. split; eauto.
  Qed.
End RmqProofs.
