(** The model's [tree_from_triples] ([Model/Triples.v]) never runs out of fuel -- for ALL leaf lists
    and triple lists (duplicates, triples over foreign names, anything): the partition is built on a
    reachable [DisjointSet] (a [KeyError] ends the run), it has at least two non-empty groups when the
    loop is entered, so every group is strictly smaller than the leaf list.  Hence the equality of the
    generated [tree_from_triples] ([Gen/BuildGen.v]) with the model (Proofs/BuildGenProofs.v:
    [gen_tree_from_triples_eq]) holds UNCONDITIONALLY, and the generated function never returns
    [OutOfFuel] either. *)
From Coq Require Import List Bool Arith ZArith NArith Lia Permutation.
From SR Require Import Model.DisjointSet Model.Triples Proofs.DisjointSetProofs Proofs.TriplesProofs
  Proofs.BuildGenProofs.
From SR Require Gen.BuildGen.
Import ListNotations.
Module B := SR.Gen.BuildGen.

Lemma index_of_lt x l i : index_of x l = Some i -> i < length l.
Proof. intros H. apply nth_error_Some. rewrite (index_of_nth x l i H). discriminate. Qed.

(* the loop over the triples, whatever the triples are: a KeyError, or a reachable state *)
Lemma unite_triples_any leaves : forall ts ps d,
  reachable (length leaves) ps d ->
  unite_triples leaves ts d = Err KeyError \/
  exists d' ps', unite_triples leaves ts d = Ok d' /\ reachable (length leaves) ps' d'.
Proof.
  induction ts as [|[[a b] c] ts IH]; intros ps d H; simpl.
  - right. eauto.
  - unfold lookup.
    destruct (index_of a leaves) as [ia|] eqn:Ea; simpl; [|left; reflexivity].
    destruct (index_of b leaves) as [ib|] eqn:Eb; simpl; [|left; reflexivity].
    pose proof (index_of_lt _ _ _ Ea) as Ha. pose proof (index_of_lt _ _ _ Eb) as Hb.
    destruct (dsu_unite _ _ _ _ _ H Ha Hb) as (d1 & bo & U & _). rewrite U. simpl.
    apply (IH (ps ++ [(ia, ib)]) d1). eapply R_unite; eauto.
Qed.

Lemma build_groups_fuel rec leaves triples : forall gs acc,
  (forall g, In g gs -> (forall i, In i g -> i < length leaves) /\
                        rec (gl leaves g) (filter (inside (gl leaves g)) triples) <> Err OutOfFuel) ->
  build_groups rec leaves triples gs acc <> Err OutOfFuel.
Proof.
  induction gs as [|g gs IH]; intros acc H; simpl; [discriminate|].
  destruct (H g (or_introl eq_refl)) as [R N]. rewrite (get_all_ok leaves g R). simpl. fold (gl leaves g).
  destruct (rec (gl leaves g) (filter (inside (gl leaves g)) triples)) as [[s|]|e]; simpl.
  - apply IH. intros g' I. apply H. right. exact I.
  - discriminate.
  - intros X. apply N. exact X.
Qed.

Lemma build_no_fuel : forall fuel leaves triples,
  length leaves <= fuel -> build fuel leaves triples <> Err OutOfFuel.
Proof.
  induction fuel as [|f IH]; intros leaves triples L.
  - destruct leaves; [discriminate|simpl in L; lia].
  - destruct leaves as [|a [|b [|c rest]]]; try discriminate.
    remember (a :: b :: c :: rest) as leaves eqn:EL.
    assert (build (S f) leaves triples =
            (d <- unite_triples leaves triples (make (length leaves)) ;;
             if (len d <=? 1)%Z then Ok None
             else ' (_, gs) <- to_list d ;; build_groups (build f) leaves triples gs [])) as ->
      by (subst leaves; reflexivity).
    clear a b c rest EL.
    destruct (unite_triples_any leaves triples [] (make (length leaves)) (R_make _)) as [E|(d & ps & E & R)];
      rewrite E; simpl; [discriminate|].
    destruct (Z.leb_spec (len d) 1) as [Le|Gt]; [discriminate|].
    destruct (dsu_to_list _ _ _ R) as (d' & gs & T & P & Ln & _). rewrite T. simpl.
    pose proof P as (NE & ND & Cov & Q).
    assert (2 <= length gs) as L2 by lia.
    pose proof (partition_perm _ _ _ P) as PP.
    assert (length (concat gs) = length leaves) as LC
      by (rewrite (Permutation_length PP), seq_length; reflexivity).
    apply build_groups_fuel. intros g Ig. split.
    + intros i Ii. apply Cov. apply in_concat. eauto.
    + apply IH. unfold gl. rewrite map_length. pose proof (group_smaller gs g NE L2 Ig). lia.
Qed.

Theorem tree_from_triples_no_fuel_error (leaves : list nat) (triples : list triple) :
  tree_from_triples leaves triples <> Err OutOfFuel.
Proof. apply build_no_fuel. lia. Qed.

(* the tie of Proofs/BuildGenProofs.v without its hypothesis: for all leaf names (any type, any
   encoding under which [eqb] is equality), all leaf lists, all triple lists *)
Theorem gen_tree_from_triples_eq_all {A : Type} (eqb : A -> A -> bool) (enc : A -> nat)
    (Henc : forall a b, eqb a b = (enc a =? enc b)) (leaves : list A) (triples : list (A * A * A)) :
  CG enc (B.gen_tree_from_triples eqb leaves triples) =
    CM (tree_from_triples (map enc leaves) (map (enct enc) triples)).
Proof. apply (gen_tree_from_triples_eq eqb enc Henc). apply tree_from_triples_no_fuel_error. Qed.

Corollary gen_tree_from_triples_never_out_of_fuel {A : Type} (eqb : A -> A -> bool) (enc : A -> nat)
    (Henc : forall a b, eqb a b = (enc a =? enc b)) (leaves : list A) (triples : list (A * A * A)) :
  B.gen_tree_from_triples eqb leaves triples <> B.Err B.OutOfFuel.
Proof.
  intros H. pose proof (gen_tree_from_triples_eq_all eqb enc Henc leaves triples) as E. rewrite H in E.
  cbn in E. symmetry in E. revert E.
  destruct (tree_from_triples (map enc leaves) (map (enct enc) triples)) as [o|e] eqn:ET; cbn; [discriminate|].
  intros X. injection X as ->. exact (tree_from_triples_no_fuel_error _ _ ET).
Qed.

Theorem gen_tree_from_triples_nat_eq_all (leaves : list nat) (triples : list triple) :
  match B.gen_tree_from_triples Nat.eqb leaves triples with
  | B.Ok o => Ok o
  | B.Err e => Err (cerrB e)
  end = CM (tree_from_triples leaves triples).
Proof. apply gen_tree_from_triples_nat_eq. apply tree_from_triples_no_fuel_error. Qed.

(* runs: a triple over a foreign name raises KeyError in both; duplicate leaves are handled alike *)
Example gen_tree_from_triples_odd_inputs :
  B.gen_tree_from_triples Nat.eqb [0; 1; 2] [(0, 7, 2)] = B.Err B.KeyError /\
  tree_from_triples [0; 1; 2] [(0, 7, 2)] = Err KeyError /\
  B.gen_tree_from_triples Nat.eqb [0; 1; 1; 2] [(0, 1, 2)] =
    B.Ok (Some (emb (Node [Node [Leaf 0; Leaf 1]; Leaf 1; Leaf 2]))) /\
  tree_from_triples [0; 1; 1; 2] [(0, 1, 2)] = Ok (Some (Node [Node [Leaf 0; Leaf 1]; Leaf 1; Leaf 2])).
Proof. repeat split; vm_compute; reflexivity. Qed.

Print Assumptions tree_from_triples_no_fuel_error.
Print Assumptions gen_tree_from_triples_eq_all.
Print Assumptions gen_tree_from_triples_never_out_of_fuel.
Print Assumptions gen_tree_from_triples_nat_eq_all.
