(** Common definitions of the tie of [Gen/UspfsGen.v] (part 0 of Proofs/UspfsGenProofs.v). *)
From Coq Require Import List Bool Arith ZArith NArith Lia Permutation.
From SR Require Gen.UspfsGen Model.Recon Model.Uspfs Base.PathB Base.Ext Model.Entry Model.LcaRec Model.Thl Proofs.PathFacts Proofs.EntryProofs Proofs.EntryGenProofs Proofs.TableGenProofs Gen.EntryGen Gen.TableGen Gen.EvalGen Proofs.ThlProofs Proofs.UspfsProofs Proofs.ThlGenProofs Proofs.EvalGenProofs Gen.ThlGen Proofs.ReconProofs Proofs.LcaProofs.

Module Common.
Import SR.Base.PathB SR.Base.Ext SR.Model.Entry SR.Model.Recon SR.Model.LcaRec SR.Model.Thl SR.Model.Uspfs SR.Proofs.PathFacts SR.Proofs.EntryProofs SR.Proofs.EntryGenProofs SR.Proofs.TableGenProofs.
Import ListNotations.
Local Open Scope Z_scope.
Module UG := SR.Gen.UspfsGen.
Module TG := SR.Gen.TableGen.
Module EV := SR.Gen.EvalGen.
Module EG := SR.Gen.EntryGen.

(** * Kinds and tags: a kind of the model ([false] = LCA, [true] = INHERIT) as a member of the enum; [uassign] / [utag] of the
    model as [ObjectAssignment] / [ChildrenAssignment] of the code *)
Definition kind_of (b : bool) : UG.SyntenyAssignment := if b then UG.SyntenyAssignment_INHERIT else UG.SyntenyAssignment_LCA.
Definition kind_b (k : UG.SyntenyAssignment) : bool := match k with UG.SyntenyAssignment_LCA => false | UG.SyntenyAssignment_INHERIT => true end.
Lemma kind_b_of b : kind_b (kind_of b) = b. Proof. now destruct b. Qed.
Lemma kind_of_b k : kind_of (kind_b k) = k. Proof. now destruct k. Qed.
Lemma kind_eqb_of a b : UG.SyntenyAssignment_eqb (kind_of a) (kind_of b) = Bool.eqb a b.
Proof. now destruct a, b. Qed.

Notation oa := (@UG.ObjectAssignment path).
Notation ca := (@UG.ChildrenAssignment path).
Definition oa_of (a : uassign) : oa := UG.mk_ObjectAssignment (fst a) (kind_of (snd a)).
Definition tag_ca (t : utag) : ca := UG.mk_ChildrenAssignment (Some (oa_of (fst t))) (Some (oa_of (snd t))).

Lemma oa_eqb_of a b : UG.ObjectAssignment_eqb path_eqb (oa_of a) (oa_of b) = uassign_eqb a b.
Proof. unfold UG.ObjectAssignment_eqb, uassign_eqb, oa_of. cbn. now rewrite kind_eqb_of, andb_true_r. Qed.
Lemma ca_eqb_tag a b : UG.ChildrenAssignment_eqb path_eqb (tag_ca a) (tag_ca b) = utag_eqb a b.
Proof.
  unfold UG.ChildrenAssignment_eqb, utag_eqb, tag_ca. cbn [UG.ChildrenAssignment_left UG.ChildrenAssignment_right UG.option_eqb].
  now rewrite !oa_eqb_of, andb_true_r.
Qed.

(** * The table: three dictionary dimensions -- object node, species, kind *)
Section Table3.
  Context {node_id : Type} (nid_eqb : node_id -> node_id -> bool).
  Hypothesis nid_eqb_spec : forall a b, reflect (a = b) (nid_eqb a b).
  Notation key := (@UG.key path node_id).
  Notation keqb := (UG.key_eqb path_eqb nid_eqb).
  Notation tstate := (TG.table_state key ca).

  Lemma keqb_spec3 : forall a b : key, reflect (a = b) (keqb a b).
  Proof.
    intros [[x|x]|x] [[y|y]|y]; cbn; try (constructor; congruence).
    - destruct (nid_eqb_spec x y); constructor; congruence.
    - destruct (path_eqb_spec x y); constructor; congruence.
    - destruct x, y; cbn; constructor; congruence.
  Qed.

  Definition kn (n : node_id) : key := inl (inl n).
  Definition ks (s : path) : key := inl (inr s).
  Definition kk (b : bool) : key := inr (kind_of b).
  Definition ck3 (n : node_id) (s : path) (b : bool) : list key := [kn n; ks s; kk b].
  (** the entry [table[n][s][kind]] reads as *)
  Definition gsem3 (tb : tstate) (n : node_id) (s : path) (b : bool) : entry ca := sem keqb tb (ck3 n s b).
  (** the value [table[n][s][kind].value()] *)
  Definition sub_of (tb : tstate) (n : node_id) (k : uassign) : ext := val (gsem3 tb n (fst k) (snd k)).

  Definition inv3 (rp : ret) (tb : tstate) : Prop :=
    twf tb /\ length (TG.table_dimensions tb) = 3%nat /\ TG.table_merge_policy tb = EG.MergePolicy_MIN /\
    TG.table_retention_policy tb = prc rp.
End Table3.
End Common.

(* ====================================================================== *)
Module ModelO.
(** The cell computation of [Model/Uspfs.v] with the values of the child cells and the enumeration of the species taken
    as arguments. *)
Import SR.Base.PathB SR.Base.Ext SR.Model.Entry SR.Model.Recon SR.Model.LcaRec SR.Model.Thl SR.Model.Uspfs.
Import ListNotations.
Local Open Scope Z_scope.

Section CellO.
  Variables (S : stree) (c : costs) (rp : ret).

  (** the candidates one descendant species [d] contributes to the five aggregators of one child (tagged 0..4: left, right,
      conserved, segment, separate), for the parent placed at [s] with kind [kind] *)
  Definition uone_o (sub : uassign -> ext) (lossless : bool) (s : path) (kind : bool) (d : path)
      : list (nat * (ext * option uassign)) :=
    let sl := Fin (c_sloss c) in
    let lca_lca := if lossless then Fin 0 else sl in
    let lca_inh := if lossless then PInf else Fin 0 in
    let lc := sub (d, false) in
    let ic := sub (d, true) in
    let la := Some (d, false) in let ia := Some (d, true) in
    if anc s d then
      let above := Fin (dist s d * c_floss c) in
      let below := Fin (dist s d * c_floss c - c_floss c) in
      let cons base := if kind then [(ext_add (ext_add base lc) sl, la); (ext_add base ic, ia)]
                       else [(ext_add (ext_add base lc) lca_lca, la); (ext_add (ext_add base ic) lca_inh, ia)] in
      let seg := if kind then [(ext_add above lc, la); (ext_add above ic, ia)]
                 else [(ext_add above lc, la); (ext_add (ext_add above ic) lca_inh, ia)] in
      map (pair 2%nat) (cons above) ++ map (pair 3%nat) seg
      ++ (if sleaf S s then []
          else if anc (s ++ [false]) d then map (pair 0%nat) (cons below)
          else if anc (s ++ [true]) d then map (pair 1%nat) (cons below)
          else [])
    else if negb (anc d s) then
      map (pair 4%nat) (if kind then [(lc, la); (ic, ia)] else [(lc, la); (ext_add ic lca_inh, ia)])
    else [].

  Definition upick_o (i : nat) (all : list (nat * (ext * option uassign))) : list (ext * option uassign) :=
    map snd (filter (fun x => Nat.eqb (fst x) i) all).

  Definition uchoices_o (sub : uassign -> ext) (lossless : bool) (s : path) (kind : bool) (ds : list path) : uchoices :=
    let all := flat_map (uone_o sub lossless s kind) ds in
    {| uc_left := uaggp rp (upick_o 0%nat all); uc_right := uaggp rp (upick_o 1%nat all); uc_conserved := uaggp rp (upick_o 2%nat all);
       uc_segment := uaggp rp (upick_o 3%nat all); uc_separate := uaggp rp (upick_o 4%nat all) |}.

  Definition ubatch_o (subA subB : uassign -> ext) (la lb : bool) (s : path) (kind : bool) (ds : list path)
      : list (ext * option utag) :=
    let p0 := uchoices_o subA la s kind ds in
    let p1 := uchoices_o subB lb s kind ds in
    let spe := Fin (c_spe c) in let dup := Fin (c_dup c) in let hgt := c_hgt c in
    ucomb2 rp spe (uc_left p0) (uc_right p1) ++ ucomb2 rp spe (uc_right p0) (uc_left p1)
    ++ ucomb2 rp dup (uc_conserved p0) (uc_segment p1) ++ ucomb2 rp dup (uc_segment p0) (uc_conserved p1)
    ++ ucomb2 rp hgt (uc_conserved p0) (uc_separate p1) ++ ucomb2 rp hgt (uc_separate p0) (uc_conserved p1).

  Definition ucell_o (subA subB : uassign -> ext) (la lb : bool) (s : path) (kind : bool) (ds : list path) : entry utag :=
    ufirst_write rp (ubatch_o subA subB la lb s kind ds).

  Lemma uchild_choices_o_eq t ll s kind :
    uchild_choices S c rp t ll s kind = uchoices_o (fun k => val (uread t k)) ll s kind (snodes S).
  Proof. reflexivity. Qed.
  Lemma ucell_o_eq ta tb la lb s kind :
    ucell S c rp ta tb la lb s kind =
      ucell_o (fun k => val (uread ta k)) (fun k => val (uread tb k)) la lb s kind (snodes S).
  Proof. reflexivity. Qed.
End CellO.
End ModelO.

(* ====================================================================== *)
Module TableO.
(** Stage 3: the table of the solver for the enumeration orders of the code: what every object node ends up with. *)
Import SR.Base.PathB SR.Base.Ext SR.Model.Entry SR.Model.Recon SR.Model.LcaRec SR.Model.Thl SR.Model.Uspfs.
Import ModelO.
Import ListNotations.
Local Open Scope Z_scope.
Module EVo := SR.Gen.EvalGen.
Module UGo := SR.Gen.UspfsGen.

Section TableO.
  Context {node_id : Type}.
  Variables (S : stree) (c : costs) (rp : ret) (leafsp : node_id -> path).
  (** the species in the order of [traverse()] (level order) *)
  Variable lev : list path.
  (** the species the callback allows for an internal object node, in the order of the code *)
  Variable AS : EVo.TreeNode node_id -> list path.
  (** what [lca_sets[node]] reads as (only used through [<=]) *)
  Variable LS : node_id -> list fam.

  (** for an object node: the entry every cell [(species, kind)] reads as *)
  Fixpoint utab_o (t : EVo.TreeNode node_id) : uassign -> entry utag :=
    match t with
    | EVo.TreeNode_leaf i =>
        fun k => if uassign_eqb k (leafsp i, false) then {| val := Fin 0; tags := [] |} else default_entry MIN
    | EVo.TreeNode_node i a b =>
        let Ea := utab_o a in let Eb := utab_o b in
        let la := UGo.gset_subset N.eqb (LS i) (LS (EVo.TreeNode_id a)) in
        let lb := UGo.gset_subset N.eqb (LS i) (LS (EVo.TreeNode_id b)) in
        fun k => if existsb (path_eqb (fst k)) (AS t)
                 then ucell_o S c rp (fun k' => val (Ea k')) (fun k' => val (Eb k')) la lb (fst k) (snd k) lev
                 else default_entry MIN
    end.
End TableO.
End TableO.

(* ====================================================================== *)
Module Embed.
(** The species tree of the model as the tree of nodes the generated USPFS code walks ([UG.STree], identifiers = paths):
    the facts of [Proofs/ThlGenProofs.v] about [sembed] transported along the isomorphism of the two generated tree types. *)

Import SR.Base.PathB SR.Base.Ext SR.Model.Entry SR.Model.Recon SR.Model.Thl SR.Model.Uspfs SR.Proofs.PathFacts SR.Proofs.ThlGenProofs.

Import Common.
Module UG := SR.Gen.UspfsGen.
Import ListNotations.
Module T3 := SR.Gen.ThlGen.
Notation sid := (@UG.STree_id path).
(** the species node of the code stands for the species [s] of the species tree [S] *)
Definition rs_ok (S : stree) (rs : @UG.STree path) : Prop :=
  match rs with
  | UG.STree_leaf s => sleaf S s = true
  | UG.STree_node s L R => sleaf S s = false /\ sid L = s ++ [false] /\ sid R = s ++ [true]
  end.
Definition sids3 (l : list (@UG.STree path)) : list path := map sid l.

Fixpoint t2s (t : T3.STree path) : @UG.STree path :=
  match t with
  | T3.STree_leaf i => UG.STree_leaf i
  | T3.STree_node i a b => UG.STree_node i (t2s a) (t2s b)
  end.
Definition sembed3 (S : stree) (p : path) : @UG.STree path := t2s (sembed S p).

Lemma t2s_id t : UG.STree_id (t2s t) = T3.STree_id t.
Proof. destruct t; reflexivity. Qed.

Lemma zip_levels_map {X Y} (f : X -> Y) (a : list (list X)) : forall b,
  UG.zip_levels (map (map f) a) (map (map f) b) = map (map f) (T3.zip_levels a b).
Proof.
  induction a as [|x a IH]; intros b; [reflexivity|]. destruct b as [|y b]; [reflexivity|].
  cbn [map UG.zip_levels T3.zip_levels]. now rewrite IH, map_app.
Qed.
Lemma t2s_levels t : UG.STree_levels (t2s t) = map (map t2s) (T3.STree_levels t).
Proof.
  induction t as [i|i a IHa b IHb]; [reflexivity|]. cbn [t2s UG.STree_levels T3.STree_levels map].
  now rewrite IHa, IHb, zip_levels_map.
Qed.
Lemma t2s_levelorder t : UG.STree_levelorder (t2s t) = map t2s (T3.STree_levelorder t).
Proof. unfold UG.STree_levelorder, T3.STree_levelorder. now rewrite t2s_levels, concat_map. Qed.
Lemma t2s_postorder t : UG.STree_postorder (t2s t) = map t2s (T3.STree_postorder t).
Proof.
  induction t as [i|i a IHa b IHb]; [reflexivity|]. cbn [t2s UG.STree_postorder T3.STree_postorder].
  now rewrite IHa, IHb, !map_app.
Qed.

Lemma sids3_t2s l : sids3 (map t2s l) = ids l.
Proof. unfold sids3, ids. rewrite map_map. apply map_ext. intros x. apply t2s_id. Qed.

(** the level-order list of the code has exactly the species of [S] *)
Lemma lev_sameset S : sameset (sids3 (UG.STree_levelorder (sembed3 S []))) (snodes S).
Proof. unfold sembed3. rewrite t2s_levelorder, sids3_t2s. exact (sameset_snodes S). Qed.
Lemma post_sameset S : sameset (sids3 (UG.STree_postorder (sembed3 S []))) (snodes S).
Proof.
  unfold sembed3. rewrite t2s_postorder, sids3_t2s. intros y. rewrite <- (sameset_snodes S y). unfold sids, ids.
  rewrite !in_map_iff. split; intros [x [<- Hx]]; exists x; (split; [reflexivity|]).
  - apply In_levelorder. now apply In_postorder.
  - apply In_postorder. now apply In_levelorder.
Qed.
Lemma post_nodup S : NoDup (sids3 (UG.STree_postorder (sembed3 S []))).
Proof. unfold sembed3. rewrite t2s_postorder, sids3_t2s. apply postorder_ids_nodup. Qed.

(** every node of the embedding stands for its species: leaves for leaves, children with the child paths *)
Lemma sub_rs_ok S q S' : sub S q = Some S' -> rs_ok S (t2s (sembed S' q)).
Proof.
  intros H. destruct S' as [|l r]; cbn [sembed t2s rs_ok].
  - now apply sleaf_sub.
  - split; [|split; rewrite t2s_id; apply sembed_id].
    destruct (sleaf S q) eqn:E; [|reflexivity]. apply sleaf_sub in E. congruence.
Qed.
Lemma post_rs_ok S rs : In rs (UG.STree_postorder (sembed3 S [])) -> rs_ok S rs.
Proof.
  unfold sembed3. rewrite t2s_postorder, in_map_iff. intros [x [<- Hx]].
  apply In_postorder in Hx as [q [S' [Hs ->]]]. cbn [app]. now apply sub_rs_ok.
Qed.
Lemma lev_rs_ok S rs : In rs (UG.STree_levelorder (sembed3 S [])) -> rs_ok S rs.
Proof.
  unfold sembed3. rewrite t2s_levelorder, in_map_iff. intros [x [<- Hx]].
  apply In_levelorder in Hx as [q [S' [Hs ->]]]. cbn [app]. now apply sub_rs_ok.
Qed.
End Embed.
