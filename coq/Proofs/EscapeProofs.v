(** Specification and proofs for Model/Escape.v (C15). *)
From Coq Require Import String Ascii List Bool Arith Lia.
From SR Require Import Model.Escape.
Import ListNotations.

(** Specification: every character is rewritten on its own. *)
Definition esc_char (c : ascii) : str :=
  if Ascii.eqb c bs then [bs; bs] else if Ascii.eqb c us then [bs; us] else [c].

Definition escape_map (s : str) : str := flat_map esc_char s.

Lemma replace1_app : forall old new a b,
  replace1 old new (a ++ b) = replace1 old new a ++ replace1 old new b.
Proof.
  intros old new a b. induction a as [| c a IH]; simpl.
  - reflexivity.
  - rewrite IH, app_assoc. reflexivity.
Qed.

Lemma bs_neq_us : Ascii.eqb bs us = false.
Proof. reflexivity. Qed.

(** the two sequential [replace] calls equal the character-wise map: the second
    call finds no underscore in what the first one produced *)
Theorem escape_spec : forall s, escape s = escape_map s.
Proof.
  unfold escape, escape_map. induction s as [| c s IH]; simpl.
  - reflexivity.
  - rewrite replace1_app, IH. f_equal. unfold esc_char.
    destruct (Ascii.eqb_spec c bs) as [-> | Hb].
    + reflexivity.
    + simpl. destruct (Ascii.eqb c us); reflexivity.
Qed.

(** escaped text reads back: escaping is injective *)
Lemma unescape_esc_char : forall c r,
  unescape (esc_char c ++ r) = option_map (cons c) (unescape r).
Proof.
  intros c r. unfold esc_char.
  destruct (Ascii.eqb_spec c bs) as [-> | Hb].
  - reflexivity.
  - destruct (Ascii.eqb_spec c us) as [-> | Hu].
    + reflexivity.
    + simpl. destruct (Ascii.eqb_spec c bs) as [E | _]; [contradiction |].
      destruct (Ascii.eqb_spec c us) as [E | _]; [contradiction |]. reflexivity.
Qed.

Theorem unescape_escape : forall s, unescape (escape s) = Some s.
Proof.
  intro s. rewrite escape_spec. unfold escape_map.
  induction s as [| c s IH].
  - reflexivity.
  - change (flat_map esc_char (c :: s)) with (esc_char c ++ flat_map esc_char s).
    rewrite unescape_esc_char, IH. reflexivity.
Qed.

Theorem escape_injective : forall a b, escape a = escape b -> a = b.
Proof.
  intros a b H. pose proof (unescape_escape a) as Ha. rewrite H, unescape_escape in Ha.
  congruence.
Qed.

(** every underscore and backslash of the name is preceded by its own backslash,
    other characters are kept: the escaped text has one more character per special one *)
Theorem escape_length : forall s,
  length (escape s) = length s + length (filter (fun c => Ascii.eqb c bs || Ascii.eqb c us) s).
Proof.
  intro s. rewrite escape_spec. unfold escape_map. induction s as [| c s IH]; simpl.
  - reflexivity.
  - rewrite app_length, IH. unfold esc_char.
    destruct (Ascii.eqb c bs); simpl; [lia |].
    destruct (Ascii.eqb c us); simpl; lia.
Qed.

(** the order of the two calls matters: swapped, an underscore gets three characters *)
Example escape_swapped_refuted :
  escape_swapped [us] = [bs; bs; us] /\ escape [us] = [bs; us].
Proof. split; reflexivity. Qed.

(** escaping introduces no space and keeps the text non-empty: an escaped name is one word *)
Lemma escape_no_space : forall s, ~ In sp s -> ~ In sp (escape s).
Proof.
  intros s H. rewrite escape_spec. unfold escape_map. rewrite in_flat_map.
  intros [c [Hc Hin]]. unfold esc_char in Hin.
  destruct (Ascii.eqb c bs).
  - simpl in Hin. destruct Hin as [E | [E | []]]; discriminate E.
  - destruct (Ascii.eqb c us).
    + simpl in Hin. destruct Hin as [E | [E | []]]; discriminate E.
    + simpl in Hin. destruct Hin as [E | []]. subst. contradiction.
Qed.

Lemma escape_nonempty : forall s, s <> [] -> escape s <> [].
Proof.
  intros s H E. apply (f_equal (@length ascii)) in E. rewrite escape_length in E.
  destruct s; [contradiction | simpl in E; lia].
Qed.

Example escape_example :
  escape_s "a_b\c" = "a\_b\\c"%string /\ unescape (list_ascii_of_string "a\_b\\c") = Some (list_ascii_of_string "a_b\c").
Proof. split; reflexivity. Qed.
