(** Stage 1 of the tie of [Gen/UspfsGen.v] to [Model/Uspfs.v]: the gain sets and the LCA sets.
    [gen_compute_gain_sets] and [gen_compute_lca_sets] against the fields [u_gain] and [u_lca] of [annotate_top]. *)
From Coq Require Import List Bool Arith ZArith NArith Lia Permutation.
From SR Require Gen.UspfsGen Gen.EvalGen Model.Recon Model.Uspfs Base.PathB Proofs.PathFacts Proofs.UspfsProofs Proofs.EvalGenProofs Proofs.ThlGenProofs Proofs.UspfsGenCommon.

Module Stage1.
Import SR.Base.PathB SR.Model.Recon SR.Model.Uspfs SR.Proofs.PathFacts SR.Proofs.UspfsProofs SR.Proofs.EvalGenProofs.
Import ListNotations.
Module UG := SR.Gen.UspfsGen.
Module EV := SR.Gen.EvalGen.

(** * lists without repetition *)
Lemma nodup_app_inv {X} (a b : list X) : NoDup (a ++ b) -> NoDup a /\ NoDup b /\ (forall x, In x a -> ~ In x b).
Proof.
  induction a as [|x a IH]; cbn [app]; intros H.
  - split; [constructor|]. split; [exact H|]. intros x [].
  - inversion H as [|? ? Hx H']; subst. destruct (IH H') as [Ha [Hb D]]. split; [|split; [exact Hb|]].
    + constructor; [|exact Ha]. intros I. apply Hx. apply in_or_app. now left.
    + intros y [<-|Hy]; [|now apply D]. intros I. apply Hx. apply in_or_app. now right.
Qed.

(** * Python sets as duplicate-free lists *)
Section GSet.
  Context {X : Type} (xeqb : X -> X -> bool).
  Hypothesis xeqb_spec : forall a b, reflect (a = b) (xeqb a b).

  Lemma gset_mem_In x s : UG.gset_mem xeqb x s = true <-> In x s.
  Proof.
    induction s as [|y s IH]; cbn [UG.gset_mem In]; [split; [discriminate|tauto]|].
    rewrite orb_true_iff, IH. destruct (xeqb_spec x y) as [->|NE]; split; auto.
    - intros [H|H]; [discriminate|auto].
    - intros [H|H]; [congruence|auto].
  Qed.
  Lemma gset_mem_nIn x s : UG.gset_mem xeqb x s = false <-> ~ In x s.
  Proof. rewrite <- gset_mem_In. destruct (UG.gset_mem xeqb x s); split; congruence. Qed.

  Lemma In_gset_add x s y : In y (UG.gset_add xeqb x s) <-> y = x \/ In y s.
  Proof.
    unfold UG.gset_add. destruct (UG.gset_mem xeqb x s) eqn:E.
    - apply gset_mem_In in E. split; [auto|]. intros [->|H]; auto.
    - rewrite in_app_iff. cbn [In]. split; [intros [H|[H|[]]]; auto|intros [H|H]; auto].
  Qed.
  Lemma NoDup_gset_add x s : NoDup s -> NoDup (UG.gset_add xeqb x s).
  Proof.
    intros H. unfold UG.gset_add. destruct (UG.gset_mem xeqb x s) eqn:E; [exact H|].
    apply gset_mem_nIn in E. induction s as [|y s IH]; cbn [app].
    - constructor; [intros []|constructor].
    - inversion H as [|? ? Hy H']; subst. constructor.
      + rewrite in_app_iff. cbn [In]. intros [I|[I|[]]]; [auto|]. apply E. now left.
      + apply IH; [exact H'|]. intros I. apply E. now right.
  Qed.

  Lemma In_gset_fold l : forall a y, In y (fold_left (fun s x => UG.gset_add xeqb x s) l a) <-> In y a \/ In y l.
  Proof.
    induction l as [|x l IH]; intros a y; cbn [fold_left In]; [tauto|].
    rewrite IH, In_gset_add. split; [intros [[H|H]|H]; auto|intros [H|[H|H]]; auto].
  Qed.
  Lemma NoDup_gset_fold l : forall a, NoDup a -> NoDup (fold_left (fun s x => UG.gset_add xeqb x s) l a).
  Proof. induction l as [|x l IH]; intros a H; cbn [fold_left]; [exact H|]. apply IH. now apply NoDup_gset_add. Qed.

  Lemma In_gset_of_list l y : In y (UG.gset_of_list xeqb l) <-> In y l.
  Proof. unfold UG.gset_of_list. rewrite In_gset_fold. cbn [In]. tauto. Qed.
  Lemma NoDup_gset_of_list l : NoDup (UG.gset_of_list xeqb l).
  Proof. apply NoDup_gset_fold. constructor. Qed.
  Lemma In_gset_union a b y : In y (UG.gset_union xeqb a b) <-> In y a \/ In y b.
  Proof. apply In_gset_fold. Qed.
  Lemma NoDup_gset_union a b : NoDup a -> NoDup (UG.gset_union xeqb a b).
  Proof. apply NoDup_gset_fold. Qed.
  Lemma In_gset_diff a b y : In y (UG.gset_diff xeqb a b) <-> In y a /\ ~ In y b.
  Proof. unfold UG.gset_diff. rewrite filter_In, negb_true_iff, gset_mem_nIn. tauto. Qed.
  Lemma NoDup_gset_diff a b : NoDup a -> NoDup (UG.gset_diff xeqb a b).
  Proof. apply NoDup_filter. Qed.

  Lemma gset_subset_spec a b : UG.gset_subset xeqb a b = true <-> forall x, In x a -> In x b.
  Proof.
    unfold UG.gset_subset. rewrite forallb_forall. split; intros H x Hx.
    - apply gset_mem_In. now apply H.
    - apply gset_mem_In. now apply H.
  Qed.
End GSet.

(** [a <= b] of the code is [subset] of the model on lists with the same members *)
Lemma gset_subset_model (l1 l2 m1 m2 : list fam) :
  (forall f, In f l1 <-> In f m1) -> (forall f, In f l2 <-> In f m2) ->
  UG.gset_subset N.eqb l1 l2 = subset m1 m2.
Proof.
  intros H1 H2. apply eq_true_iff_eq. rewrite (gset_subset_spec N.eqb N.eqb_spec), subset_spec.
  split; intros H x Hx.
  - apply H2, H, H1, Hx.
  - apply H2, H, H1, Hx.
Qed.

(** * dictionaries as lists of stores, newest first *)
Section Dict.
  Context {K V : Type} (keqb : K -> K -> bool).
  Hypothesis keqb_spec : forall a b, reflect (a = b) (keqb a b).

  Lemma dict_get_cons_eq k v (d : list (K * V)) : UG.dict_get keqb ((k, v) :: d) k = Some v.
  Proof. cbn [UG.dict_get]. destruct (keqb_spec k k); [reflexivity|congruence]. Qed.
  Lemma dict_get_cons_ne k k' v (d : list (K * V)) : k <> k' -> UG.dict_get keqb ((k', v) :: d) k = UG.dict_get keqb d k.
  Proof. intros NE. cbn [UG.dict_get]. destruct (keqb_spec k k'); [congruence|reflexivity]. Qed.

  Lemma dict_get_app_in (d1 d2 : list (K * V)) k : In k (map fst d1) -> UG.dict_get keqb (d1 ++ d2) k = UG.dict_get keqb d1 k.
  Proof.
    induction d1 as [|[k' v] d1 IH]; cbn [map In app]; [intros []|]. intros H. cbn [UG.dict_get].
    destruct (keqb_spec k k') as [->|NE]; [reflexivity|]. apply IH. destruct H as [H|H]; [cbn in H; congruence|exact H].
  Qed.
  Lemma dict_get_app_notin (d1 d2 : list (K * V)) k : ~ In k (map fst d1) -> UG.dict_get keqb (d1 ++ d2) k = UG.dict_get keqb d2 k.
  Proof.
    induction d1 as [|[k' v] d1 IH]; cbn [map In app]; [reflexivity|]. intros H. cbn [UG.dict_get].
    destruct (keqb_spec k k') as [->|NE]; [exfalso; apply H; now left|]. apply IH. intros I. apply H. now right.
  Qed.
  Lemma dict_get_const (d : list (K * V)) v k : (forall x, In x d -> snd x = v) -> In k (map fst d) -> UG.dict_get keqb d k = Some v.
  Proof.
    induction d as [|[k' v'] d IH]; cbn [map In]; [intros _ []|]. intros Hv H. cbn [UG.dict_get].
    destruct (keqb_spec k k') as [->|NE].
    - f_equal. apply (Hv (k', v')). now left.
    - apply IH; [intros x Hx; apply Hv; now right|]. destruct H as [H|H]; [cbn in H; congruence|exact H].
  Qed.

  Lemma dict_gets8_2 (d : list (K * V)) k1 k2 :
    UG.dict_gets8 keqb d [k1; k2] =
      match UG.dict_get keqb d k1, UG.dict_get keqb d k2 with Some v1, Some v2 => Some [v1; v2] | _, _ => None end.
  Proof.
    assert (G : forall k (d' : list (K * V)),
      (fix get (d0 : list (K * V)) : option V :=
         match d0 with nil => None | cons (k', v) d0' => if keqb k k' then Some v else get d0' end) d' = UG.dict_get keqb d' k).
    { intros k d'. induction d' as [|[k' v] d' IH]; [reflexivity|]. cbn [UG.dict_get]. now rewrite IH. }
    cbn [UG.dict_gets8]. rewrite !G. destruct (UG.dict_get keqb d k1); [|reflexivity]. destruct (UG.dict_get keqb d k2); reflexivity.
  Qed.
End Dict.

(** * the object tree of the code: nodes addressed by paths *)
Section Tree.
  Context {node_id : Type} (nid_eqb : node_id -> node_id -> bool).
  Hypothesis nid_eqb_spec : forall a b, reflect (a = b) (nid_eqb a b).
  Notation tree := (EV.TreeNode node_id).
  Notation nid := (@EV.TreeNode_id node_id).
  Notation post := (@UG.TreeNode_postorder node_id).
  Notation ids l := (map (@EV.TreeNode_id node_id) l).

  (** the node at the path [p] ([false] = first child) *)
  Fixpoint nsub (t : tree) (p : path) {struct p} : option tree :=
    match p with
    | [] => Some t
    | b :: p' => match t with EV.TreeNode_node _ a c => nsub (if b then c else a) p' | EV.TreeNode_leaf _ => None end
    end.
  (** [i] is the identifier of the node of [t] at the path [p] *)
  Definition id_at (t : tree) (p : path) (i : node_id) : Prop := exists u, nsub t p = Some u /\ nid u = i.

  Lemma nsub_app t p q : nsub t (p ++ q) = match nsub t p with Some u => nsub u q | None => None end.
  Proof.
    revert t; induction p as [|b p IH]; intros t; [reflexivity|].
    destruct t as [i|i a c]; [reflexivity|]. cbn [app nsub]. apply IH.
  Qed.

  Lemma self_post (t : tree) : In t (post t).
  Proof. destruct t; cbn [UG.TreeNode_postorder]; [now left|]. rewrite !in_app_iff. right; right. now left. Qed.
  Lemma post_sub (t u v : tree) : In u (post t) -> In v (post u) -> In v (post t).
  Proof.
    induction t as [i|i a IHa b IHb]; cbn [UG.TreeNode_postorder]; intros Hu Hv.
    - destruct Hu as [<-|[]]. exact Hv.
    - rewrite !in_app_iff in *. destruct Hu as [Hu|[Hu|[<-|[]]]]; [left; eauto|right; left; eauto|].
      cbn [UG.TreeNode_postorder] in Hv. now rewrite !in_app_iff in Hv.
  Qed.
  Lemma nsub_post t : forall p u, nsub t p = Some u -> In u (post t).
  Proof.
    induction t as [i|i a IHa c IHc]; intros [|b p] u H; cbn [nsub] in H; try discriminate.
    - inversion H; subst. apply self_post.
    - inversion H; subst. apply self_post.
    - cbn [UG.TreeNode_postorder]. rewrite !in_app_iff. destruct b; [right; left; eauto|left; eauto].
  Qed.
  Lemma post_nsub t : forall u, In u (post t) -> exists p, nsub t p = Some u.
  Proof.
    induction t as [i|i a IHa c IHc]; intros u; cbn [UG.TreeNode_postorder].
    - intros [<-|[]]. now exists [].
    - rewrite !in_app_iff. intros [H|[H|[<-|[]]]].
      + destruct (IHa u H) as [p Hp]. now exists (false :: p).
      + destruct (IHc u H) as [p Hp]. now exists (true :: p).
      + now exists [].
  Qed.

  (** the level order has the same nodes *)
  Lemma In_zip_levels {Y} (a : list (list Y)) : forall b y, In y (concat (UG.zip_levels a b)) <-> In y (concat a) \/ In y (concat b).
  Proof.
    induction a as [|x a IH]; intros b y; cbn [UG.zip_levels concat]; [cbn [In]; tauto|].
    destruct b as [|z b]; cbn [concat]; [cbn [In]; tauto|]. rewrite !in_app_iff, IH. tauto.
  Qed.
  Lemma In_levelorder t : forall u, In u (UG.TreeNode_levelorder t) <-> In u (post t).
  Proof.
    unfold UG.TreeNode_levelorder. induction t as [i|i a IHa c IHc]; intros u; cbn [UG.TreeNode_levels UG.TreeNode_postorder concat].
    - cbn [app]. tauto.
    - cbn [app In]. rewrite In_zip_levels, IHa, IHc, !in_app_iff. cbn [In]. tauto.
  Qed.

  (** distinct identifiers: a node identifier determines the path *)
  Lemma nsub_id_inj t : NoDup (ids (post t)) ->
    forall p q u v, nsub t p = Some u -> nsub t q = Some v -> nid u = nid v -> p = q.
  Proof.
    induction t as [i|i a IHa c IHc]; intros ND p q u v Hu Hv E.
    - destruct p, q; cbn [nsub] in *; try discriminate. reflexivity.
    - cbn [UG.TreeNode_postorder] in ND. rewrite !map_app in ND. cbn [map] in ND.
      apply nodup_app_inv in ND as [NDa [ND D1]]. apply nodup_app_inv in ND as [NDc [_ D2]].
      assert (Ia : forall p' w, nsub a p' = Some w -> In (nid w) (ids (post a))) by (intros p' w H; apply in_map; eapply nsub_post; eauto).
      assert (Ic : forall p' w, nsub c p' = Some w -> In (nid w) (ids (post c))) by (intros p' w H; apply in_map; eapply nsub_post; eauto).
      destruct p as [|b p], q as [|b' q]; cbn [nsub] in Hu, Hv.
      + reflexivity.
      + exfalso. inversion Hu; subst. cbn [EV.TreeNode_id] in E. destruct b'.
        * apply (D2 i); [rewrite E; eauto|now left].
        * apply (D1 i); [rewrite E; eauto|]. apply in_or_app. right. now left.
      + exfalso. inversion Hv; subst. cbn [EV.TreeNode_id] in E. destruct b.
        * apply (D2 i); [rewrite <- E; eauto|now left].
        * apply (D1 i); [rewrite <- E; eauto|]. apply in_or_app. right. now left.
      + destruct b, b'.
        * f_equal. eapply IHc; eauto.
        * exfalso. apply (D1 (nid v)); [eauto|]. apply in_or_app. left. rewrite <- E. eauto.
        * exfalso. apply (D1 (nid u)); [eauto|]. apply in_or_app. left. rewrite E. eauto.
        * f_equal. eapply IHa; eauto.
  Qed.

  (** ** the model's object tree *)
  Variables (leafsp : node_id -> path) (syn : node_id -> list fam).
  Notation ot := (otree_of leafsp syn).

  Lemma osub_ot t : forall p, osub (ot t) p = option_map ot (nsub t p).
  Proof.
    induction t as [i|i a IHa c IHc]; intros [|b p]; cbn [otree_of osub nsub option_map]; try reflexivity.
    destruct b; [apply IHc|apply IHa].
  Qed.
  Lemma osub_ot_some t p u : nsub t p = Some u -> osub (ot t) p = Some (ot u).
  Proof. intros H. now rewrite osub_ot, H. Qed.

  Lemma carrier_at_ot t f q : carrier_at (ot t) f q <-> exists i, nsub t q = Some (EV.TreeNode_leaf i) /\ In f (syn i).
  Proof.
    unfold carrier_at. rewrite osub_ot. split.
    - intros [sp [sy [H I]]]. destruct (nsub t q) as [[i|i a c]|]; cbn [option_map otree_of] in H; try discriminate.
      inversion H; subst. now exists i.
    - intros [i [H I]]. rewrite H. cbn [option_map otree_of]. eauto.
  Qed.
End Tree.

(** * the longest common prefix of a non-empty list of paths *)
Fixpoint lcps (q : path) (qs : list path) {struct qs} : path :=
  match qs with [] => q | q' :: qs' => lcp q (lcps q' qs') end.

Lemma anc_lcp g a b : anc g (lcp a b) = true <-> anc g a = true /\ anc g b = true.
Proof.
  split.
  - intros H. split; [exact (is_prefix_trans _ _ _ H (lcp_prefix_l a b))|exact (is_prefix_trans _ _ _ H (lcp_prefix_r a b))].
  - intros [H1 H2]. now apply lcp_greatest.
Qed.
Lemma lcps_glb g qs : forall q, anc g (lcps q qs) = true <-> forall x, In x (q :: qs) -> anc g x = true.
Proof.
  induction qs as [|q' qs IH]; intros q; cbn [lcps].
  - split; [intros H x [<-|[]]; exact H|intros H; apply H; now left].
  - rewrite anc_lcp, IH. split.
    + intros [H1 H2] x [<-|Hx]; auto.
    + intros H. split; [apply H; now left|intros x Hx; apply H; now right].
Qed.

Lemma Forall2_In_l {A B} (R : A -> B -> Prop) l l' a : Forall2 R l l' -> In a l -> exists b, In b l' /\ R a b.
Proof.
  induction 1 as [|x y l l' Hxy _ IH]; intros I; [destruct I|]. destruct I as [<-|I].
  - exists y. split; [now left|exact Hxy].
  - destruct (IH I) as [b [Hb Rb]]. exists b. split; [now right|exact Rb].
Qed.
Lemma Forall2_In_r {A B} (R : A -> B -> Prop) l l' b : Forall2 R l l' -> In b l' -> exists a, In a l /\ R a b.
Proof.
  induction 1 as [|x y l l' Hxy _ IH]; intros I; [destruct I|]. destruct I as [<-|I].
  - exists x. split; [now left|exact Hxy].
  - destruct (IH I) as [a [Ha Ra]]. exists a. split; [now right|exact Ra].
Qed.
Lemma Forall2_exists {A B} (R : A -> B -> Prop) l : (forall a, In a l -> exists b, R a b) -> exists l', Forall2 R l l'.
Proof.
  induction l as [|a l IH]; intros H; [exists []; constructor|].
  destruct (H a (or_introl eq_refl)) as [b Hb]. destruct IH as [l' Hl']; [intros x Hx; apply H; now right|].
  exists (b :: l'). now constructor.
Qed.

Lemma assoc_unique {K V} (d : list (K * V)) k v v' : NoDup (map fst d) -> In (k, v) d -> In (k, v') d -> v = v'.
Proof.
  induction d as [|[k0 v0] d IH]; cbn [map In fst]; intros ND H1 H2; [destruct H1|]. inversion ND as [|? ? Hk ND']; subst.
  destruct H1 as [H1|H1], H2 as [H2|H2].
  - congruence.
  - exfalso. inversion H1; subst. apply Hk. change k with (fst (k, v')). now apply in_map.
  - exfalso. inversion H2; subst. apply Hk. change k with (fst (k, v)). now apply in_map.
  - now apply IH.
Qed.

(** * the hypotheses on the opaque arguments of the code *)
Section Hyps.
  Context {node_id olca : Type}.
  Notation tree := (EV.TreeNode node_id).
  Variables (olca_of : tree -> olca) (olca_call : olca -> list node_id -> node_id)
            (syn_items : (node_id -> list fam) -> list (node_id * list fam)) (node_order : list node_id -> list node_id).
  Variables (O : tree) (syn : node_id -> list fam).

  (** the nodes of the object tree are distinct objects *)
  Definition ids_distinct : Prop := NoDup (map (@EV.TreeNode_id node_id) (UG.TreeNode_postorder O)).
  (** the object-tree LCA structure answers with the lowest common ancestor (property C17): for a non-empty list of
      identifiers of nodes of [O], standing at the paths [q0 :: qs], the node at their longest common prefix *)
  Definition olca_ok : Prop := forall i0 l q0 qs,
    Forall2 (fun i q => id_at O q i) (i0 :: l) (q0 :: qs) -> id_at O (lcps q0 qs) (olca_call (olca_of O) (i0 :: l)).
  (** a set is iterated in some order *)
  Definition order_ok : Prop := forall l, Permutation l (node_order l).
  (** the items of [leaf_syntenies]: the keys are the leaves of [O]; the synteny of an item is that of its leaf, in some
      order and possibly with repetitions *)
  Definition items_ok : Prop :=
    (forall i, In i (map fst (syn_items syn)) <-> exists q, nsub O q = Some (EV.TreeNode_leaf i)) /\
    (forall i l, In (i, l) (syn_items syn) -> forall f, In f l <-> In f (syn i)).
End Hyps.

(** * [_compute_gain_sets] *)
Section Gain.
  Context {lca node_id olca : Type} (nid_eqb : node_id -> node_id -> bool).
  Hypothesis nid_eqb_spec : forall a b, reflect (a = b) (nid_eqb a b).
  Notation tree := (EV.TreeNode node_id).
  Notation nid := (@EV.TreeNode_id node_id).
  Notation post := (@UG.TreeNode_postorder node_id).
  Notation ids l := (map (@EV.TreeNode_id node_id) l).
  Variables (olca_of : tree -> olca) (olca_call : olca -> list node_id -> node_id)
            (syn_items : (node_id -> list fam) -> list (node_id * list fam)) (node_order : list node_id -> list node_id).
  Variables (O : tree) (lcaobj : lca) (leafsp : node_id -> path) (costs : EV.CostValues) (syn : node_id -> list fam).
  Notation ot := (otree_of leafsp syn).
  Notation dget := (UG.dict_get nid_eqb).
  Notation lbf := (list (fam * list node_id)).
  Notation for1 := (UG.gen_compute_gain_sets_for1 N.eqb nid_eqb).
  Notation for2 := (UG.gen_compute_gain_sets_for2 N.eqb nid_eqb).
  Notation for3 := (UG.gen_compute_gain_sets_for3 N.eqb nid_eqb olca_call node_order).

  (** ** the first loop: the leaves of every family *)
  Definition lbf_rel (d : lbf) (f : fam) (i : node_id) : Prop := exists ls, In (f, ls) d /\ In i ls.
  Definition lbf_wf (d : lbf) : Prop := NoDup (map fst d) /\ forall f ls, In (f, ls) d -> ls <> [].

  Lemma lbf_rel_cons k s d f i : lbf_rel ((k, s) :: d) f i <-> (f = k /\ In i s) \/ lbf_rel d f i.
  Proof.
    unfold lbf_rel. cbn [In]. split.
    - intros [ls [[H|H] I]]; [inversion H; subst; auto|right; eauto].
    - intros [[-> I]|[ls [H I]]]; [exists s; auto|exists ls; auto].
  Qed.
  Lemma lbf_rel_nil f i : lbf_rel [] f i <-> False.
  Proof. unfold lbf_rel. cbn [In]. split; [intros [ls [[] _]]|intros []]. Qed.

  Lemma ddict_add8_rel d k x f i :
    lbf_rel (UG.ddict_add8 N.eqb nid_eqb d k x) f i <-> lbf_rel d f i \/ (f = k /\ i = x).
  Proof.
    induction d as [|[k' s] d IH]; cbn [UG.ddict_add8].
    - rewrite lbf_rel_cons, !lbf_rel_nil. cbn [In]. intuition congruence.
    - destruct (N.eqb_spec k k') as [->|NE].
      + rewrite !lbf_rel_cons, (In_gset_add nid_eqb nid_eqb_spec). tauto.
      + rewrite !lbf_rel_cons, IH. tauto.
  Qed.
  Lemma ddict_add8_keys d k x k0 :
    In k0 (map fst (UG.ddict_add8 N.eqb nid_eqb d k x)) <-> k0 = k \/ In k0 (map fst d).
  Proof.
    induction d as [|[k' s] d IH]; cbn [UG.ddict_add8 map In fst].
    - split; [intros [H|[]]; auto|intros [H|[]]; auto].
    - destruct (N.eqb_spec k k') as [->|NE]; cbn [map In fst]; [|rewrite IH]; split; intuition congruence.
  Qed.
  Lemma ddict_add8_wf d k x : lbf_wf d -> lbf_wf (UG.ddict_add8 N.eqb nid_eqb d k x).
  Proof.
    intros [ND NE]. split.
    - clear NE. induction d as [|[k' s] d IH]; cbn [UG.ddict_add8 map fst].
      + constructor; [intros []|constructor].
      + cbn [map fst] in ND. inversion ND as [|? ? Hk ND']; subst.
        destruct (N.eqb_spec k k') as [->|NEk]; cbn [map fst]; [now constructor|].
        constructor; [|now apply IH]. rewrite ddict_add8_keys. intros [H|H]; [congruence|auto].
    - clear ND. induction d as [|[k' s] d IH]; cbn [UG.ddict_add8].
      + intros f ls [H|[]]. inversion H; subst. discriminate.
      + destruct (N.eqb_spec k k') as [->|NEk].
        * intros f ls [H|H]; [|apply (NE f ls); now right]. inversion H; subst. intros E.
          assert (I : In x (UG.gset_add nid_eqb x s)) by (apply (In_gset_add nid_eqb nid_eqb_spec); now left).
          rewrite E in I. destruct I.
        * intros f ls [H|H]; [apply (NE f ls); now left|]. revert f ls H. apply IH. intros f ls H. apply (NE f ls). now right.
  Qed.

  Lemma for2_spec leaf : forall l d, exists d', for2 leaf l d = UG.Next d' /\ (lbf_wf d -> lbf_wf d') /\
    forall f i, lbf_rel d' f i <-> lbf_rel d f i \/ (In f l /\ i = leaf).
  Proof.
    induction l as [|x l IH]; intros d; cbn [UG.gen_compute_gain_sets_for2].
    - exists d. split; [reflexivity|]. split; [auto|]. intros f i. cbn [In]. tauto.
    - cbv zeta. destruct (IH (UG.ddict_add8 N.eqb nid_eqb d x leaf)) as [d' [E [W R]]]. exists d'. split; [exact E|]. split.
      + intros Hd. apply W. now apply ddict_add8_wf.
      + intros f i. rewrite R, ddict_add8_rel. cbn [In]. intuition congruence.
  Qed.
  Lemma for1_spec : forall its d, exists d', for1 its d = UG.Next d' /\ (lbf_wf d -> lbf_wf d') /\
    forall f i, lbf_rel d' f i <-> lbf_rel d f i \/ exists l, In (i, l) its /\ In f l.
  Proof.
    induction its as [|[leaf l] its IH]; intros d; cbn [UG.gen_compute_gain_sets_for1].
    - exists d. split; [reflexivity|]. split; [auto|]. intros f i. split; [auto|]. intros [H|[l [[] _]]]. exact H.
    - destruct (for2_spec leaf l d) as [d1 [E1 [W1 R1]]]. rewrite E1.
      destruct (IH d1) as [d' [E [W R]]]. exists d'. split; [exact E|]. split; [auto|].
      intros f i. rewrite R, R1. cbn [In]. split.
      + intros [[H|[H ->]]|[l' [H I]]]; [auto|right; exists l; auto|right; exists l'; auto].
      + intros [H|[l' [[H|H] I]]]; [auto| |right; eauto]. inversion H; subst. auto.
  Qed.

  (** ** the second loop: every family goes to the LCA of its leaves *)
  Notation tgt ls := (olca_call (olca_of O) (node_order ls)).

  Lemma for3_spec : forall (its : lbf) r, (forall f ls, In (f, ls) its -> dget r (tgt ls) <> None) ->
    exists r', for3 (olca_of O) its r = UG.Next r' /\
      forall i l, dget r i = Some l -> exists l', dget r' i = Some l' /\ (NoDup l -> NoDup l') /\
        forall f, In f l' <-> In f l \/ exists ls, In (f, ls) its /\ tgt ls = i.
  Proof.
    induction its as [|[f0 ls0] its IH]; intros r Hk; cbn [UG.gen_compute_gain_sets_for3].
    - exists r. split; [reflexivity|]. intros i l H. exists l. split; [exact H|]. split; [auto|].
      intros f. split; [auto|]. intros [I|[ls [[] _]]]. exact I.
    - cbv zeta. destruct (dget r (tgt ls0)) as [t2|] eqn:E2; [|exfalso; apply (Hk f0 ls0); [now left|exact E2]].
      remember ((tgt ls0, UG.gset_add N.eqb f0 t2) :: r) as r1 eqn:Er1.
      destruct (IH r1) as [r' [E R]].
      { intros f ls H. subst r1. destruct (nid_eqb_spec (tgt ls) (tgt ls0)) as [Eq|NE].
        - rewrite Eq, (dict_get_cons_eq nid_eqb nid_eqb_spec). discriminate.
        - rewrite (dict_get_cons_ne nid_eqb nid_eqb_spec _ _ _ _ NE). apply (Hk f ls). now right. }
      exists r'. split; [exact E|]. intros i l H.
      destruct (nid_eqb_spec i (tgt ls0)) as [Eq|NE].
      + assert (l = t2) by congruence. subst l.
        destruct (R i (UG.gset_add N.eqb f0 t2)) as [l' [G [ND I]]].
        { subst r1. rewrite Eq. apply (dict_get_cons_eq nid_eqb nid_eqb_spec). }
        exists l'. split; [exact G|]. split; [intros N0; apply ND; now apply (NoDup_gset_add N.eqb N.eqb_spec)|].
        intros f. rewrite I, (In_gset_add N.eqb N.eqb_spec). cbn [In]. split.
        * intros [[->|H1]|[ls [H1 H2]]]; [right; exists ls0; split; [now left|now symmetry]|auto|right; exists ls; auto].
        * intros [H1|[ls [[H1|H1] H2]]]; [auto| |right; eauto]. inversion H1; subst. auto.
      + destruct (R i l) as [l' [G [ND I]]].
        { subst r1. now rewrite (dict_get_cons_ne nid_eqb nid_eqb_spec _ _ _ _ NE). }
        exists l'. split; [exact G|]. split; [exact ND|]. intros f. rewrite I. cbn [In]. split.
        * intros [H1|[ls [H1 H2]]]; [auto|right; exists ls; auto].
        * intros [H1|[ls [[H1|H1] H2]]]; [auto| |right; eauto]. inversion H1; subst. congruence.
  Qed.
  (** ** the LCA of the leaves of a family is the gain node of the model *)
  Hypothesis Hdist : ids_distinct O.
  Hypothesis Holca : olca_ok olca_of olca_call O.
  Hypothesis Horder : order_ok node_order.
  Hypothesis Hitems : items_ok syn_items O syn.

  Lemma id_at_inj p q i : id_at O p i -> id_at O q i -> p = q.
  Proof. intros [u [Hu Eu]] [v [Hv Ev]]. apply (nsub_id_inj O Hdist p q u v Hu Hv). congruence. Qed.

  Lemma is_lca_unique (T : otree) f p q : is_lca_of_carriers T f p -> is_lca_of_carriers T f q -> p = q.
  Proof. intros [_ [A1 G1]] [_ [A2 G2]]. apply is_prefix_antisym; [apply G2, A1|apply G1, A2]. Qed.

  Lemma tgt_spec (d : lbf) f ls : lbf_wf d ->
    (forall f i, lbf_rel d f i <-> exists l, In (i, l) (syn_items syn) /\ In f l) ->
    In (f, ls) d -> exists g, id_at O g (tgt ls) /\ is_lca_of_carriers (ot O) f g.
  Proof.
    intros [NDk NE] R Hin. destruct Hitems as [Hkeys Hval].
    (* the members of [ls]: the leaves carrying [f] *)
    assert (M : forall i, In i ls <-> exists q, nsub O q = Some (EV.TreeNode_leaf i) /\ In f (syn i)).
    { intros i. split.
      - intros Hi. assert (Hr : lbf_rel d f i) by (exists ls; auto). apply R in Hr as [l [Hl Hf]].
        assert (Hk : In i (map fst (syn_items syn))) by (change i with (fst (i, l)); now apply in_map).
        apply Hkeys in Hk as [q Hq]. exists q. split; [exact Hq|]. now apply (Hval i l Hl).
      - intros [q [Hq Hf]]. assert (Hk : In i (map fst (syn_items syn))) by (apply Hkeys; eauto).
        apply in_map_iff in Hk as [[i' l] [Ei Hl]]. cbn [fst] in Ei. subst i'.
        assert (Hr : lbf_rel d f i) by (apply R; exists l; split; [exact Hl|now apply (Hval i l Hl)]).
        destruct Hr as [ls' [H1 H2]]. now rewrite (assoc_unique d f ls ls' NDk Hin H1). }
    pose proof (Horder ls) as P.
    destruct (node_order ls) as [|i0 l'] eqn:Eno.
    { apply Permutation_sym, Permutation_nil in P. exfalso. now apply (NE f ls Hin). }
    assert (M' : forall i, In i (i0 :: l') <-> exists q, nsub O q = Some (EV.TreeNode_leaf i) /\ In f (syn i)).
    { intros i. rewrite <- M. split; [apply Permutation_in; now apply Permutation_sym|now apply Permutation_in]. }
    destruct (Forall2_exists (fun i q => id_at O q i) (i0 :: l')) as [qs F].
    { intros i Hi. apply M' in Hi as [q [Hq _]]. exists q, (EV.TreeNode_leaf i). auto. }
    destruct qs as [|q0 qs]; [inversion F|].
    exists (lcps q0 qs). split; [now apply Holca|].
    assert (C : forall x, In x (q0 :: qs) <-> carrier_at (ot O) f x).
    { intros x. rewrite carrier_at_ot. split.
      - intros Hx. destruct (Forall2_In_r _ _ _ x F Hx) as [i [Hi Hid]]. apply M' in Hi as [q [Hq Hf]].
        exists i. split; [|exact Hf]. assert (x = q) as -> by (apply (id_at_inj x q i Hid); exists (EV.TreeNode_leaf i); auto).
        exact Hq.
      - intros [i [Hq Hf]]. assert (Hi : In i (i0 :: l')) by (apply M'; eauto).
        destruct (Forall2_In_l _ _ _ i F Hi) as [x' [Hx' Hid]].
        assert (x = x') as -> by (apply (id_at_inj x x' i); [exists (EV.TreeNode_leaf i); auto|exact Hid]). exact Hx'. }
    split; [|split].
    - exists q0. apply C. now left.
    - intros q Hq. apply C in Hq. revert q Hq. apply lcps_glb. apply is_prefix_refl.
    - intros p' Hp'. apply lcps_glb. intros x Hx. apply Hp'. now apply C.
  Qed.

  (** ** theorem 1: [_compute_gain_sets] never fails; every node is a key; its set is the gain set of the model *)
  Theorem gen_compute_gain_sets_spec :
    exists g, UG.gen_compute_gain_sets N.eqb nid_eqb olca_of olca_call syn_items node_order (EV.mk_sin O lcaobj leafsp costs syn) = UG.Ok g /\
      forall p u, nsub O p = Some u ->
        exists l ua, UG.dict_get nid_eqb g (EV.TreeNode_id u) = Some l /\
          usub (annotate_top (ot O)) p = Some ua /\ NoDup l /\ (forall f, In f l <-> In f (u_gain ua)) /\
          Permutation l (u_gain ua).
  Proof.
    unfold UG.gen_compute_gain_sets. cbn [EV.sin_leaf_syntenies EV.sin_object_tree]. cbv zeta.
    destruct (for1_spec (syn_items syn) []) as [d [E1 [W R]]]. rewrite E1.
    assert (Wd : lbf_wf d) by (apply W; split; [constructor|intros f ls []]).
    assert (Rd : forall f i, lbf_rel d f i <-> exists l, In (i, l) (syn_items syn) /\ In f l).
    { intros f i. rewrite R, lbf_rel_nil. tauto. }
    remember (rev (map (fun node' : tree => (nid node', @nil N)) (UG.TreeNode_levelorder O))) as r0 eqn:Er0.
    assert (K0 : forall p u, nsub O p = Some u -> dget r0 (nid u) = Some (@nil N)).
    { intros p u Hu. subst r0. apply (dict_get_const nid_eqb nid_eqb_spec).
      - intros x Hx. apply in_rev, in_map_iff in Hx as [n [<- _]]. reflexivity.
      - rewrite map_rev, <- in_rev, map_map. cbn [fst]. apply in_map. apply In_levelorder. eapply nsub_post; eauto. }
    destruct (for3_spec d r0) as [r' [E3 R3]].
    { intros f ls Hin. destruct (tgt_spec d f ls Wd Rd Hin) as [g [[u [Hu Eu]] _]]. rewrite <- Eu, (K0 g u Hu). discriminate. }
    rewrite E3. exists r'. split; [reflexivity|]. intros p u Hu.
    destruct (R3 (nid u) [] (K0 p u Hu)) as [l [G [ND I]]].
    destruct (gain_lca_sets_spec (ot O) p (ot u) (osub_ot_some leafsp syn O p u Hu)) as [ua [Hua [_ [Sg [_ [Ig _]]]]]].
    assert (Il : forall f, In f l <-> In f (u_gain ua)).
    { intros f. rewrite I, Ig. cbn [In]. split.
      - intros [[]|[ls [Hin Et]]]. destruct (tgt_spec d f ls Wd Rd Hin) as [g [Hg Lg]].
        assert (g = p) as <- by (apply (id_at_inj g p (tgt ls) Hg); exists u; auto). exact Lg.
      - intros L. right. destruct L as [[q Cq] L']. pose proof Cq as Cq'. apply carrier_at_ot in Cq' as [i [Hq Hf]].
        destruct Hitems as [Hkeys Hval].
        assert (Hk : In i (map fst (syn_items syn))) by (apply Hkeys; eauto).
        apply in_map_iff in Hk as [[i' l0] [Ei Hl]]. cbn [fst] in Ei. subst i'.
        assert (Hr : lbf_rel d f i) by (apply Rd; exists l0; split; [exact Hl|now apply (Hval i l0 Hl)]).
        destruct Hr as [ls [Hin _]]. exists ls. split; [exact Hin|].
        destruct (tgt_spec d f ls Wd Rd Hin) as [g [[v [Hv Ev]] Lg]].
        assert (g = p) as -> by (apply (is_lca_unique (ot O) f g p Lg); split; [eauto|exact L']).
        congruence. }
    exists l, ua. split; [exact G|]. split; [exact Hua|]. split; [apply ND; constructor|]. split; [exact Il|].
    apply NoDup_Permutation; [apply ND; constructor|now apply ssorted_NoDup|exact Il].
  Qed.
End Gain.
Print Assumptions gen_compute_gain_sets_spec.

(** * [_compute_lca_sets] *)
Section Lca.
  Context {lca node_id : Type} (nid_eqb : node_id -> node_id -> bool).
  Hypothesis nid_eqb_spec : forall a b, reflect (a = b) (nid_eqb a b).
  Notation tree := (EV.TreeNode node_id).
  Notation nid := (@EV.TreeNode_id node_id).
  Notation post := (@UG.TreeNode_postorder node_id).
  Notation ids l := (map (@EV.TreeNode_id node_id) l).
  Variables (O : tree) (lcaobj : lca) (leafsp : node_id -> path) (costs : EV.CostValues) (syn : node_id -> list fam).
  Notation ot := (otree_of leafsp syn).
  Notation dget := (UG.dict_get nid_eqb).
  Notation sin := (EV.mk_sin O lcaobj leafsp costs syn).
  Notation lfor1 := (UG.gen_compute_lca_sets_for1 N.eqb nid_eqb sin).

  Section Loop.
    Variable total : fam -> nat.
    Variable g : list (node_id * list N).
    Notation an u := (annotate total (ot u)).

    Definition gain_ok (t : tree) : Prop :=
      forall u, In u (post t) -> exists l, dget g (nid u) = Some l /\ forall f, In f l <-> In f (u_gain (an u)).

    (** the post-order loop over a subtree: one store for each of its nodes, the recursion of [annotate] *)
    Lemma lca_loop t : NoDup (ids (post t)) -> gain_ok t -> forall rest r,
      exists rt, lfor1 g (post t ++ rest) r = lfor1 g rest (rt ++ r) /\ map fst rt = rev (ids (post t)) /\
        forall u, In u (post t) -> exists l, dget rt (nid u) = Some l /\ NoDup l /\ forall f, In f l <-> In f (u_lca (an u)).
    Proof.
      induction t as [i|i a IHa b IHb]; intros ND G rest r.
      - exists [(i, UG.gset_of_list N.eqb (syn i))]. split; [reflexivity|]. split; [reflexivity|].
        intros u [<-|[]]. exists (UG.gset_of_list N.eqb (syn i)). split; [apply (dict_get_cons_eq nid_eqb nid_eqb_spec)|].
        split; [apply (NoDup_gset_of_list N.eqb N.eqb_spec)|]. intros f. cbn [otree_of annotate u_lca].
        now rewrite (In_gset_of_list N.eqb N.eqb_spec), In_set_of.
      - pose proof ND as ND0. cbn [UG.TreeNode_postorder] in ND. rewrite !map_app in ND. cbn [map EV.TreeNode_id] in ND.
        apply nodup_app_inv in ND as [NDa [ND D1]]. apply nodup_app_inv in ND as [NDb [_ D2]].
        assert (Ga : gain_ok a).
        { intros u Hu. apply G. cbn [UG.TreeNode_postorder]. apply in_or_app. now left. }
        assert (Gb : gain_ok b).
        { intros u Hu. apply G. cbn [UG.TreeNode_postorder]. apply in_or_app. right. apply in_or_app. now left. }
        cbn [UG.TreeNode_postorder]. rewrite <- !app_assoc.
        destruct (IHa NDa Ga (post b ++ [EV.TreeNode_node i a b] ++ rest) r) as [ra [Ea [Ka Ma]]]. rewrite Ea.
        destruct (IHb NDb Gb ([EV.TreeNode_node i a b] ++ rest) (ra ++ r)) as [rb [Eb [Kb Mb]]]. rewrite Eb.
        cbn [app UG.gen_compute_lca_sets_for1 EV.TreeNode_is_leaf UG.TreeNode_children8 map EV.TreeNode_id].
        rewrite !(dict_gets8_2 nid_eqb).
        (* the keys *)
        assert (Ia : forall u, In u (post a) -> In (nid u) (map fst ra)) by (intros u Hu; rewrite Ka, <- in_rev; now apply in_map).
        assert (Ib : forall u, In u (post b) -> In (nid u) (map fst rb)) by (intros u Hu; rewrite Kb, <- in_rev; now apply in_map).
        assert (Nab : forall u, In u (post a) -> ~ In (nid u) (map fst rb)).
        { intros u Hu. rewrite Kb, <- in_rev. intros I. apply (D1 (nid u)); [now apply in_map|]. apply in_or_app. now left. }
        assert (Nai : forall u, In u (post a) -> nid u <> i).
        { intros u Hu E. apply (D1 (nid u)); [now apply in_map|]. apply in_or_app. right. left. now symmetry. }
        assert (Nbi : forall u, In u (post b) -> nid u <> i).
        { intros u Hu E. apply (D2 (nid u)); [now apply in_map|]. left. now symmetry. }
        destruct (Ma a (self_post a)) as [la [Gla [NDla Ila]]]. destruct (Mb b (self_post b)) as [lb [Glb [NDlb Ilb]]].
        rewrite (dict_get_app_notin nid_eqb nid_eqb_spec rb (ra ++ r) (nid a) (Nab a (self_post a))).
        rewrite (dict_get_app_in nid_eqb nid_eqb_spec ra r (nid a) (Ia a (self_post a))), Gla.
        rewrite (dict_get_app_in nid_eqb nid_eqb_spec rb (ra ++ r) (nid b) (Ib b (self_post b))), Glb.
        destruct (Ga a (self_post a)) as [ga [Gga Iga]]. destruct (Gb b (self_post b)) as [gb [Ggb Igb]].
        rewrite Gga, Ggb. cbn [fold_left].
        remember (UG.gset_diff N.eqb (UG.gset_diff N.eqb (UG.gset_union N.eqb (UG.gset_union N.eqb [] la) lb) ga) gb) as val eqn:Eval.
        exists ((i, val) :: rb ++ ra). split; [cbn [app]; now rewrite <- app_assoc|]. split.
        { cbn [map fst]. rewrite map_app, Ka, Kb, !map_app, !rev_app_distr. reflexivity. }
        intros u Hu. cbn [UG.TreeNode_postorder] in Hu. rewrite !in_app_iff in Hu. destruct Hu as [Hu|[Hu|[<-|[]]]].
        + rewrite (dict_get_cons_ne nid_eqb nid_eqb_spec _ _ _ _ (Nai u Hu)).
          rewrite (dict_get_app_notin nid_eqb nid_eqb_spec rb ra (nid u) (Nab u Hu)). now apply Ma.
        + rewrite (dict_get_cons_ne nid_eqb nid_eqb_spec _ _ _ _ (Nbi u Hu)).
          rewrite (dict_get_app_in nid_eqb nid_eqb_spec rb ra (nid u) (Ib u Hu)). now apply Mb.
        + exists val. split; [apply (dict_get_cons_eq nid_eqb nid_eqb_spec)|]. split.
          * subst val. apply NoDup_gset_diff, NoDup_gset_diff.
            apply (NoDup_gset_union N.eqb N.eqb_spec), (NoDup_gset_union N.eqb N.eqb_spec). constructor.
          * intros f. subst val. cbn [otree_of annotate u_lca]. cbv zeta.
            rewrite !(In_gset_diff N.eqb N.eqb_spec), !(In_gset_union N.eqb N.eqb_spec), In_set_diff, !In_set_union.
            rewrite Ila, Ilb, Iga, Igb. cbn [In]. tauto.
    Qed.
  End Loop.

  (** ** theorem 2: [_compute_lca_sets] on any dictionary of the gain sets never fails; every node is a key; its set is the
      LCA set of the model *)
  Theorem gen_compute_lca_sets_spec (g : list (node_id * list fam)) :
    ids_distinct O ->
    (forall p u, nsub O p = Some u ->
       exists l ua, UG.dict_get nid_eqb g (EV.TreeNode_id u) = Some l /\ usub (annotate_top (ot O)) p = Some ua /\
         forall f, In f l <-> In f (u_gain ua)) ->
    exists r, UG.gen_compute_lca_sets N.eqb nid_eqb (EV.mk_sin O lcaobj leafsp costs syn) g = UG.Ok r /\
      forall p u, nsub O p = Some u ->
        exists l ua, UG.dict_get nid_eqb r (EV.TreeNode_id u) = Some l /\
          usub (annotate_top (ot O)) p = Some ua /\ NoDup l /\ (forall f, In f l <-> In f (u_lca ua)) /\
          Permutation l (u_lca ua).
  Proof.
    intros Hdist Hg. unfold UG.gen_compute_lca_sets. cbn [EV.sin_object_tree]. cbv zeta.
    assert (An : forall p u, nsub O p = Some u -> usub (annotate_top (ot O)) p = Some (annotate (ototal (ot O)) (ot u))).
    { intros p u Hu. apply usub_annotate. now apply osub_ot_some. }
    assert (G : gain_ok (ototal (ot O)) g O).
    { intros u Hu. apply post_nsub in Hu as [p Hp]. destruct (Hg p u Hp) as [l [ua [Hl [Hua Il]]]].
      rewrite (An p u Hp) in Hua. inversion Hua; subst ua. eauto. }
    destruct (lca_loop (ototal (ot O)) g O Hdist G [] []) as [rt [E [_ M]]].
    rewrite app_nil_r in E. rewrite E. cbn [UG.gen_compute_lca_sets_for1]. rewrite app_nil_r.
    exists rt. split; [reflexivity|]. intros p u Hu.
    destruct (M u (nsub_post O p u Hu)) as [l [Gl [ND Il]]].
    exists l, (annotate (ototal (ot O)) (ot u)). split; [exact Gl|]. split; [now apply An|]. split; [exact ND|]. split; [exact Il|].
    apply NoDup_Permutation; [exact ND|apply ssorted_NoDup, ssorted_u_lca|exact Il].
  Qed.
End Lca.
Print Assumptions gen_compute_lca_sets_spec.

(** * both together, and what the table stage reads: [lca_sets[parent] <= lca_sets[child]] *)
Section Final.
  Context {lca node_id olca : Type} (nid_eqb : node_id -> node_id -> bool).
  Hypothesis nid_eqb_spec : forall a b, reflect (a = b) (nid_eqb a b).
  Notation tree := (EV.TreeNode node_id).
  Notation nid := (@EV.TreeNode_id node_id).
  Variables (olca_of : tree -> olca) (olca_call : olca -> list node_id -> node_id)
            (syn_items : (node_id -> list fam) -> list (node_id * list fam)) (node_order : list node_id -> list node_id).
  Variables (O : tree) (lcaobj : lca) (leafsp : node_id -> path) (costs : EV.CostValues) (syn : node_id -> list fam).
  Notation ot := (otree_of leafsp syn).
  Notation dget := (UG.dict_get nid_eqb).
  Notation sin := (EV.mk_sin O lcaobj leafsp costs syn).
  Notation gains := (UG.gen_compute_gain_sets N.eqb nid_eqb olca_of olca_call syn_items node_order sin).
  Notation lcas := (UG.gen_compute_lca_sets N.eqb nid_eqb sin).

  Hypothesis Hdist : ids_distinct O.
  Hypothesis Holca : olca_ok olca_of olca_call O.
  Hypothesis Horder : order_ok node_order.
  Hypothesis Hitems : items_ok syn_items O syn.

  (** theorem 3: the two dictionaries [_uspfs] computes first: both calls succeed, every node of the object tree is a key
      of both, and its two sets are the gain set and the LCA set of the model's annotation *)
  Theorem gain_lca_sets_code :
    exists g r, gains = UG.Ok g /\ lcas g = UG.Ok r /\
      forall p u, nsub O p = Some u ->
        exists lg ll ua, dget g (nid u) = Some lg /\ dget r (nid u) = Some ll /\
          usub (annotate_top (ot O)) p = Some ua /\ NoDup lg /\ NoDup ll /\
          (forall f, In f lg <-> In f (u_gain ua)) /\ (forall f, In f ll <-> In f (u_lca ua)) /\
          Permutation lg (u_gain ua) /\ Permutation ll (u_lca ua).
  Proof.
    destruct (gen_compute_gain_sets_spec nid_eqb nid_eqb_spec olca_of olca_call syn_items node_order O lcaobj leafsp costs syn
                Hdist Holca Horder Hitems) as [g [Eg Mg]].
    destruct (gen_compute_lca_sets_spec nid_eqb nid_eqb_spec O lcaobj leafsp costs syn g Hdist) as [r [Er Mr]].
    { intros p u Hu. destruct (Mg p u Hu) as [l [ua [H1 [H2 [_ [H3 _]]]]]]. exists l, ua. auto. }
    exists g, r. split; [exact Eg|]. split; [exact Er|]. intros p u Hu.
    destruct (Mg p u Hu) as [lg [ua [G1 [U1 [N1 [I1 P1]]]]]]. destruct (Mr p u Hu) as [ll [ua' [G2 [U2 [N2 [I2 P2]]]]]].
    assert (ua' = ua) by congruence. subst ua'. exists lg, ll, ua. repeat (split; [assumption|]). assumption.
  Qed.

  (** the test [lca_sets[parent] <= lca_sets[child]] of the table stage is [subset] on the model's annotation *)
  Theorem lca_sets_subset_code g r : gains = UG.Ok g -> lcas g = UG.Ok r ->
    forall p i a b, nsub O p = Some (EV.TreeNode_node i a b) ->
      exists li la lb lu gu ua ub,
        dget r i = Some li /\ dget r (nid a) = Some la /\ dget r (nid b) = Some lb /\
        usub (annotate_top (ot O)) p = Some (UNode lu gu ua ub) /\
        UG.gset_subset N.eqb li la = subset lu (u_lca ua) /\
        UG.gset_subset N.eqb li lb = subset lu (u_lca ub).
  Proof.
    intros Eg Er p i a b Hu. destruct gain_lca_sets_code as [g' [r' [Eg' [Er' M]]]].
    assert (g' = g) by congruence. subst g'. assert (r' = r) by congruence. subst r'.
    assert (Ha : nsub O (p ++ [false]) = Some a) by (rewrite nsub_app, Hu; reflexivity).
    assert (Hb : nsub O (p ++ [true]) = Some b) by (rewrite nsub_app, Hu; reflexivity).
    destruct (M _ _ Hu) as [_ [li [ui [_ [Gi [Ui [_ [_ [_ [Ii _]]]]]]]]]].
    destruct (M _ _ Ha) as [_ [la [ua [_ [Ga [Ua [_ [_ [_ [Ia _]]]]]]]]]].
    destruct (M _ _ Hb) as [_ [lb [ub [_ [Gb [Ub [_ [_ [_ [Ib _]]]]]]]]]].
    unfold annotate_top in *.
    rewrite (usub_annotate _ p (ot O) _ (osub_ot_some leafsp syn O p _ Hu)) in Ui.
    rewrite (usub_annotate _ _ (ot O) _ (osub_ot_some leafsp syn O _ _ Ha)) in Ua.
    rewrite (usub_annotate _ _ (ot O) _ (osub_ot_some leafsp syn O _ _ Hb)) in Ub.
    inversion Ui; subst ui. inversion Ua; subst ua. inversion Ub; subst ub. clear Ui Ua Ub.
    cbn [EV.TreeNode_id] in Gi. cbn [otree_of annotate u_lca] in Ii. cbv zeta in Ii.
    eexists li, la, lb, _, _, _, _. split; [exact Gi|]. split; [exact Ga|]. split; [exact Gb|]. split.
    - rewrite (usub_annotate _ p (ot O) _ (osub_ot_some leafsp syn O p _ Hu)). cbn [otree_of annotate]. cbv zeta. reflexivity.
    - split; apply gset_subset_model; assumption.
  Qed.
End Final.
Print Assumptions gset_subset_model.
Print Assumptions gain_lca_sets_code.
Print Assumptions lca_sets_subset_code.

(** * a concrete instance: all hypotheses proved, the generated code run *)
Module Example1.
  (** identifiers are numbers: root 0 = (1 = (leaf 2, leaf 3), leaf 4); family 1 is carried by the leaves 2 and 3 (gained at
      the internal node 1, below the root), family 2 by the leaves 2 and 4 (gained at the root), family 3 by the leaf 3 *)
  Definition O1 : EV.TreeNode nat :=
    EV.TreeNode_node 0 (EV.TreeNode_node 1 (EV.TreeNode_leaf 2) (EV.TreeNode_leaf 3)) (EV.TreeNode_leaf 4).
  Definition syn1 (i : nat) : list fam :=
    match i with 2 => [1%N; 2%N] | 3 => [3%N; 1%N] | 4 => [2%N] | _ => [] end.
  Definition leafsp1 (i : nat) : path := match i with 2 => [false] | 3 => [false] | _ => [true] end.
  Definition costs1 : EV.CostValues := EV.mk_CostValues 0 1 (SR.Base.Ext.Fin 1) 1 1.
  (** the items of the dictionary in an order of their own, the syntenies reversed or with repetitions *)
  Definition items1 (s : nat -> list fam) : list (nat * list fam) := [(4, s 4 ++ s 4); (2, rev (s 2)); (3, rev (s 3) ++ s 3)].
  Definition order1 (l : list nat) : list nat := rev l.
  (** the LCA structure, computed on paths *)
  Definition path_of1 (i : nat) : path :=
    match i with 0 => [] | 1 => [false] | 2 => [false; false] | 3 => [false; true] | _ => [true] end.
  Definition id_of1 (p : path) : nat :=
    match p with [] => 0 | [false] => 1 | [false; false] => 2 | [false; true] => 3 | _ => 4 end.
  Definition olca_call1 (_ : unit) (l : list nat) : nat :=
    match map path_of1 l with [] => 0 | q :: qs => id_of1 (lcps q qs) end.
  Definition sin1 : EV.sin_state fam path unit nat := EV.mk_sin O1 tt leafsp1 costs1 syn1.
  Definition gains1 := UG.gen_compute_gain_sets N.eqb Nat.eqb (fun _ => tt) olca_call1 items1 order1 sin1.
  Definition lcas1 := UG.gen_compute_lca_sets N.eqb Nat.eqb sin1.

  Lemma nid_eqb1_spec : forall a b : nat, reflect (a = b) (Nat.eqb a b).
  Proof. exact Nat.eqb_spec. Qed.

  Lemma ids_distinct1 : ids_distinct O1.
  Proof. unfold ids_distinct. cbn. repeat (constructor; [cbn; intuition discriminate|]). constructor. Qed.

  Lemma order_ok1 : order_ok order1.
  Proof. intros l. apply Permutation_rev. Qed.

  Lemma items_ok1 : items_ok items1 O1 syn1.
  Proof.
    split.
    - intros i. cbn [items1 map fst In]. split.
      + intros [<-|[<-|[<-|[]]]]; [now exists [true]|now exists [false; false]|now exists [false; true]].
      + intros [q Hq]. destruct q as [|[] [|[] [|? ?]]]; cbn in Hq; try discriminate; inversion Hq; auto.
    - intros i l. cbn [items1 In]. intros [H|[H|[H|[]]]]; inversion H; subst; intros f; cbn; intuition congruence.
  Qed.

  Lemma id_at1 q i : id_at O1 q i -> path_of1 i = q.
  Proof.
    intros [u [Hu <-]]. destruct q as [|[] [|[] [|? ?]]]; cbn in Hu; try discriminate; inversion Hu; reflexivity.
  Qed.
  Lemma id_at1_prefix p q i : id_at O1 q i -> anc p q = true -> id_at O1 p (id_of1 p).
  Proof.
    intros [u [Hu _]] A. unfold id_at.
    destruct q as [|[] [|[] [|? ?]]]; cbn in Hu; try discriminate;
      destruct p as [|[] [|[] [|? ?]]]; cbn in A; try discriminate; eexists; split; reflexivity.
  Qed.

  Lemma olca_ok1 : olca_ok (fun _ => tt) olca_call1 O1.
  Proof.
    intros i0 l q0 qs F. unfold olca_call1.
    assert (E : forall l' qs', Forall2 (fun i q => id_at O1 q i) l' qs' -> map path_of1 l' = qs').
    { induction 1 as [|x y l' qs' Hxy _ IH]; [reflexivity|]. cbn [map]. now rewrite IH, (id_at1 y x Hxy). }
    rewrite (E _ _ F). inversion F as [|? ? ? ? H0 _]; subst.
    apply (id_at1_prefix (lcps q0 qs) q0 i0 H0). apply (lcps_glb (lcps q0 qs) qs q0); [apply is_prefix_refl|now left].
  Qed.

  (** the theorems apply *)
  Example gain_lca_sets_code1 :
    exists g r, gains1 = UG.Ok g /\ lcas1 g = UG.Ok r /\
      forall p u, nsub O1 p = Some u ->
        exists lg ll ua, UG.dict_get Nat.eqb g (EV.TreeNode_id u) = Some lg /\ UG.dict_get Nat.eqb r (EV.TreeNode_id u) = Some ll /\
          usub (annotate_top (otree_of leafsp1 syn1 O1)) p = Some ua /\ NoDup lg /\ NoDup ll /\
          (forall f, In f lg <-> In f (u_gain ua)) /\ (forall f, In f ll <-> In f (u_lca ua)) /\
          Permutation lg (u_gain ua) /\ Permutation ll (u_lca ua).
  Proof.
    exact (gain_lca_sets_code Nat.eqb nid_eqb1_spec (fun _ => tt) olca_call1 items1 order1 O1 tt leafsp1 costs1 syn1
             ids_distinct1 olca_ok1 order_ok1 items_ok1).
  Qed.

  (** the generated code, run: the dictionaries as lists of stores, newest first *)
  Example gains1_run :
    gains1 = UG.Ok [(3, [3%N]); (1, [1%N]); (0, [2%N]); (3, []); (2, []); (4, []); (1, []); (0, [])].
  Proof. vm_compute. reflexivity. Qed.
  Example lcas1_run : forall g, gains1 = UG.Ok g ->
    lcas1 g = UG.Ok [(0, [2%N]); (4, [2%N]); (1, [1%N; 2%N]); (3, [3%N; 1%N]); (2, [1%N; 2%N])].
  Proof. intros g E. rewrite gains1_run in E. inversion E; subst g. vm_compute. reflexivity. Qed.
  (** the model's annotation: (LCA set, gain set) at every node; family 1 is gained at the internal node [false] *)
  Example annotate1_run :
    annotate_top (otree_of leafsp1 syn1 O1) =
      UNode [2%N] [2%N]
        (UNode [1%N; 2%N] [1%N] (ULeaf [false] [1%N; 2%N] []) (ULeaf [false] [1%N; 3%N] [3%N]))
        (ULeaf [true] [2%N] []).
  Proof. vm_compute. reflexivity. Qed.

  (** node by node, the sets of the code against those of the model (as sets: the orders differ at the leaf 3) *)
  Definition same_set (a b : list fam) : bool := subset a b && subset b a.
  Definition agree_at (g r : list (nat * list fam)) (p : path) : bool :=
    match nsub O1 p, usub (annotate_top (otree_of leafsp1 syn1 O1)) p with
    | Some u, Some ua =>
        match UG.dict_get Nat.eqb g (EV.TreeNode_id u), UG.dict_get Nat.eqb r (EV.TreeNode_id u) with
        | Some lg, Some ll => same_set lg (u_gain ua) && same_set ll (u_lca ua)
        | _, _ => false
        end
    | _, _ => false
    end.
  Example agree1 :
    match gains1 with
    | UG.Ok g => match lcas1 g with
                 | UG.Ok r => forallb (agree_at g r) [[]; [false]; [false; false]; [false; true]; [true]]
                 | UG.Err _ => false
                 end
    | UG.Err _ => false
    end = true.
  Proof. vm_compute. reflexivity. Qed.

  (** the test of the table stage: the LCA set of the root is within those of both its children and that of the node 1
      within that of the leaf 2; as a counter-check, that of the node 1 is not within that of the leaf 4 *)
  Example subset1 : forall g r, gains1 = UG.Ok g -> lcas1 g = UG.Ok r ->
    exists l0 l1 l2 l4,
      UG.dict_get Nat.eqb r 0 = Some l0 /\ UG.dict_get Nat.eqb r 1 = Some l1 /\ UG.dict_get Nat.eqb r 2 = Some l2 /\
      UG.dict_get Nat.eqb r 4 = Some l4 /\
      UG.gset_subset N.eqb l0 l1 = true /\ UG.gset_subset N.eqb l0 l4 = true /\ UG.gset_subset N.eqb l1 l2 = true /\
      UG.gset_subset N.eqb l1 l4 = false.
  Proof.
    intros g r Eg Er. rewrite (lcas1_run g Eg) in Er. inversion Er; subst r. repeat eexists.
  Qed.
End Example1.
Print Assumptions Example1.gain_lca_sets_code1.
Print Assumptions Example1.agree1.

End Stage1.
