(** Proofs about [Model/Euler.v] (property C17, ancestry part).

    Specification, on root paths: ancestor = [prefix], lowest common ancestor
    = longest common prefix [lcp] (of a list: [lcp_list]), level = [length],
    distance = [|p| + |q| - 2 |lcp p q|]; [valid t p] says that [p] addresses a
    node of [t].
    Main theorems: [make_defined], [euler_lca], [is_ancestor_prefix],
    [is_strict_ancestor_prefix], [comparable_iff], [level_length],
    [distance_formula], [tuple_min_never_compares_nodes]. *)
From Coq Require Import List Bool Arith ZArith Lia.
From SR Require Import Model.Rmq Model.Euler Proofs.RmqProofs.
Import ListNotations.

(* ------------------------------------------------------------------ *)
(** * Specification *)

Definition prefix (a b : path) : Prop := exists c, b = a ++ c.

Fixpoint is_prefix (a b : path) : bool :=
  match a, b with
  | [], _ => true
  | x :: a', y :: b' => Nat.eqb x y && is_prefix a' b'
  | _ :: _, [] => false
  end.

Fixpoint lcp (a b : path) : path :=
  match a, b with
  | x :: a', y :: b' => if Nat.eqb x y then x :: lcp a' b' else []
  | _, _ => []
  end.

(* longest common prefix of the non-empty list [p :: rest] *)
Definition lcp_list (p : path) (rest : list path) : path := fold_left lcp rest p.

Fixpoint valid (t : rose) (p : path) : bool :=
  match p with
  | [] => true
  | k :: p' =>
      match t with
      | Node cs => match nth_error cs k with Some c => valid c p' | None => false end
      end
  end.

(* ------------------------------------------------------------------ *)
(** * Paths *)

Lemma path_eqb_spec a b : reflect (a = b) (path_eqb a b).
Proof.
  revert b; induction a as [|x a IH]; intros [|y b]; simpl; try (constructor; congruence).
  destruct (Nat.eqb_spec x y); simpl.
  - subst. destruct (IH b); constructor; congruence.
  - constructor. congruence.
Qed.

Lemma path_eqb_refl a : path_eqb a a = true.
Proof. destruct (path_eqb_spec a a); congruence. Qed.

Lemma is_prefix_spec a b : is_prefix a b = true <-> prefix a b.
Proof.
  unfold prefix. revert b; induction a as [|x a IH]; intros b; simpl.
  - split; eauto.
  - destruct b as [|y b].
    + split; [discriminate|intros [c H]; discriminate].
    + rewrite andb_true_iff, IH, Nat.eqb_eq. split.
      * intros [-> [c ->]]. eauto.
      * intros [c H]; inversion H; subst. eauto.
Qed.

Lemma prefix_refl a : prefix a a.
Proof. exists []; now rewrite app_nil_r. Qed.
Lemma prefix_trans a b c : prefix a b -> prefix b c -> prefix a c.
Proof. intros [x ->] [y ->]. exists (x ++ y). now rewrite app_assoc. Qed.
Lemma prefix_app a b : prefix a (a ++ b).
Proof. now exists b. Qed.
Lemma prefix_length a b : prefix a b -> length a <= length b.
Proof. intros [c ->]. rewrite app_length. lia. Qed.
Lemma prefix_length_eq a b : prefix a b -> length b <= length a -> a = b.
Proof.
  intros [c ->]. rewrite app_length. intros H. destruct c; [now rewrite app_nil_r|simpl in H; lia].
Qed.
Lemma prefix_antisym a b : prefix a b -> prefix b a -> a = b.
Proof. intros H1 H2. apply prefix_length_eq; auto. now apply prefix_length. Qed.

Lemma lcp_app p a b : lcp (p ++ a) (p ++ b) = p ++ lcp a b.
Proof. induction p as [|x p IH]; simpl; auto. now rewrite Nat.eqb_refl, IH. Qed.
Lemma lcp_nil_r a : lcp a [] = [].
Proof. destruct a; reflexivity. Qed.
Lemma lcp_prefix_l p x : prefix p x -> lcp p x = p.
Proof. intros [c ->]. rewrite <- (app_nil_r p) at 1. rewrite lcp_app. simpl. now rewrite app_nil_r. Qed.
Lemma lcp_prefix_r p x : prefix p x -> lcp x p = p.
Proof. intros [c ->]. rewrite <- (app_nil_r p) at 2. rewrite lcp_app, lcp_nil_r. now rewrite app_nil_r. Qed.
Lemma lcp_diverge p k k' a b : k <> k' -> lcp (p ++ k :: a) (p ++ k' :: b) = p.
Proof. intros H. rewrite lcp_app. simpl. apply Nat.eqb_neq in H. rewrite H. now rewrite app_nil_r. Qed.
Lemma lcp_same a : lcp a a = a.
Proof. apply lcp_prefix_l, prefix_refl. Qed.

Lemma lcp_is_prefix_l a b : prefix (lcp a b) a.
Proof.
  revert b; induction a as [|x a IH]; intros [|y b]; simpl; try (exists []; reflexivity); try (eexists; reflexivity).
  destruct (Nat.eqb x y); [|eexists; reflexivity].
  destruct (IH b) as [c Hc]. exists c. simpl. now rewrite <- Hc.
Qed.
Lemma lcp_is_prefix_r a b : prefix (lcp a b) b.
Proof.
  revert b; induction a as [|x a IH]; intros [|y b]; simpl; try (exists []; reflexivity); try (eexists; reflexivity).
  destruct (Nat.eqb_spec x y); [|eexists; reflexivity]. subst.
  destruct (IH b) as [c Hc]. exists c. simpl. now rewrite <- Hc.
Qed.
Lemma lcp_greatest c a b : prefix c a -> prefix c b -> prefix c (lcp a b).
Proof. intros [x ->] [y ->]. rewrite lcp_app. apply prefix_app. Qed.

Lemma lcp_eq_iff_prefix a b : lcp a b = a <-> prefix a b.
Proof. split; [intros <-; apply lcp_is_prefix_r|apply lcp_prefix_l]. Qed.

Lemma path_eqb_lcp a b : path_eqb (lcp a b) a = is_prefix a b.
Proof.
  destruct (path_eqb_spec (lcp a b) a) as [E|E], (is_prefix a b) eqn:P; auto.
  - apply lcp_eq_iff_prefix, is_prefix_spec in E. congruence.
  - apply is_prefix_spec, lcp_eq_iff_prefix in P. congruence.
Qed.

(* [lcp_list p rest] is the greatest lower bound of [p :: rest] for [prefix]:
   the deepest node that is an ancestor of all of them *)
Lemma lcp_list_lower : forall rest p x, In x (p :: rest) -> prefix (lcp_list p rest) x.
Proof.
  unfold lcp_list. induction rest as [|y rest IH]; intros p x; simpl.
  - intros [<- | []]. apply prefix_refl.
  - intros [<- | [<- | H]].
    + eapply prefix_trans; [apply (IH (lcp p y) (lcp p y)); left; reflexivity|apply lcp_is_prefix_l].
    + eapply prefix_trans; [apply (IH (lcp p y) (lcp p y)); left; reflexivity|apply lcp_is_prefix_r].
    + apply IH. right. exact H.
Qed.

Lemma lcp_list_greatest : forall rest p c,
  (forall x, In x (p :: rest) -> prefix c x) -> prefix c (lcp_list p rest).
Proof.
  unfold lcp_list. induction rest as [|y rest IH]; intros p c H; simpl.
  - apply H. left; reflexivity.
  - apply IH. intros x [<- | Hx].
    + apply lcp_greatest; apply H; simpl; auto.
    + apply H. simpl; auto.
Qed.

(* ------------------------------------------------------------------ *)
(** * The tour restricted to paths, and the segment property *)

Fixpoint tourp (p : path) (t : rose) : list path :=
  match t with
  | Node cs =>
      p :: (fix blocks (k : nat) (cs : list rose) : list path :=
              match cs with
              | [] => []
              | c :: cs' => tourp (p ++ [k]) c ++ p :: blocks (S k) cs'
              end) 0 cs
  end.
Fixpoint blocks (p : path) (k : nat) (cs : list rose) : list path :=
  match cs with
  | [] => []
  | c :: cs' => tourp (p ++ [k]) c ++ p :: blocks p (S k) cs'
  end.
Lemma tourp_eq p cs : tourp p (Node cs) = p :: blocks p 0 cs.
Proof.
  simpl. f_equal. generalize 0. induction cs as [|c cs IH]; intros k; simpl; auto. now rewrite IH.
Qed.

(* nested induction principle *)
Section RoseInd.
  Variable P : rose -> Prop.
  Hypothesis H : forall cs, Forall P cs -> P (Node cs).
  Fixpoint rose_ind' (t : rose) : P t :=
    match t with
    | Node cs => H cs ((fix go (cs : list rose) : Forall P cs :=
                         match cs with [] => Forall_nil _ | c :: cs' => Forall_cons _ (rose_ind' c) (go cs') end) cs)
    end.
End RoseInd.

(* every entry of the tour of the subtree at p extends p *)
Lemma tourp_prefix : forall t p x, In x (tourp p t) -> prefix p x.
Proof.
  induction t as [cs IH] using rose_ind'. intros p x. rewrite tourp_eq. simpl. intros [<-|Hx]; [apply prefix_refl|].
  revert Hx. generalize 0. induction IH as [|c cs Hc _ IHcs]; intros k; simpl; [tauto|].
  rewrite in_app_iff. simpl. intros [Hx|[<-|Hx]].
  - eapply prefix_trans; [apply prefix_app|apply (Hc _ _ Hx)].
  - apply prefix_refl.
  - eapply IHcs; eauto.
Qed.

(* entries of the blocks starting at child k are p itself or go through a child of index >= k *)
Lemma blocks_class : forall cs p k x, In x (blocks p k cs) ->
  x = p \/ exists k' a, k <= k' /\ x = p ++ k' :: a.
Proof.
  induction cs as [|c cs IH]; intros p k x; simpl; [tauto|].
  rewrite in_app_iff. simpl. intros [Hx|[<-|Hx]]; auto.
  - right. apply tourp_prefix in Hx as [a ->]. exists k, a. split; auto. now rewrite <- app_assoc.
  - destruct (IH _ _ _ Hx) as [->|[k' [a [Hk ->]]]]; auto. right. exists k', a. split; auto; lia.
Qed.

Definition seg_ok (u : path) (mid : list path) (v : path) : Prop :=
  let L := lcp u v in (forall z, In z (u :: mid ++ [v]) -> prefix L z) /\ In L (u :: mid ++ [v]).

(* decomposition helper *)
Lemma split_two {A} (X Y l1 l2 l3 : list A) (u v : A) :
  X ++ Y = l1 ++ u :: l2 ++ v :: l3 ->
  (exists x3, X = l1 ++ u :: l2 ++ v :: x3 /\ l3 = x3 ++ Y) \/
  (exists x2 y2, X = l1 ++ u :: x2 /\ Y = y2 ++ v :: l3 /\ l2 = x2 ++ y2) \/
  (exists y1, l1 = X ++ y1 /\ Y = y1 ++ u :: l2 ++ v :: l3).
Proof.
  intros H. apply app_eq_app in H as [l [[H1 H2]|[H1 H2]]].
  - destruct l as [|a l]; simpl in H2.
    + right; right. exists []. rewrite app_nil_r in H1. subst. split; [now rewrite app_nil_r|reflexivity].
    + inversion H2 as [[Ha H3]]. subst a. clear H2.
      apply app_eq_app in H3 as [m [[H4 H5]|[H4 H5]]].
      * right; left. exists l, m. subst. repeat split; auto.
      * destruct m as [|b m]; simpl in H5.
        -- right; left. exists l2, []. subst. rewrite !app_nil_r. repeat split; auto.
        -- inversion H5; subst. left. exists m. split; auto.
  - right; right. exists l. subst. split; auto.
Qed.

Lemma blocks_prefix cs p k x : In x (blocks p k cs) -> prefix p x.
Proof. intros H. destruct (blocks_class _ _ _ _ H) as [->|[k' [a [_ ->]]]]; [apply prefix_refl|apply prefix_app]. Qed.

Definition seg_prop (l : list path) : Prop :=
  forall l1 u l2 v l3, l = l1 ++ u :: l2 ++ v :: l3 -> seg_ok u l2 v.

Lemma seg_blocks cs :
  Forall (fun c => forall p, seg_prop (tourp p c)) cs ->
  forall p k, seg_prop (blocks p k cs).
Proof.
  induction 1 as [|c cs Hc _ IH]; intros p k l1 u l2 v l3 E; simpl in E.
  - destruct l1; discriminate.
  - apply split_two in E as [[x3 [E1 E2]]|[[x2 [y2 [E1 [E2 E3]]]]|[y1 [E1 E2]]]].
    + eapply Hc; eauto.
    + (* u in the block of child k, v is the separator or lies further right *)
      assert (In u (tourp (p ++ [k]) c)) as Iu by (rewrite E1; apply in_app_iff; right; left; reflexivity).
      pose proof (tourp_prefix _ _ _ Iu) as [a Ea]. rewrite <- app_assoc in Ea. simpl in Ea.
      assert (prefix p v /\ lcp u v = p /\ In p (y2 ++ [v])) as [Pv [EL Ip]].
      { destruct y2 as [|y y2]; simpl in E2.
        - inversion E2; subst v. split; [apply prefix_refl|]. split; [|left; reflexivity].
          apply lcp_prefix_r. rewrite Ea. apply prefix_app.
        - inversion E2; subst y.
          assert (In v (blocks p (S k) cs)) as Iv by (rewrite H1; apply in_app_iff; right; left; reflexivity).
          split; [eapply blocks_prefix; eauto|]. split; [|left; reflexivity].
          destruct (blocks_class _ _ _ _ Iv) as [->|[k' [b [Hk ->]]]].
          + apply lcp_prefix_r. rewrite Ea. apply prefix_app.
          + rewrite Ea. apply lcp_diverge. lia. }
      unfold seg_ok. rewrite EL. split.
      * intros z Hz. subst l2. simpl in Hz. rewrite <- app_assoc in Hz.
        destruct Hz as [<-|Hz]; [rewrite Ea; apply prefix_app|].
        apply in_app_iff in Hz as [Hz|Hz].
        -- assert (In z (tourp (p ++ [k]) c)) as Iz by (rewrite E1; apply in_app_iff; right; right; exact Hz).
           eapply prefix_trans; [apply prefix_app|apply (tourp_prefix _ _ _ Iz)].
        -- apply in_app_iff in Hz as [Hz|[<-|[]]]; auto.
           assert (In z (p :: blocks p (S k) cs)) as Iz by (rewrite E2; apply in_app_iff; left; exact Hz).
           destruct Iz as [<-|Iz]; [apply prefix_refl|eapply blocks_prefix; eauto].
      * subst l2. right. rewrite <- app_assoc. apply in_app_iff. right. exact Ip.
    + destruct y1 as [|y y1]; simpl in E2.
      * (* u is the separator *)
        inversion E2; subst u.
        assert (forall z, In z (l2 ++ [v]) -> prefix p z) as Pz.
        { intros z Hz. eapply (blocks_prefix cs p (S k)). rewrite H1.
          apply in_app_iff in Hz as [Hz|[<-|[]]]; apply in_app_iff; [left; auto|right; left; auto]. }
        unfold seg_ok. rewrite (lcp_prefix_l p v) by (apply Pz; apply in_app_iff; right; left; auto).
        split; [|left; reflexivity]. intros z [<-|Hz]; [apply prefix_refl|auto].
      * inversion E2; subst y. eapply IH; eauto.
Qed.

(* for any two positions u before v of the tour, every entry between them
   extends lcp u v, and lcp u v occurs between them *)
Theorem seg_tour : forall t p, seg_prop (tourp p t).
Proof.
  induction t as [cs IH] using rose_ind'. intros p l1 u l2 v l3. rewrite tourp_eq. intros E.
  destruct l1 as [|y l1]; simpl in E.
  - inversion E; subst u.
    assert (forall z, In z (l2 ++ [v]) -> prefix p z) as Pz.
    { intros z Hz. eapply (blocks_prefix cs p 0). rewrite H1.
      apply in_app_iff in Hz as [Hz|[<-|[]]]; apply in_app_iff; [left; auto|right; left; auto]. }
    unfold seg_ok. rewrite (lcp_prefix_l p v) by (apply Pz; apply in_app_iff; right; left; auto).
    split; [|left; reflexivity]. intros z [<-|Hz]; [apply prefix_refl|auto].
  - inversion E; subst y. eapply seg_blocks; eauto.
Qed.

(* ------------------------------------------------------------------ *)
(** * The model's tour is the path tour decorated with lengths *)

Fixpoint tblocks (lvl : nat) (p : path) (k : nat) (cs : list rose) : list entry :=
  match cs with
  | [] => []
  | c :: cs' => tour (S lvl) (p ++ [k]) c ++ (lvl, p) :: tblocks lvl p (S k) cs'
  end.
Lemma tour_eq lvl p cs : tour lvl p (Node cs) = (lvl, p) :: tblocks lvl p 0 cs.
Proof.
  simpl. f_equal. generalize 0. induction cs as [|c cs IH]; intros k; simpl; auto. now rewrite IH.
Qed.

Definition ent (q : path) : entry := (length q, q).

Lemma tour_tourp : forall t p, tour (length p) p t = map ent (tourp p t).
Proof.
  induction t as [cs IH] using rose_ind'. intros p. rewrite tour_eq, tourp_eq. simpl. f_equal.
  generalize 0. induction IH as [|c cs Hc _ IHcs]; intros k; simpl; auto.
  rewrite map_app. simpl. f_equal.
  - specialize (Hc (p ++ [k])). rewrite app_length in Hc. simpl in Hc.
    rewrite Nat.add_1_r in Hc. exact Hc.
  - f_equal. apply IHcs.
Qed.

Lemma tour_root t : tour 0 [] t = map ent (tourp [] t).
Proof. exact (tour_tourp t []). Qed.

(* every valid path occurs in the tour *)
Lemma blocks_nth : forall cs p k0 j c x,
  nth_error cs j = Some c -> In x (tourp (p ++ [k0 + j]) c) -> In x (blocks p k0 cs).
Proof.
  induction cs as [|c0 cs IH]; intros p k0 [|j] c x H Hx; simpl in *; try discriminate.
  - inversion H; subst. rewrite Nat.add_0_r in Hx. apply in_app_iff; left; exact Hx.
  - apply in_app_iff; right; right. apply (IH p (S k0) j c x H).
    replace (S k0 + j) with (k0 + S j) by lia. exact Hx.
Qed.

Lemma valid_in : forall q t p, valid t q = true -> In (p ++ q) (tourp p t).
Proof.
  induction q as [|k q IH]; intros [cs] p H.
  - rewrite app_nil_r, tourp_eq. left; reflexivity.
  - simpl in H. destruct (nth_error cs k) as [c|] eqn:E; [|discriminate].
    rewrite tourp_eq. right. apply (blocks_nth cs p 0 k c); [exact E|]. simpl.
    replace (p ++ k :: q) with ((p ++ [k]) ++ q) by (rewrite <- app_assoc; reflexivity).
    apply IH. exact H.
Qed.

Lemma valid_prefix : forall a c t, valid t (a ++ c) = true -> valid t a = true.
Proof.
  induction a as [|k a IH]; intros c [cs]; simpl; auto.
  destruct (nth_error cs k); auto. apply IH.
Qed.

Lemma valid_lcp t a b : valid t a = true -> valid t (lcp a b) = true.
Proof.
  intros H. destruct (lcp_is_prefix_l a b) as [c Hc]. rewrite Hc in H. eapply valid_prefix; eauto.
Qed.

(* ------------------------------------------------------------------ *)
(** * Index glue *)

Lemma nth_error_map' {A B} (f : A -> B) l k :
  nth_error (map f l) k = option_map f (nth_error l k).
Proof. revert k; induction l as [|a l IH]; intros [|k]; simpl; auto. Qed.

Lemma nth_split2 {A} (l : list A) i j u v :
  i < j -> nth_error l i = Some u -> nth_error l j = Some v ->
  exists l1 l2 l3, l = l1 ++ u :: l2 ++ v :: l3 /\ length l1 = i /\ length l2 = j - i - 1.
Proof.
  intros Hij Hu Hv. apply nth_error_split in Hu as [l1 [r [-> L1]]].
  rewrite nth_error_app2 in Hv by lia. rewrite L1 in Hv.
  replace (j - i) with (S (j - i - 1)) in Hv by lia. simpl in Hv.
  apply nth_error_split in Hv as [l2 [l3 [-> L2]]]. exists l1, l2, l3. auto.
Qed.

Lemma nth_mid {A} (l1 l2 l3 : list A) u v k z :
  length l1 <= k <= length l1 + length l2 + 1 ->
  nth_error (l1 ++ u :: l2 ++ v :: l3) k = Some z -> In z (u :: l2 ++ [v]).
Proof.
  intros Hk H.
  replace (l1 ++ u :: l2 ++ v :: l3) with (l1 ++ (u :: l2 ++ [v]) ++ l3) in H
    by (simpl; rewrite <- app_assoc; reflexivity).
  rewrite nth_error_app2 in H by lia.
  rewrite nth_error_app1 in H by (simpl; rewrite app_length; simpl; lia).
  eapply nth_error_In; eauto.
Qed.

Lemma mid_nth {A} (l1 l2 l3 : list A) u v z :
  In z (u :: l2 ++ [v]) ->
  exists k, length l1 <= k <= length l1 + length l2 + 1 /\
            nth_error (l1 ++ u :: l2 ++ v :: l3) k = Some z.
Proof.
  intros H. apply In_nth_error in H as [m Hm].
  assert (m < length (u :: l2 ++ [v])) as Lm by (apply nth_error_Some; congruence).
  exists (length l1 + m). split.
  - simpl in Lm. rewrite app_length in Lm. simpl in Lm. lia.
  - replace (l1 ++ u :: l2 ++ v :: l3) with (l1 ++ (u :: l2 ++ [v]) ++ l3)
      by (simpl; rewrite <- app_assoc; reflexivity).
    rewrite nth_error_app2 by lia. replace (length l1 + m - length l1) with m by lia.
    rewrite nth_error_app1 by exact Lm. exact Hm.
Qed.

(* the segment property in terms of positions *)
Lemma seg_index t i j u v :
  i <= j -> nth_error (tourp [] t) i = Some u -> nth_error (tourp [] t) j = Some v ->
  (forall k z, i <= k <= j -> nth_error (tourp [] t) k = Some z -> prefix (lcp u v) z) /\
  (exists k, i <= k <= j /\ nth_error (tourp [] t) k = Some (lcp u v)).
Proof.
  intros Hij Hu Hv. destruct (Nat.eq_dec i j) as [->|Hne].
  - assert (u = v) by congruence. subst v. rewrite lcp_same. split.
    + intros k z Hk Hz. assert (k = j) by lia. subst k.
      assert (z = u) by congruence. subst z. apply prefix_refl.
    + exists j. split; [lia|exact Hu].
  - destruct (nth_split2 _ i j u v ltac:(lia) Hu Hv) as [l1 [l2 [l3 [E [L1 L2]]]]].
    destruct (seg_tour t [] l1 u l2 v l3 E) as [S1 S2]. split.
    + intros k z Hk Hz. apply S1. rewrite E in Hz. eapply nth_mid; [|exact Hz]. lia.
    + destruct (mid_nth l1 l2 l3 u v _ S2) as [k [Hk Hn]].
      exists k. split; [lia|]. rewrite E. exact Hn.
Qed.

(* ------------------------------------------------------------------ *)
(** * First-occurrence index *)

Lemma first_index_some : forall l p i0 i, first_index p l i0 = Some i ->
  exists lv, i0 <= i /\ nth_error l (i - i0) = Some (lv, p).
Proof.
  induction l as [|[lv q] l IH]; intros p i0 i H; simpl in H; [discriminate|].
  destruct (path_eqb_spec q p) as [->|Hne].
  - inversion H; subst. exists lv. rewrite Nat.sub_diag. split; [lia|reflexivity].
  - apply IH in H as [lv' [Hle Hn]]. exists lv'. split; [lia|].
    replace (i - i0) with (S (i - S i0)) by lia. exact Hn.
Qed.

Lemma first_index_in : forall l p i0 lv, In (lv, p) l -> exists i, first_index p l i0 = Some i.
Proof.
  induction l as [|[lv' q] l IH]; intros p i0 lv H; simpl; [destruct H|].
  destruct (path_eqb_spec q p) as [->|Hne]; [eauto|].
  destruct H as [H|H]; [congruence|]. eapply IH; eauto.
Qed.

(* ------------------------------------------------------------------ *)
(** * The structure built by [make] *)

Lemma entry_leb_trans : forall x y z : entry,
  entry_leb x y = true -> entry_leb y z = true -> entry_leb x z = true.
Proof. unfold entry_leb. intros x y z H1 H2. apply Nat.leb_le in H1, H2. apply Nat.leb_le. lia. Qed.
Lemma entry_leb_total : forall x y : entry, entry_leb x y = true \/ entry_leb y x = true.
Proof.
  unfold entry_leb. intros x y. destruct (Nat.le_ge_cases (fst x) (fst y)); [left|right]; now apply Nat.leb_le.
Qed.

Lemma tourp_nonempty p t : tourp p t <> [].
Proof. destruct t as [cs]. rewrite tourp_eq. discriminate. Qed.

Theorem make_defined : forall t, exists L, make t = Some L.
Proof.
  intros t. unfold make.
  destruct (build_defined entry_leb (tour 0 [] t)) as [tb Hb].
  - rewrite tour_root. intros E. apply map_eq_nil in E. exact (tourp_nonempty _ _ E).
  - rewrite Hb. eauto.
Qed.

Lemma make_inv t L : make t = Some L ->
  traversal L = map ent (tourp [] t) /\ build entry_leb (map ent (tourp [] t)) = Some (rmq L).
Proof.
  unfold make. rewrite tour_root.
  destruct (build entry_leb (map ent (tourp [] t))) as [tb|] eqn:E; [|discriminate].
  intros H. inversion H; subst. simpl. auto.
Qed.

Section WithTree.
  Variable t : rose.
  Variable L : lca.
  Hypothesis HL : make t = Some L.
  Notation tp := (tourp [] t).

  Lemma index_some p i : index L p = Some i -> nth_error tp i = Some p.
  Proof.
    unfold index. destruct (make_inv t L HL) as [-> _]. intros H.
    apply first_index_some in H as [lv [_ Hn]]. rewrite Nat.sub_0_r in Hn.
    rewrite nth_error_map' in Hn. destruct (nth_error tp i) as [q|]; [|discriminate].
    simpl in Hn. unfold ent in Hn. congruence.
  Qed.

  Lemma index_valid p : valid t p = true -> exists i, index L p = Some i.
  Proof.
    intros H. unfold index. destruct (make_inv t L HL) as [-> _].
    apply (first_index_in _ p 0 (length p)).
    pose proof (valid_in p t [] H) as Hin. simpl in Hin.
    apply (in_map ent) in Hin. exact Hin.
  Qed.

  (* the range-minimum query between two positions of the tour returns the
     longest common prefix of the two entries, with its level *)
  Lemma rmq_tour s e u v :
    s <= e -> nth_error tp s = Some u -> nth_error tp e = Some v ->
    query entry_leb (rmq L) s (e + 1) = QVal (ent (lcp u v)).
  Proof.
    intros Hse Hu Hv. destruct (make_inv t L HL) as [_ Hb].
    assert (e < length tp) as He by (apply nth_error_Some; congruence).
    destruct (rmq_correct entry_leb entry_leb_trans entry_leb_total _ _ s (e + 1) Hb)
      as [m [Hq [[k [Hk Hm]] Hmin]]].
    { rewrite map_length. lia. }
    rewrite Hq. f_equal.
    destruct (seg_index t s e u v Hse Hu Hv) as [S1 [k' [Hk' Hn']]].
    rewrite nth_error_map' in Hm. destruct (nth_error tp k) as [q|] eqn:Eq; [|discriminate].
    simpl in Hm. inversion Hm; subst m. clear Hm.
    assert (prefix (lcp u v) q) as Pq by (apply (S1 k q); [lia|exact Eq]).
    assert (entry_leb (ent q) (ent (lcp u v)) = true) as Hle.
    { apply (Hmin k'); [lia|]. rewrite nth_error_map', Hn'. reflexivity. }
    unfold entry_leb, ent in Hle. simpl in Hle. apply Nat.leb_le in Hle.
    f_equal. symmetry. apply prefix_length_eq; assumption.
  Qed.

  (* invariant of the [start]/[end] loop: the two bounds are positions of
     arguments seen so far, and every argument seen so far sits between them *)
  Definition span_inv (s e : nat) (Q : list path) : Prop :=
    s <= e /\
    (exists u, In u Q /\ nth_error tp s = Some u) /\
    (exists v, In v Q /\ nth_error tp e = Some v) /\
    (forall q, In q Q -> exists k, s <= k <= e /\ nth_error tp k = Some q).

  Lemma span_ok : forall ps s e Q,
    Forall (fun p => valid t p = true) ps -> span_inv s e Q ->
    exists s' e' Q', span L s e ps = Some (s', e') /\ span_inv s' e' Q' /\
                     (forall x, In x Q' <-> In x ps \/ In x Q).
  Proof.
    induction ps as [|p ps IH]; intros s e Q Hv Inv; simpl.
    - exists s, e, Q. split; [reflexivity|]. split; [exact Inv|]. intros x; tauto.
    - inversion Hv as [|? ? Hp Hps]; subst.
      destruct (index_valid p Hp) as [i Hi]. rewrite Hi.
      pose proof (index_some p i Hi) as Hn.
      destruct Inv as [Hse [[u [Iu Nu]] [[v [Iv Nv]] Hall]]].
      destruct (IH (Nat.min s i) (Nat.max e i) (p :: Q) Hps) as [s' [e' [Q' [E [Inv' HQ']]]]].
      + split; [lia|]. split; [|split].
        * destruct (Nat.min_spec s i) as [[_ ->]|[_ ->]]; [exists u|exists p]; simpl; auto.
        * destruct (Nat.max_spec e i) as [[_ ->]|[_ ->]]; [exists p|exists v]; simpl; auto.
        * intros q [<-|Hq].
          -- exists i. split; [lia|exact Hn].
          -- destruct (Hall q Hq) as [k [Hk Hk']]. exists k. split; [lia|exact Hk'].
      + exists s', e', Q'. split; [exact E|]. split; [exact Inv'|].
        intros x. rewrite HQ'. simpl. tauto.
  Qed.

  (** * Theorems *)

  (* the LCA query on a non-empty list of nodes returns the longest common
     prefix of their root paths *)
  Theorem euler_lca : forall p rest,
    valid t p = true -> Forall (fun q => valid t q = true) rest ->
    lca_query L (p :: rest) = Some (lcp_list p rest).
  Proof.
    intros p rest Hp Hrest. unfold lca_query.
    destruct (index_valid p Hp) as [i0 Hi0]. rewrite Hi0.
    pose proof (index_some p i0 Hi0) as Hn0.
    destruct (span_ok rest i0 i0 [p] Hrest) as [s [e [Q [E [Inv HQ]]]]].
    { split; [lia|]. split; [exists p; simpl; auto|]. split; [exists p; simpl; auto|].
      intros q [<-|[]]. exists i0. split; [lia|exact Hn0]. }
    rewrite E. destruct Inv as [Hse [[u [Iu Nu]] [[v [Iv Nv]] Hall]]].
    rewrite (rmq_tour s e u v Hse Nu Nv). simpl. f_equal.
    assert (forall x, In x Q <-> In x (p :: rest)) as HQ'.
    { intros x. rewrite HQ. simpl. tauto. }
    destruct (seg_index t s e u v Hse Nu Nv) as [S1 _].
    apply prefix_antisym.
    - apply lcp_list_greatest. intros x Hx. apply HQ' in Hx.
      destruct (Hall x Hx) as [k [Hk Hk']]. apply (S1 k x Hk Hk').
    - apply lcp_greatest; apply lcp_list_lower; apply HQ'; assumption.
  Qed.

  Corollary euler_lca_pair : forall a b, valid t a = true -> valid t b = true ->
    lca_query L [a; b] = Some (lcp a b).
  Proof. intros a b Ha Hb. apply (euler_lca a [b] Ha). constructor; auto. Qed.

  Theorem is_ancestor_prefix : forall a b, valid t a = true -> valid t b = true ->
    is_ancestor_of L a b = Some (is_prefix a b).
  Proof.
    intros a b Ha Hb. unfold is_ancestor_of. rewrite (euler_lca_pair a b Ha Hb). simpl.
    now rewrite path_eqb_lcp.
  Qed.

  Theorem is_strict_ancestor_prefix : forall a b, valid t a = true -> valid t b = true ->
    is_strict_ancestor_of L a b = Some (is_prefix a b && negb (path_eqb a b)).
  Proof.
    intros a b Ha Hb. unfold is_strict_ancestor_of. rewrite (euler_lca_pair a b Ha Hb). simpl.
    now rewrite path_eqb_lcp.
  Qed.

  Theorem comparable_iff : forall a b, valid t a = true -> valid t b = true ->
    is_comparable L a b = Some (is_prefix a b || is_prefix b a).
  Proof.
    intros a b Ha Hb. unfold is_comparable.
    rewrite (is_ancestor_prefix a b Ha Hb), (is_ancestor_prefix b a Hb Ha).
    destruct (is_prefix a b); reflexivity.
  Qed.

  Theorem level_length : forall p, valid t p = true -> level L p = Some (length p).
  Proof.
    intros p Hp. unfold level. destruct (index_valid p Hp) as [i Hi]. rewrite Hi.
    pose proof (index_some p i Hi) as Hn.
    destruct (make_inv t L HL) as [-> _]. rewrite nth_error_map', Hn. reflexivity.
  Qed.

  Theorem distance_formula : forall a b, valid t a = true -> valid t b = true ->
    distance L a b =
    Some (Z.of_nat (length a) + Z.of_nat (length b) - 2 * Z.of_nat (length (lcp a b)))%Z.
  Proof.
    intros a b Ha Hb. unfold distance.
    rewrite (level_length a Ha), (level_length b Hb), (euler_lca_pair a b Ha Hb).
    rewrite (level_length (lcp a b) (valid_lcp t a b Ha)). reflexivity.
  Qed.

  (* the answer is a node of the tree *)
  Theorem lca_valid : forall p rest, valid t p = true -> valid t (lcp_list p rest) = true.
  Proof.
    intros p rest Hp. destruct (lcp_list_lower rest p p) as [c Hc]; [left; reflexivity|].
    rewrite Hc in Hp. eapply valid_prefix; eauto.
  Qed.

  (* ... and is the deepest node that is an ancestor of all arguments *)
  Theorem lca_deepest : forall p rest,
    valid t p = true -> Forall (fun q => valid t q = true) rest ->
    exists r, lca_query L (p :: rest) = Some r /\ valid t r = true /\
              (forall x, In x (p :: rest) -> prefix r x) /\
              (forall c, (forall x, In x (p :: rest) -> prefix c x) -> prefix c r).
  Proof.
    intros p rest Hp Hrest. exists (lcp_list p rest).
    split; [apply euler_lca; assumption|]. split; [apply lca_valid; exact Hp|].
    split; [intros x; apply lcp_list_lower|apply lcp_list_greatest].
  Qed.

  (* In every block [i..j] of the tour, two entries of equal, minimal level carry
     the same node: when Python's [min] compares the tuples [(level, node)] of
     two block minima (sparse-table construction and query) it never has to
     order two distinct nodes. *)
  Theorem tuple_min_never_compares_nodes : forall i j k1 k2 e1 e2,
    j < length (traversal L) -> i <= k1 <= j -> i <= k2 <= j ->
    nth_error (traversal L) k1 = Some e1 -> nth_error (traversal L) k2 = Some e2 ->
    (forall k e, i <= k <= j -> nth_error (traversal L) k = Some e -> fst e1 <= fst e) ->
    fst e1 = fst e2 -> e1 = e2.
  Proof.
    destruct (make_inv t L HL) as [-> _]. intros i j k1 k2 e1 e2 Hj H1 H2 N1 N2 Hmin Heq.
    rewrite map_length in Hj. rewrite nth_error_map' in N1, N2.
    destruct (nth_error tp k1) as [q1|] eqn:Q1; [|discriminate].
    destruct (nth_error tp k2) as [q2|] eqn:Q2; [|discriminate].
    simpl in N1, N2. inversion N1; subst e1. inversion N2; subst e2. clear N1 N2.
    simpl in Heq, Hmin.
    destruct (nth_error tp i) as [u|] eqn:Eu; [|apply nth_error_None in Eu; lia].
    destruct (nth_error tp j) as [v|] eqn:Ev; [|apply nth_error_None in Ev; lia].
    destruct (seg_index t i j u v ltac:(lia) Eu Ev) as [S1 [k [Hk Hn]]].
    assert (length q1 <= length (lcp u v)) as Hle.
    { apply (Hmin k (ent (lcp u v)) Hk). rewrite nth_error_map', Hn. reflexivity. }
    assert (lcp u v = q1) by (apply prefix_length_eq; [apply (S1 k1 q1 H1 Q1)|exact Hle]).
    assert (lcp u v = q2) by (apply prefix_length_eq; [apply (S1 k2 q2 H2 Q2)|lia]).
    congruence.
  Qed.
End WithTree.
