(** The functions of [Gen/DsuGen.v] -- generated from [src/superrec2/utils/disjoint_set.py]
    by [translator/dsu_gen.py] -- are equal to the hand-written model [Model/DisjointSet.v],
    for all states and all arguments, error cases included.

    The generated state [G.dsu_state] holds Python ints as [N]; the model holds [nat].
    [st] converts a state ([map N.to_nat] on [parent] and [rank]; injective), [cerr] an
    error, [cres] a result.  The fuel of the generated [find] is the one the generated
    function computes itself, [S (list_max (map N.to_nat rank))] -- the same measure as the
    model's -- so the equalities need no invariant: on every state on which the model
    returns a value (all reachable states, by [Proofs/DisjointSetProofs.v]) the generated
    function returns the same value, and it returns [OutOfFuel] exactly where the model does. *)
From Coq Require Import List Bool Arith ZArith NArith Lia.
From SR Require Import Model.DisjointSet Proofs.DisjointSetProofs.
From SR Require Gen.DsuGen.
Import ListNotations.
Module G := SR.Gen.DsuGen.

(* ------------------------------------------------------------------ *)
(** * Conversions *)

Notation nats := (map N.to_nat).

Definition st (s : G.dsu_state) : dsu :=
  mk (nats (G.dsu_parent s)) (nats (G.dsu_rank s)) (G.dsu_groups s).

Definition cerr (e : G.err) : err :=
  match e with G.IndexError => IndexError | G.OutOfFuel => OutOfFuel end.

Definition cres {X Y : Type} (f : X -> Y) (r : G.res X) : res Y :=
  match r with G.Ok x => Ok (f x) | G.Err e => Err (cerr e) end.

(* a method result: new state and returned value *)
Definition cpair {X Y : Type} (f : X -> Y) (p : G.dsu_state * X) : dsu * Y := (st (fst p), f (snd p)).

Lemma nats_inj (l l' : list N) : nats l = nats l' -> l = l'.
Proof.
  revert l'; induction l as [|x l IH]; intros [|y l'] H; try discriminate; [reflexivity|].
  cbn in H. injection H as Hx Hl. apply N2Nat.inj in Hx. f_equal; auto.
Qed.

Theorem st_inj (s s' : G.dsu_state) : st s = st s' -> s = s'.
Proof.
  destruct s as [p r g], s' as [p' r' g']. unfold st; cbn. intros H. injection H as Hp Hr Hg.
  apply nats_inj in Hp, Hr. subst. reflexivity.
Qed.

(* ------------------------------------------------------------------ *)
(** * Lists: reads and functional updates *)

Lemma list_set_spec {X} (l : list X) : forall i v,
  G.list_set l i v = if i <? length l then Some (set_nth i v l) else None.
Proof.
  induction l as [|x l IH]; intros [|i] v; cbn [G.list_set set_nth length]; try reflexivity.
  rewrite IH. change (S i <? S (length l)) with (i <? length l). destruct (i <? length l); reflexivity.
Qed.

Lemma map_set_nth {X Y} (f : X -> Y) (l : list X) : forall i v,
  map f (set_nth i v l) = set_nth i (f v) (map f l).
Proof. induction l as [|x l IH]; intros [|i] v; cbn; try reflexivity. now rewrite IH. Qed.

Lemma nth_error_set_nth_same {X} (l : list X) : forall i v, i < length l ->
  nth_error (set_nth i v l) i = Some v.
Proof. induction l as [|x l IH]; intros [|i] v H; cbn in *; try lia; [reflexivity|]. apply IH. lia. Qed.

(* xs[i] on a list of ints *)
Lemma get_nats (l : list N) (i : N) :
  get (nats l) (N.to_nat i) =
    match nth_error l (N.to_nat i) with Some v => Ok (N.to_nat v) | None => Err IndexError end.
Proof. unfold get. rewrite nth_error_map. destruct (nth_error l (N.to_nat i)); reflexivity. Qed.

(* xs[i] = v on a list of ints *)
Lemma set_nats (l : list N) (i v : N) :
  set (nats l) (N.to_nat i) (N.to_nat v) =
    match G.nset l i v with Some l' => Ok (nats l') | None => Err IndexError end.
Proof.
  unfold set, G.nset. rewrite list_set_spec, map_length.
  destruct (N.to_nat i <? length l); [rewrite map_set_nth|]; reflexivity.
Qed.

Lemma nset_read (l l' : list N) (i v : N) : G.nset l i v = Some l' -> nth_error l' (N.to_nat i) = Some v.
Proof.
  unfold G.nset. rewrite list_set_spec. destruct (N.to_nat i <? length l) eqn:E; [|discriminate].
  intros H. injection H as <-. apply nth_error_set_nth_same. apply Nat.ltb_lt. exact E.
Qed.

Lemma eqb_nats (a b : N) : (N.to_nat a =? N.to_nat b) = N.eqb a b.
Proof.
  destruct (N.eqb_spec a b) as [->|H]; [apply Nat.eqb_refl|].
  apply Nat.eqb_neq. intros E. apply N2Nat.inj in E. contradiction.
Qed.

Lemma ltb_nats (a b : N) : (N.to_nat a <? N.to_nat b) = N.ltb a b.
Proof.
  destruct (N.ltb_spec a b); [apply Nat.ltb_lt|apply Nat.ltb_ge]; lia.
Qed.

(* ------------------------------------------------------------------ *)
(** * __init__ *)

Lemma nats_of_nats (l : list nat) : nats (map N.of_nat l) = l.
Proof. induction l as [|x l IH]; cbn; [reflexivity|]. now rewrite Nat2N.id, IH. Qed.

Lemma nats_repeat (v : N) n : nats (repeat v n) = repeat (N.to_nat v) n.
Proof. induction n; cbn; [reflexivity|]. now rewrite IHn. Qed.

Theorem gen_dsu_init_eq (count : N) :
  cres st (G.gen_dsu_init count) = Ok (make (N.to_nat count)).
Proof.
  unfold G.gen_dsu_init, make, st; cbn. rewrite nats_of_nats, nats_repeat, N_nat_Z. reflexivity.
Qed.

(* ------------------------------------------------------------------ *)
(** * find *)

Lemma find_rec_eq : forall fuel p rk g x,
  cres (cpair N.to_nat) (G.gen_dsu_find_rec fuel (G.mk_dsu p rk g) x) =
    (' (p', r) <- find_aux fuel (nats p) (N.to_nat x) ;; Ok (mk p' (nats rk) g, r)).
Proof.
  induction fuel as [|fuel IH]; intros p rk g x; [reflexivity|].
  cbn [G.gen_dsu_find_rec find_aux]. rewrite get_nats.
  destruct (nth_error p (N.to_nat x)) as [px|] eqn:Epx; [|reflexivity].
  cbn [bind]. rewrite eqb_nats, ?(N.eqb_sym x px). destruct (N.eqb px x); [reflexivity|].
  specialize (IH p rk g px).
  destruct (G.gen_dsu_find_rec fuel (G.mk_dsu p rk g) px) as [[[p1 rk1 g1] r]|e];
    destruct (find_aux fuel (nats p) (N.to_nat px)) as [[q1 r']|e']; cbn in IH; try discriminate.
  - injection IH as Hp Hrk Hg Hr. subst q1 r' g1. apply nats_inj in Hrk. subst rk1.
    cbn [bind]. rewrite set_nats.
    destruct (G.nset p1 x r) as [p2|] eqn:Eset; [|reflexivity].
    rewrite (nset_read _ _ _ _ Eset). reflexivity.
  - injection IH as <-. reflexivity.
Qed.

Theorem gen_dsu_find_eq (s : G.dsu_state) (x : N) :
  cres (cpair N.to_nat) (G.gen_dsu_find s x) = find (st s) (N.to_nat x).
Proof. destruct s as [p rk g]. unfold G.gen_dsu_find, find. cbn [G.dsu_rank st rank parent groups]. apply find_rec_eq. Qed.

(* what a call of the generated [find] inside another method amounts to *)
Lemma find_cases (s : G.dsu_state) (x : N) :
  match G.gen_dsu_find s x with
  | G.Ok (s1, r) => find (st s) (N.to_nat x) = Ok (st s1, N.to_nat r)
  | G.Err e => find (st s) (N.to_nat x) = Err (cerr e)
  end.
Proof.
  pose proof (gen_dsu_find_eq s x) as H.
  destruct (G.gen_dsu_find s x) as [[s1 r]|e]; cbn in H; symmetry; exact H.
Qed.

(* ------------------------------------------------------------------ *)
(** * unite *)

Theorem gen_dsu_unite_eq (s : G.dsu_state) (a b : N) :
  cres (cpair (fun x : bool => x)) (G.gen_dsu_unite s a b) = unite (st s) (N.to_nat a) (N.to_nat b).
Proof.
  destruct s as [p rk g]. unfold G.gen_dsu_unite, unite.
  pose proof (find_cases (G.mk_dsu p rk g) a) as Ha.
  destruct (G.gen_dsu_find (G.mk_dsu p rk g) a) as [[[p1 rk1 g1] ra]|e]; rewrite Ha; cbn [bind]; [|reflexivity].
  pose proof (find_cases (G.mk_dsu p1 rk1 g1) b) as Hb.
  destruct (G.gen_dsu_find (G.mk_dsu p1 rk1 g1) b) as [[[p2 rk2 g2] rb]|e]; rewrite Hb; cbn [bind]; [|reflexivity].
  rewrite eqb_nats. destruct (N.eqb ra rb); [reflexivity|].
  cbv zeta beta. cbn [st G.dsu_parent G.dsu_rank G.dsu_groups parent rank groups].
  rewrite !get_nats.
  destruct (nth_error rk2 (N.to_nat ra)) as [ka|]; [|reflexivity]. cbn [bind].
  destruct (nth_error rk2 (N.to_nat rb)) as [kb|]; [|reflexivity]. cbn [bind].
  rewrite eqb_nats, ltb_nats. destruct (N.eqb ka kb).
  - replace (S (N.to_nat ka)) with (N.to_nat (N.add ka 1)) by lia. rewrite !set_nats.
    destruct (G.nset rk2 ra (N.add ka 1)) as [rk3|]; [|reflexivity]. cbn [bind].
    destruct (G.nset p2 rb ra) as [p3|]; reflexivity.
  - destruct (N.ltb kb ka); rewrite set_nats.
    + destruct (G.nset p2 rb ra) as [p3|]; reflexivity.
    + destruct (G.nset p2 ra rb) as [p3|]; reflexivity.
Qed.

(* ------------------------------------------------------------------ *)
(** * __len__ *)

Theorem gen_dsu_len_eq (s : G.dsu_state) : G.gen_dsu_len s = G.Ok (s, len (st s)).
Proof. destruct s; reflexivity. Qed.

(* ------------------------------------------------------------------ *)
(** * to_list *)

Lemma get_map {X Y} (f : X -> Y) (l : list X) (i : nat) :
  get (map f l) i = match nth_error l i with Some v => Ok (f v) | None => Err IndexError end.
Proof. unfold get. rewrite nth_error_map. destruct (nth_error l i); reflexivity. Qed.

Lemma set_map {X Y} (f : X -> Y) (l : list X) (i : N) (v : X) :
  set (map f l) (N.to_nat i) (f v) =
    match G.nset l i v with Some l' => Ok (map f l') | None => Err IndexError end.
Proof.
  unfold set, G.nset. rewrite list_set_spec, map_length.
  destruct (N.to_nat i <? length l); [rewrite map_set_nth|]; reflexivity.
Qed.

(* the translated [for i in range(len(self.parent))] loop, started at [idx] *)
Lemma to_list_for1_eq : forall cnt idx p rk g acc,
  match G.gen_dsu_to_list_for1 cnt idx p rk g acc with
  | G.Next (p', rk', g', acc') =>
      to_list_loop (seq (N.to_nat idx) cnt) (st (G.mk_dsu p rk g)) (map nats acc)
        = Ok (st (G.mk_dsu p' rk' g'), map nats acc')
  | G.Ret _ => False
  | G.Fail e =>
      to_list_loop (seq (N.to_nat idx) cnt) (st (G.mk_dsu p rk g)) (map nats acc) = Err (cerr e)
  end.
Proof.
  induction cnt as [|cnt IH]; intros idx p rk g acc; [reflexivity|].
  cbn [G.gen_dsu_to_list_for1 seq to_list_loop].
  pose proof (find_cases (G.mk_dsu p rk g) idx) as Hf.
  destruct (G.gen_dsu_find (G.mk_dsu p rk g) idx) as [[[p1 rk1 g1] r]|e]; rewrite Hf; cbn [bind]; [|reflexivity].
  unfold append_at. rewrite get_map.
  destruct (nth_error acc (N.to_nat r)) as [grp|]; [|reflexivity]. cbn [bind].
  replace (nats grp ++ [N.to_nat idx]) with (nats (grp ++ [idx])) by (rewrite map_app; reflexivity).
  rewrite set_map.
  destruct (G.nset acc r (grp ++ [idx])) as [acc1|]; [|reflexivity]. cbn [bind].
  rewrite <- N2Nat.inj_succ. apply IH.
Qed.

Lemma filter_nonempty (l : list (list N)) :
  map nats (filter (fun group => negb (G.is_empty group)) l) =
    filter (fun grp => negb (is_nil grp)) (map nats l).
Proof.
  induction l as [|x l IH]; [reflexivity|]. cbn [filter map].
  destruct x as [|y x]; cbn; [exact IH|]. rewrite IH. reflexivity.
Qed.

Lemma nats_repeat_nil n : map nats (repeat (@nil N) n) = repeat [] n.
Proof. induction n; cbn; [reflexivity|]. now rewrite IHn. Qed.

Theorem gen_dsu_to_list_eq (s : G.dsu_state) :
  cres (cpair (map nats)) (G.gen_dsu_to_list s) = to_list (st s).
Proof.
  destruct s as [p rk g]. unfold G.gen_dsu_to_list, to_list. cbv zeta.
  change (parent (st (G.mk_dsu p rk g))) with (nats p). rewrite map_length, Nat2N.id.
  pose proof (to_list_for1_eq (length p) 0%N p rk g (repeat [] (length p))) as H.
  rewrite nats_repeat_nil in H. change (N.to_nat 0) with 0 in H.
  destruct (G.gen_dsu_to_list_for1 (length p) 0%N p rk g (repeat [] (length p))) as [[[[p' rk'] g'] acc']|r|e];
    [|contradiction|]; rewrite H; cbn [bind cres cpair fst snd]; [|reflexivity].
  unfold cpair; cbn [fst snd]. rewrite filter_nonempty. reflexivity.
Qed.

(* ------------------------------------------------------------------ *)
(** * Consequence: on reachable states the generated methods neither raise nor run out of fuel *)


(* ------------------------------------------------------------------ *)
(** * On reachable states no generated method raises or runs out of fuel

    [reachable n ps d] (Proofs/DisjointSetProofs.v): [d] is obtained from [DisjointSet(n)] by
    method calls with in-range arguments.  The invariant behind it ([rep]: parents in range,
    ranks strictly increasing towards the roots) is proved there for every such state
    ([reachable_rep]); it bounds the depth of [find]'s recursion by the fuel. *)

Corollary gen_dsu_find_total n ps (s : G.dsu_state) (x : N) :
  reachable n ps (st s) -> N.to_nat x < n ->
  exists s' r, G.gen_dsu_find s x = G.Ok (s', r) /\ N.to_nat r < n /\ reachable n ps (st s').
Proof.
  intros R Hx. destruct (dsu_find n ps (st s) (N.to_nat x) R Hx) as (d' & r & F & Hr & _).
  pose proof (find_cases s x) as H. destruct (G.gen_dsu_find s x) as [[s1 r1]|e]; rewrite F in H; [|discriminate].
  injection H as -> ->. exists s1, r1. split; [reflexivity|]. split; [exact Hr|].
  exact (R_find n ps (st s) (N.to_nat x) _ _ R Hx F).
Qed.

Corollary gen_dsu_unite_total n ps (s : G.dsu_state) (a b : N) :
  reachable n ps (st s) -> N.to_nat a < n -> N.to_nat b < n ->
  exists s' bo, G.gen_dsu_unite s a b = G.Ok (s', bo) /\
    (bo = true <-> ~ eqv ps (N.to_nat a) (N.to_nat b)) /\
    reachable n (ps ++ [(N.to_nat a, N.to_nat b)]) (st s').
Proof.
  intros R Ha Hb. destruct (dsu_unite n ps (st s) _ _ R Ha Hb) as (d' & bo & U & Hbo & _).
  pose proof (gen_dsu_unite_eq s a b) as H. rewrite U in H.
  destruct (G.gen_dsu_unite s a b) as [[s1 b1]|e]; cbn in H; [|discriminate].
  injection H as <- <-. exists s1, b1. split; [reflexivity|]. split; [exact Hbo|].
  exact (R_unite n ps (st s) _ _ _ _ R Ha Hb U).
Qed.

Corollary gen_dsu_to_list_total n ps (s : G.dsu_state) :
  reachable n ps (st s) ->
  exists s' l, G.gen_dsu_to_list s = G.Ok (s', l) /\ is_partition n (eqv ps) (map nats l) /\
    reachable n ps (st s').
Proof.
  intros R. destruct (dsu_to_list n ps (st s) R) as (d' & l & T & P & _).
  pose proof (gen_dsu_to_list_eq s) as H. rewrite T in H.
  destruct (G.gen_dsu_to_list s) as [[s1 l1]|e]; cbn in H; [|discriminate].
  injection H as <- <-. exists s1, l1. split; [reflexivity|]. split; [exact P|].
  exact (R_to_list n ps (st s) _ _ R T).
Qed.

(* the hypothesis [reachable n ps (st s)] is satisfiable: the generated constructor, then [unite] *)
Example gen_dsu_reachable_example :
  exists s s' bo, G.gen_dsu_init 4 = G.Ok s /\ reachable 4 [] (st s) /\
    G.gen_dsu_unite s 1 3 = G.Ok (s', bo) /\ bo = true /\ reachable 4 [(1, 3)] (st s').
Proof.
  eexists. eexists. eexists. split; [reflexivity|]. split; [exact (R_make 4)|].
  split; [reflexivity|]. split; [reflexivity|].
  exact (R_unite 4 [] (make 4) 1 3 _ _ (R_make 4) ltac:(lia) ltac:(lia) eq_refl).
Qed.

Print Assumptions gen_dsu_init_eq.
Print Assumptions gen_dsu_find_eq.
Print Assumptions gen_dsu_unite_eq.
Print Assumptions gen_dsu_len_eq.
Print Assumptions gen_dsu_to_list_eq.
Print Assumptions gen_dsu_find_total.
Print Assumptions gen_dsu_unite_total.
Print Assumptions gen_dsu_to_list_total.
