(** C06, labelled part: the ordered labelling cost counts lost runs of families,
    the unordered one counts charged lossy edges. *)
From Coq Require Import List Bool Arith ZArith NArith Lia.
From SR Require Import Base.PathB Base.Ext Model.Subseq Model.Recon
  Proofs.SubseqProofs Proofs.PathFacts Proofs.ReconProofs.
Import ListNotations.
Local Open Scope Z_scope.

(** * Specification on family lists (no masks) *)
Definition memf (x : fam) (l : list fam) : bool := existsb (fam_eqb x) l.
(* for the families of the parent, in order: does the child keep it? *)
Definition lflags (child parent : list fam) : list bool := map (fun x => memf x child) parent.
Definition lost_runs (edges : bool) (child parent : list fam) : Z :=
  Z.of_nat (if edges then runs_all (lflags child parent) else runs_inner (lflags child parent)).

Definition olab_node_spec (e : ev) (P L R : list fam) : Z :=
  match e with
  | Spe => lost_runs true L P + lost_runs true R P
  | Dup => Z.min (lost_runs true L P + lost_runs false R P) (lost_runs false L P + lost_runs true R P)
  | TrL => lost_runs true L P + lost_runs false R P
  | TrR => lost_runs false L P + lost_runs true R P
  | Inv => 0
  end.
Fixpoint olab_spec (t : ltree) : Z :=
  match t with
  | LLeaf _ _ => 0
  | LNode s y a b => olab_node_spec (event s (lroot a) (lroot b)) y (lsyn a) (lsyn b) + olab_spec a + olab_spec b
  end.

(* valid ordered labelling below a node: children are non-empty subsequences, events valid *)
Notation Sub := (Subseq (A := fam)).
Fixpoint well_ordered (t : ltree) : Prop :=
  match t with
  | LLeaf _ _ => True
  | LNode s y a b =>
      event s (lroot a) (lroot b) <> Inv /\
      lsyn a <> [] /\ lsyn b <> [] /\ Sub (lsyn a) y /\ Sub (lsyn b) y /\
      well_ordered a /\ well_ordered b
  end.

Lemma fam_eqb_spec x y : reflect (x = y) (fam_eqb x y).
Proof. apply N.eqb_spec. Qed.

Lemma memf_In x l : memf x l = true <-> In x l.
Proof.
  unfold memf. rewrite existsb_exists. split.
  - intros [y [H E]]. destruct (fam_eqb_spec x y); [subst; auto|discriminate].
  - intros H. exists x. split; auto. destruct (fam_eqb_spec x x); congruence.
Qed.

(** * Bit-level facts about [flags] and containment under doubling *)
Lemma size_nat_double p : p <> 0%N -> N.to_nat (N.size (N.double p)) = S (N.to_nat (N.size p)).
Proof. destruct p; [congruence|]. intros _. simpl. lia. Qed.
Lemma size_nat_succ_double p : N.to_nat (N.size (N.succ_double p)) = S (N.to_nat (N.size p)).
Proof. destruct p; simpl; lia. Qed.
Lemma odd_double p : N.odd (N.double p) = false. Proof. destruct p; reflexivity. Qed.
Lemma odd_succ_double p : N.odd (N.succ_double p) = true. Proof. destruct p; reflexivity. Qed.
Lemma div2_double p : N.div2 (N.double p) = p. Proof. destruct p; reflexivity. Qed.
Lemma div2_succ_double p : N.div2 (N.succ_double p) = p. Proof. destruct p; reflexivity. Qed.

Lemma flags_zero_parent c : flags c 0 = [].
Proof. reflexivity. Qed.

Lemma flags_double_double c p : flags (N.double c) (N.double p) = flags c p.
Proof.
  destruct (N.eq_dec p 0) as [->|N]; [reflexivity|].
  unfold flags. rewrite (size_nat_double p N), !bits_S, odd_double, !div2_double. reflexivity.
Qed.
Lemma flags_double_succ c p : flags (N.double c) (N.succ_double p) = false :: flags c p.
Proof.
  unfold flags. rewrite size_nat_succ_double, !bits_S, odd_double, odd_succ_double, div2_double, div2_succ_double.
  reflexivity.
Qed.
Lemma flags_succ_succ c p : flags (N.succ_double c) (N.succ_double p) = true :: flags c p.
Proof.
  unfold flags. rewrite size_nat_succ_double, !bits_S, !odd_succ_double, !div2_succ_double. reflexivity.
Qed.

Lemma contained_double_double c p : contained (N.double c) (N.double p) = contained c p.
Proof. unfold contained. destruct c, p; simpl; auto. destruct (Pos.ldiff p0 p); reflexivity. Qed.
Lemma contained_double_succ c p : contained (N.double c) (N.succ_double p) = contained c p.
Proof. unfold contained. destruct c, p; simpl; auto. destruct (Pos.ldiff p0 p); reflexivity. Qed.
Lemma contained_succ_succ c p : contained (N.succ_double c) (N.succ_double p) = contained c p.
Proof. unfold contained. destruct c, p; simpl; auto. destruct (Pos.ldiff p0 p); reflexivity. Qed.

(** * Masks of nested subsequences of a duplicate-free root order *)
Lemma Subseq_nil_inv (c : list fam) : Sub c [] -> c = [].
Proof. inversion 1; auto. Qed.

Lemma Subseq_cons_neq (c : fam) cs p ps : c <> p -> Sub (c :: cs) (p :: ps) -> Sub (c :: cs) ps.
Proof. intros N H. inversion H; subst; congruence. Qed.

Lemma Subseq_trans (a b c : list fam) : Sub a b -> Sub b c -> Sub a c.
Proof.
  intros H1 H2. revert a H1. induction H2 as [l|x b' c' H IH|x b' c' H IH]; intros a H1.
  - apply Subseq_nil_inv in H1. subst. constructor.
  - inversion H1; subst; [constructor|constructor; auto|apply sub_skip; auto].
  - apply sub_skip. auto.
Qed.

Lemma lflags_cons_notin c cs P : ~ In c P -> lflags (c :: cs) P = lflags cs P.
Proof.
  intros NI. unfold lflags. apply map_ext_in. intros x Hx. unfold memf. simpl.
  destruct (fam_eqb_spec x c); [subst; contradiction|reflexivity].
Qed.

Lemma mask_of_nil rs : mask_of rs [] = 0%N.
Proof. unfold mask_of. destruct rs; reflexivity. Qed.

(* the heart: masks against the root order read the list-level flags *)
Lemma masks_flags rs : NoDup rs -> forall P C, Sub P rs -> Sub C P ->
  contained (mask_of rs C) (mask_of rs P) = true /\
  flags (mask_of rs C) (mask_of rs P) = lflags C P.
Proof.
  induction 1 as [|r rs Hr ND IH]; intros P C HP HC.
  - apply Subseq_nil_inv in HP. subst. apply Subseq_nil_inv in HC. subst. split; reflexivity.
  - destruct P as [|p P].
    + apply Subseq_nil_inv in HC. subst. rewrite mask_of_nil. split; reflexivity.
    + unfold mask_of. cbn [mask_from_subseq].
      destruct (fam_eqb_spec p r) as [->|Npr].
      * (* the parent takes r *)
        assert (Sub P rs) as HP' by (inversion HP; subst; auto; eapply Subseq_tail; eauto).
        assert (~ In r P) as NrP by (intros X; apply Hr; eapply Subseq_in; eauto).
        destruct C as [|c C].
        -- change 0%N with (N.double 0). rewrite contained_double_succ, flags_double_succ.
           destruct (IH P [] HP' (sub_nil _)) as [I1 I2].
           rewrite (mask_of_nil rs) in I1, I2. unfold mask_of in I1, I2.
           split; [exact I1|]. cbn [lflags map memf existsb]. f_equal. exact I2.
        -- destruct (fam_eqb_spec c r) as [->|Ncr].
           ++ assert (Sub C P) as HC' by (inversion HC; subst; auto; eapply Subseq_tail; eauto).
              rewrite contained_succ_succ, flags_succ_succ.
              destruct (IH P C HP' HC') as [I1 I2]. unfold mask_of in I1, I2.
              split; [exact I1|]. cbn [lflags map]. f_equal.
              ** symmetry. apply memf_In. now left.
              ** rewrite I2. symmetry. apply lflags_cons_notin. exact NrP.
           ++ assert (Sub (c :: C) P) as HC' by (eapply Subseq_cons_neq; eauto).
              rewrite contained_double_succ, flags_double_succ.
              destruct (IH P (c :: C) HP' HC') as [I1 I2]. unfold mask_of in I1, I2.
              split; [exact I1|]. cbn [lflags map]. f_equal; [|exact I2].
              destruct (memf r (c :: C)) eqn:M; auto. apply memf_In in M.
              exfalso. apply NrP. eapply Subseq_in; eauto.
      * (* the parent skips r *)
        assert (Sub (p :: P) rs) as HP' by (eapply Subseq_cons_neq; eauto).
        assert (~ In r (p :: P)) as NrP by (intros X; apply Hr; eapply Subseq_in; eauto).
        destruct C as [|c C].
        -- change 0%N with (N.double 0). rewrite contained_double_double, flags_double_double.
           destruct (IH (p :: P) [] HP' (sub_nil _)) as [I1 I2].
           rewrite (mask_of_nil rs) in I1, I2. unfold mask_of in I1, I2. split; assumption.
        -- assert (c <> r) as Ncr.
           { intros ->. apply NrP. eapply Subseq_in; eauto. now left. }
           destruct (fam_eqb_spec c r); [contradiction|].
           rewrite contained_double_double, flags_double_double.
           exact (IH (p :: P) (c :: C) HP' HC).
Qed.

Lemma mask_of_nonzero rs C : Sub C rs -> C <> [] -> mask_of rs C <> 0%N.
Proof.
  intros H N E. pose proof (mask_roundtrip_1 fam_eqb fam_eqb_spec rs C H) as R.
  unfold mask_of in E. rewrite E in R. simpl in R. congruence.
Qed.

(** segment distance between the masks = lost runs of families *)
Theorem seg_dist_lost_runs rs P C edges :
  NoDup rs -> Sub P rs -> Sub C P -> C <> [] ->
  seg_dist (mask_of rs C) (mask_of rs P) edges = lost_runs edges C P.
Proof.
  intros ND HP HC NE.
  rewrite seg_dist_correct by (apply mask_of_nonzero; auto; eapply Subseq_trans; eauto).
  unfold seg_dist_specf. destruct (masks_flags rs ND P C HP HC) as [I1 I2].
  rewrite I1, I2. reflexivity.
Qed.

(** * Ordered labelling cost = recount of lost runs *)
Lemma olab_rec_spec rs : NoDup rs -> forall t, Sub (lsyn t) rs -> well_ordered t ->
  olab_rec rs (mask_of rs (lsyn t)) t = Some (olab_spec t).
Proof.
  intros ND. induction t as [s y|s y a IHa b IHb]; intros Hy W; [reflexivity|].
  destruct W as [E [Na [Nb [Sa [Sb [Wa Wb]]]]]]. cbn [olab_rec olab_spec lsyn] in *.
  rewrite (IHa (Subseq_trans _ _ _ Sa Hy) Wa), (IHb (Subseq_trans _ _ _ Sb Hy) Wb).
  unfold olab_node, olab_node_spec.
  rewrite !(seg_dist_lost_runs rs y (lsyn a)), !(seg_dist_lost_runs rs y (lsyn b)) by auto.
  destruct (event s (lroot a) (lroot b)); try congruence; reflexivity.
Qed.

Lemma mask_of_complete rs : NoDup rs -> mask_of rs rs = subseq_complete rs.
Proof.
  intros ND. unfold mask_of.
  apply (mask_roundtrip_2 fam_eqb fam_eqb_spec rs ND). apply complete_mask.
Qed.

Lemma Subseq_refl (l : list fam) : Sub l l.
Proof. induction l; constructor; auto. Qed.

Theorem ordered_labeling_recount c t :
  NoDup (lsyn t) -> well_ordered t ->
  ordered_labeling_cost c t = Some (c_sloss c * olab_spec t).
Proof.
  intros ND W. unfold ordered_labeling_cost.
  rewrite <- (mask_of_complete _ ND), (olab_rec_spec _ ND t (Subseq_refl _) W). reflexivity.
Qed.

(** * Unordered labelling cost = charged lossy edges *)
(* an edge is lossy when some family of the parent is missing from the child *)
Definition lossy (parent child : list fam) : Z := if subset parent child then 0 else 1.
Lemma lossy_iff parent child : lossy parent child = 1 <-> exists f, In f parent /\ ~ In f child.
Proof.
  unfold lossy, subset. destruct (forallb _ parent) eqn:E.
  - split; [discriminate|]. intros [f [H1 H2]]. rewrite forallb_forall in E.
    apply E in H1. apply memf_In in H1. contradiction.
  - split; [intros _|reflexivity].
    assert (~ (forall x, In x parent -> existsb (fam_eqb x) child = true)) as NE.
    { intros X. apply forallb_forall in X. congruence. }
    clear E. induction parent as [|p ps IH]; [exfalso; apply NE; intros ? []|].
    destruct (existsb (fam_eqb p) child) eqn:M.
    + destruct IH as [f [H1 H2]].
      * intros X. apply NE. intros x [<-|H]; auto.
      * exists f. split; [now right|auto].
    + exists p. split; [now left|]. intros H. apply memf_In in H. unfold memf in H. congruence.
Qed.

Definition ulab_node_spec (e : ev) (P L R : list fam) : Z :=
  match e with
  | Spe => lossy P L + lossy P R
  | Dup => Z.min (lossy P L) (lossy P R)   (* the free partial copy is chosen optimally *)
  | TrL => lossy P L                       (* only the conserved child is charged *)
  | TrR => lossy P R
  | Inv => 0
  end.
Fixpoint ulab_spec (t : ltree) : Z :=
  match t with
  | LLeaf _ _ => 0
  | LNode s y a b => ulab_node_spec (event s (lroot a) (lroot b)) y (lsyn a) (lsyn b) + ulab_spec a + ulab_spec b
  end.
Fixpoint events_valid (t : ltree) : Prop :=
  match t with
  | LLeaf _ _ => True
  | LNode s _ a b => event s (lroot a) (lroot b) <> Inv /\ events_valid a /\ events_valid b
  end.

Theorem unordered_labeling_recount c t :
  events_valid t -> unordered_labeling_cost c t = Some (c_sloss c * ulab_spec t).
Proof.
  intros V. unfold unordered_labeling_cost.
  assert (ulab_rec t = Some (ulab_spec t)) as ->; [|reflexivity].
  induction t as [s y|s y a IHa b IHb]; [reflexivity|].
  destruct V as [E [Va Vb]]. cbn [ulab_rec ulab_spec].
  rewrite (IHa Va), (IHb Vb). unfold ulab_node_spec, lossy.
  destruct (event s (lroot a) (lroot b)); try congruence; reflexivity.
Qed.
