(** review C, item 4: the generated unordered entry points under ANY *)
From Coq Require Import List Bool Arith ZArith NArith Lia Permutation.
From SR Require Gen.UspfsGen Model.Recon Model.Uspfs Base.PathB Base.Ext Model.Entry Model.LcaRec Model.Thl Proofs.PathFacts Proofs.EntryProofs Proofs.EntryGenProofs Proofs.TableGenProofs Gen.EntryGen Gen.TableGen Gen.EvalGen Proofs.ThlProofs Proofs.UspfsProofs Proofs.ThlGenProofs Proofs.EvalGenProofs Gen.ThlGen Proofs.ReconProofs Proofs.LcaProofs.
From SR Require Proofs.UspfsGenCommon Proofs.UspfsGenStatements Proofs.UspfsGenStage1 Proofs.UspfsGenEntry Proofs.UspfsGenModelPerm Proofs.UspfsGenTableExact Proofs.UspfsGenTableModel Proofs.UspfsGenProofs Proofs.UspfsGenDecode Proofs.UspfsGenLink Proofs.UspfsFinal Proofs.AllAnyProofs.
Import SR.Base.PathB SR.Base.Ext SR.Model.Entry SR.Model.Recon SR.Model.LcaRec SR.Model.Thl SR.Model.Uspfs SR.Proofs.PathFacts SR.Proofs.EntryProofs SR.Proofs.EntryGenProofs SR.Proofs.EvalGenProofs SR.Proofs.TableGenProofs SR.Proofs.ReconProofs SR.Proofs.ThlProofs SR.Proofs.LcaProofs SR.Proofs.UspfsProofs SR.Proofs.ThlGenProofs.
Import SR.Proofs.UspfsGenCommon.Common SR.Proofs.UspfsGenCommon.ModelO SR.Proofs.UspfsGenCommon.TableO SR.Proofs.UspfsGenCommon.Embed SR.Proofs.UspfsGenStatements.Statements.
Import SR.Proofs.UspfsFinal SR.Proofs.AllAnyProofs.
Import ListNotations.
Local Open Scope Z_scope.

Module PartCuspfs.
Module S1 := SR.Proofs.UspfsGenStage1.Stage1.
Module MP := SR.Proofs.UspfsGenModelPerm.ModelPerm.
Module TM := SR.Proofs.UspfsGenTableModel.TableModel.
Module TF := SR.Proofs.UspfsGenTableModel.TableFinal.
Module GM := SR.Proofs.UspfsGenProofs.UspfsGenMain.
Module DC := SR.Proofs.UspfsGenDecode.Decode.
Module LK := SR.Proofs.UspfsGenLink.UspfsLink.

(* ------------------------------------------------------------------ *)
(** * Entries under ANY against entries under ALL
    [esub e e']: the same value, tags empty together, every tag of [e] is a tag of [e'].
    [csub cs cs']: candidate lists, all tagged, with the same values, [cs] included in [cs']. *)
Section Sub.
  Context {X : Type} (eqb : X -> X -> bool).
  Hypothesis eqb_spec : forall x y, reflect (x = y) (eqb x y).

  Definition esub (e e' : entry X) : Prop :=
    val e = val e' /\ (tags e = [] <-> tags e' = []) /\ (forall t, In t (tags e) -> In t (tags e')).
  Definition csub (cs cs' : list (ext * option X)) : Prop :=
    tagged cs /\ tagged cs' /\ vsame cs cs' /\ (forall x, In x cs -> In x cs').

  Notation upd rp cs := (update eqb MIN rp (default_entry MIN) cs).

  Lemma upd_val_any_all cs cs' : vsame cs cs' -> val (upd RANY cs) = val (upd RALL cs').
  Proof.
    intros V. rewrite (upd_val_vsame eqb RANY cs cs' V).
    apply (upd_val_set eqb cs' cs' (fun x => iff_refl _) RANY RALL).
  Qed.

  Lemma upd_sub cs cs' : csub cs cs' -> esub (upd RANY cs) (upd RALL cs').
  Proof.
    intros [Tg [Tg' [V I]]]. pose proof (upd_val_any_all cs cs' V) as Ev. split; [exact Ev|]. split.
    - rewrite (upd_tags_empty eqb eqb_spec RANY cs ltac:(discriminate) Tg),
        (upd_tags_empty eqb eqb_spec RALL cs' ltac:(discriminate) Tg'), <- Ev.
      now rewrite (V (val (upd RANY cs))).
    - intros t Ht. destruct (entry_tags_any eqb MIN cs) as [[E _]|[u [E Hu]]]; cbv zeta in *.
      + rewrite E in Ht. destruct Ht.
      + rewrite E in Ht. destruct Ht as [<-|[]].
        apply (entry_tags_all eqb eqb_spec MIN cs' u). cbv zeta. rewrite <- Ev. now apply I.
  Qed.

  Lemma csub_app a a' b b' : csub a a' -> csub b b' -> csub (a ++ b) (a' ++ b').
  Proof.
    intros [T1 [T1' [V1 S1]]] [T2 [T2' [V2 S2]]]. repeat split.
    - intros v o I. apply in_app_or in I as [I|I]; eauto.
    - intros v o I. apply in_app_or in I as [I|I]; eauto.
    - intros [o I]. apply in_app_or in I as [I|I].
      + destruct (proj1 (V1 v) (ex_intro _ o I)) as [o' I']. exists o'. apply in_or_app. now left.
      + destruct (proj1 (V2 v) (ex_intro _ o I)) as [o' I']. exists o'. apply in_or_app. now right.
    - intros [o I]. apply in_app_or in I as [I|I].
      + destruct (proj2 (V1 v) (ex_intro _ o I)) as [o' I']. exists o'. apply in_or_app. now left.
      + destruct (proj2 (V2 v) (ex_intro _ o I)) as [o' I']. exists o'. apply in_or_app. now right.
    - intros x I. apply in_app_or in I as [I|I]; apply in_or_app; [left; now apply S1|right; now apply S2].
  Qed.

  Lemma csub_nil : csub [] [].
  Proof. split; [intros ? ? []|]. split; [intros ? ? []|]. split; [intros v; split; intros [? []]|intros ? []]. Qed.

  Lemma csub_refl cs : tagged cs -> csub cs cs.
  Proof. intros T. split; [exact T|]. split; [exact T|]. split; [intros v; reflexivity|auto]. Qed.

  Lemma cands_sub (e e' : entry X) : esub e e' -> csub (cands e) (cands e').
  Proof.
    intros [Ev [Ee Es]]. unfold cands. repeat split.
    - intros v o I. apply in_map_iff in I as [t [E _]]. inversion E. eauto.
    - intros v o I. apply in_map_iff in I as [t [E _]]. inversion E. eauto.
    - intros [o I]. apply in_map_iff in I as [t [E I]]. inversion E; subst.
      destruct (tags e') as [|t' l'] eqn:E'; [rewrite (proj2 Ee eq_refl) in I; destruct I|].
      exists (Some t'). apply in_map_iff. exists t'. split; [now rewrite Ev|now left].
    - intros [o I]. apply in_map_iff in I as [t [E I]]. inversion E; subst.
      destruct (tags e) as [|t' l'] eqn:E'; [rewrite (proj1 Ee eq_refl) in I; destruct I|].
      exists (Some t'). apply in_map_iff. exists t'. split; [now rewrite Ev|now left].
    - intros x I. apply in_map_iff in I as [t [<- I]]. apply in_map_iff. exists t. split; [now rewrite Ev|now apply Es].
  Qed.
End Sub.

(* ------------------------------------------------------------------ *)
(** * One cell of the table: ANY against ALL ([ModelO.ucell_o], [TableO.utab_o]) *)
Lemma upick_sub S c (f g : uassign -> ext) ll s kind ds i :
  (forall k, In (fst k) ds -> f k = g k) ->
  csub (upick_o i (flat_map (uone_o S c f ll s kind) ds)) (upick_o i (flat_map (uone_o S c g ll s kind) ds)).
Proof.
  intros E.
  rewrite (MP.flat_map_ext_mem (uone_o S c f ll s kind) (uone_o S c g ll s kind) ds).
  - apply csub_refl. intros v o I. apply MP.In_upick in I as [d [_ I]]. apply MP.uone_tagged in I. exact I.
  - intros d Hd. apply MP.uone_o_ext. intros k <-. auto.
Qed.

Lemma uaggp_sub l l' : csub l l' -> esub (uaggp RANY l) (uaggp RALL l').
Proof. intros C. unfold uaggp. now apply (upd_sub uassign_eqb uassign_eqb_spec). Qed.

Lemma uchoices_o_sub S c (f g : uassign -> ext) ll s kind ds :
  (forall k, In (fst k) ds -> f k = g k) ->
  esub (uc_left (uchoices_o S c RANY f ll s kind ds)) (uc_left (uchoices_o S c RALL g ll s kind ds)) /\
  esub (uc_right (uchoices_o S c RANY f ll s kind ds)) (uc_right (uchoices_o S c RALL g ll s kind ds)) /\
  esub (uc_conserved (uchoices_o S c RANY f ll s kind ds)) (uc_conserved (uchoices_o S c RALL g ll s kind ds)) /\
  esub (uc_segment (uchoices_o S c RANY f ll s kind ds)) (uc_segment (uchoices_o S c RALL g ll s kind ds)) /\
  esub (uc_separate (uchoices_o S c RANY f ll s kind ds)) (uc_separate (uchoices_o S c RALL g ll s kind ds)).
Proof.
  intros E. unfold uchoices_o. cbn [uc_left uc_right uc_conserved uc_segment uc_separate].
  split; [|split; [|split; [|split]]]; apply uaggp_sub; now apply upick_sub.
Qed.

Lemma ucomb2_sub k (a b a' b' : entry uassign) : esub a a' -> esub b b' -> csub (ucomb2 RANY k a b) (ucomb2 RALL k a' b').
Proof.
  intros [V1 [N1 S1]] [V2 [N2 S2]]. unfold ucomb2. apply cands_sub. unfold combine.
  apply (upd_sub utag_eqb utag_eqb_spec). rewrite <- V1, <- V2.
  change (csub (pairs a b (ucomb k (val a) (val b))) (pairs a' b' (ucomb k (val a) (val b)))).
  repeat split.
  - intros v o I. apply In_pairs in I as [x [y [_ [_ E]]]]. inversion E. eauto.
  - intros v o I. apply In_pairs in I as [x [y [_ [_ E]]]]. inversion E. eauto.
  - intros [o I]. apply In_pairs in I as [x [y [Ia [Ib E]]]]. inversion E; subst.
    destruct (tags a') as [|x' l1] eqn:T1; [rewrite (proj2 N1 eq_refl) in Ia; destruct Ia|].
    destruct (tags b') as [|y' l2] eqn:T2; [rewrite (proj2 N2 eq_refl) in Ib; destruct Ib|].
    exists (Some (x', y')). apply In_pairs. exists x', y'. rewrite T1, T2. repeat split; now left.
  - intros [o I]. apply In_pairs in I as [x [y [Ia [Ib E]]]]. inversion E; subst.
    destruct (tags a) as [|x' l1] eqn:T1; [rewrite (proj1 N1 eq_refl) in Ia; destruct Ia|].
    destruct (tags b) as [|y' l2] eqn:T2; [rewrite (proj1 N2 eq_refl) in Ib; destruct Ib|].
    exists (Some (x', y')). apply In_pairs. exists x', y'. rewrite T1, T2. repeat split; now left.
  - intros x I. apply In_pairs in I as [u [w [Ia [Ib ->]]]]. apply In_pairs. exists u, w.
    repeat split; [now apply S1|now apply S2].
Qed.

Lemma ubatch_o_sub S c (subA subA' subB subB' : uassign -> ext) la lb s kind ds :
  (forall k, In (fst k) ds -> subA k = subA' k) -> (forall k, In (fst k) ds -> subB k = subB' k) ->
  csub (ubatch_o S c RANY subA subB la lb s kind ds) (ubatch_o S c RALL subA' subB' la lb s kind ds).
Proof.
  intros EA EB. unfold ubatch_o. cbv zeta.
  destruct (uchoices_o_sub S c subA subA' la s kind ds EA) as [A0 [A1 [A2 [A3 A4]]]].
  destruct (uchoices_o_sub S c subB subB' lb s kind ds EB) as [B0 [B1 [B2 [B3 B4]]]].
  repeat apply csub_app; apply ucomb2_sub; assumption.
Qed.

Lemma ufirst_write_sub b b' : csub b b' -> esub (ufirst_write RANY b) (ufirst_write RALL b').
Proof.
  intros C. rewrite !MP.ufirst_write_upd. apply (upd_sub utag_eqb utag_eqb_spec).
  pose proof C as [_ [_ [V _]]]. rewrite (has_finite_vsame b b' V). destruct (Thl.has_finite b'); [exact C|apply csub_nil].
Qed.

(** (a1) one cell: the readers agree on the enumerated species *)
Theorem ucell_o_any_all S c (subA subA' subB subB' : uassign -> ext) la lb s kind ds :
  (forall k, In (fst k) ds -> subA k = subA' k) -> (forall k, In (fst k) ds -> subB k = subB' k) ->
  esub (ucell_o S c RANY subA subB la lb s kind ds) (ucell_o S c RALL subA' subB' la lb s kind ds).
Proof. intros EA EB. unfold ucell_o. apply ufirst_write_sub. now apply ubatch_o_sub. Qed.

Lemma esub_refl_notags {X} (e : entry X) : tags e = [] -> esub e e.
Proof. intros E. repeat split; auto. Qed.

(** (a2) every cell of the table the code computes under ANY against the cell it computes under ALL *)
Theorem utab_o_any_all {node_id} S c (leafsp : node_id -> path) lev AS LS (t : EV.TreeNode node_id) : forall k,
  esub (utab_o S c RANY leafsp lev AS LS t k) (utab_o S c RALL leafsp lev AS LS t k).
Proof.
  induction t as [i|i a IHa b IHb]; intros k.
  - cbn [utab_o]. destruct (uassign_eqb k (leafsp i, false)); now apply esub_refl_notags.
  - cbn [utab_o]. destruct (existsb (path_eqb (fst k)) (AS (EV.TreeNode_node i a b))); [|now apply esub_refl_notags].
    apply ucell_o_any_all; intros k' _; [apply (IHa k')|apply (IHb k')].
Qed.
Print Assumptions ucell_o_any_all.
Print Assumptions utab_o_any_all.


(* ------------------------------------------------------------------ *)
(** * Decoding the ANY table of the code against the ALL table; the result entry *)
Section AnyModel.
  Context {lca node_id : Type} (nid_eqb : node_id -> node_id -> bool).
  Hypothesis nid_eqb_spec : forall a b, reflect (a = b) (nid_eqb a b).
  Notation tree := (EV.TreeNode node_id).
  Notation oids l := (map (@EV.TreeNode_id node_id) l).
  Notation post := (@UG.TreeNode_postorder node_id).
  Notation tid := (@EV.TreeNode_id node_id).
  Variables (lcaobj : lca) (S : stree) (c : costs) (leafsp : node_id -> path) (syn : node_id -> list fam) (O : tree).
  Variables (missing : node_id -> path) (missing_syn : node_id -> list fam) (ord_infos : list ca -> list ca).
  Variables (fam_order sort_synteny_fn : list fam -> list fam).
  Notation ST := (sembed3 S []).
  Notation ot := (otree_of leafsp syn).
  Notation lev := (sids3 (UG.STree_levelorder ST)).
  Variables (extended : bool) (AS : @UG.STree path -> tree -> list (@UG.STree path)).
  Notation AS' := (fun u : tree => sids3 (AS ST u)).
  Hypothesis Hh : nn (c_hgt c).
  Hypothesis ord_same : forall l, sameset (ord_infos l) l.
  Hypothesis fam_perm : forall l, Permutation l (fam_order l).
  Hypothesis sort_spec : forall l, NoDup l -> sort_synteny_fn l = set_of l.
  Variables (total : fam -> nat) (LS GS : node_id -> list fam).
  (** the table computed under ANY and the table computed under ALL *)
  Variables GA GL : node_id -> path -> bool -> entry ca.
  Notation TCA := (utab_o S c RANY leafsp lev AS' LS).
  Notation TCL := (utab_o S c RALL leafsp lev AS' LS).
  Notation UDG := (DC.udecode_g ord_infos fam_order sort_synteny_fn LS GS).
  Notation tabM o := (utab S c RALL extended total o).
  Notation UA v := (annotate total (ot v)).
  Notation lt_at := (LK.lt_at nid_eqb missing missing_syn).

  Definition cells_any (t : tree) : Prop :=
    forall u, In u (post t) -> forall x k, GA (tid u) x k = emap tag_ca (TCA u (x, k)).
  Notation cells_all := (LK.cells_ok S c leafsp AS LS GL).
  Notation allowed_model := (LK.allowed_model S leafsp syn extended AS).
  Notation sets_model := (LK.sets_model leafsp syn total LS GS).

  Lemma ord_incl : forall l m, In m (ord_infos l) -> In m l.
  Proof. intros l m. apply ord_same. Qed.

  Lemma post_a i (a b : tree) u : In u (post a) -> In u (post (EV.TreeNode_node i a b)).
  Proof. intros H. cbn [UG.TreeNode_postorder]. rewrite !in_app_iff. now left. Qed.
  Lemma post_b i (a b : tree) u : In u (post b) -> In u (post (EV.TreeNode_node i a b)).
  Proof. intros H. cbn [UG.TreeNode_postorder]. rewrite !in_app_iff. right. now left. Qed.
  Lemma post_t i (a b : tree) : In (EV.TreeNode_node i a b) (post (EV.TreeNode_node i a b)).
  Proof. cbn [UG.TreeNode_postorder]. rewrite !in_app_iff. right. right. now left. Qed.

  (** what one tag contributes to the decoder *)
  Lemma per_tag G i (a b : tree) s A' y (l r : uassign) outs :
    match UG.ChildrenAssignment_left (tag_ca (l, r)) with
    | None => UG.Err UG.AttributeError
    | Some l0 =>
        match UDG G a (UG.ObjectAssignment_species l0) (kind_b (UG.ObjectAssignment_synteny l0)) A' with
        | UG.Err e => UG.Err e
        | UG.Ok dl =>
            match UG.ChildrenAssignment_right (tag_ca (l, r)) with
            | None => UG.Err UG.AttributeError
            | Some r0 =>
                match UDG G b (UG.ObjectAssignment_species r0) (kind_b (UG.ObjectAssignment_synteny r0)) A' with
                | UG.Err e => UG.Err e
                | UG.Ok dr => UG.Ok (DC.prod3 i s y dl dr)
                end
            end
        end
    end = UG.Ok outs ->
    exists dl dr, UDG G a (fst l) (snd l) A' = UG.Ok dl /\ UDG G b (fst r) (snd r) A' = UG.Ok dr /\ outs = DC.prod3 i s y dl dr.
  Proof.
    cbn [tag_ca oa_of UG.ChildrenAssignment_left UG.ChildrenAssignment_right UG.ObjectAssignment_species
         UG.ObjectAssignment_synteny fst snd]. rewrite !kind_b_of. intros E.
    destruct (UDG G a (fst l) (snd l) A') as [dl|e1]; [|discriminate].
    destruct (UDG G b (fst r) (snd r) A') as [dr|e2]; [|discriminate].
    exists dl, dr. inversion E. auto.
  Qed.

  (** (b) every pair of dictionaries decoded from the ANY table is decoded from the ALL table *)
  Lemma decode_any_all (t : tree) : cells_any t -> cells_all t -> forall s k asyn oA oL,
    UDG GA t s k asyn = UG.Ok oA -> UDG GL t s k asyn = UG.Ok oL -> forall d, In d oA -> In d oL.
  Proof.
    induction t as [i|i a IHa b IHb]; intros HA HL s k asyn oA oL EA EL d Hd.
    - cbn [DC.udecode_g] in EA, EL.
      pose proof (HA _ (or_introl eq_refl) s k) as Ga. pose proof (HL _ (or_introl eq_refl) s k) as Gl.
      cbn [EV.TreeNode_id utab_o] in Ga, Gl. rewrite Ga in EA. rewrite Gl in EL. rewrite EA in EL. inversion EL; subst. exact Hd.
    - specialize (IHa (fun u Hu => HA u (post_a i a b u Hu)) (fun u Hu => HL u (post_a i a b u Hu))).
      specialize (IHb (fun u Hu => HA u (post_b i a b u Hu)) (fun u Hu => HL u (post_b i a b u Hu))).
      pose proof (HA _ (post_t i a b) s k) as Ga. pose proof (HL _ (post_t i a b) s k) as Gl.
      cbn [EV.TreeNode_id] in Ga, Gl.
      cbn [DC.udecode_g] in EA, EL.
      apply LK.rcat_in in EA as [_ IA]. apply LK.rcat_in in EL as [OkL IL].
      apply IA in Hd as [info [a' [Hi [Ea' Hd]]]].
      apply ord_incl in Hi. rewrite Ga in Hi. cbn [emap tags] in Hi. apply in_map_iff in Hi as [[l r] [<- Hlr]].
      assert (HiL : In (tag_ca (l, r)) (ord_infos (tags (GL i s k)))).
      { apply (proj2 (ord_same _ _)). rewrite Gl. cbn [emap tags]. apply in_map.
        now apply (utab_o_any_all S c leafsp lev AS' LS (EV.TreeNode_node i a b) (s, k)). }
      destruct (OkL _ HiL) as [aL EaL]. apply IL. exists (tag_ca (l, r)), aL. split; [exact HiL|]. split; [exact EaL|].
      cbv beta in Ea', EaL.
      apply per_tag in Ea' as [dl [dr [E1 [E2 ->]]]]. apply per_tag in EaL as [dl' [dr' [E1' [E2' ->]]]].
      unfold DC.prod3 in *. apply in_flat_map in Hd as [d1 [H1 Hd]]. apply in_map_iff in Hd as [d2 [<- H2]].
      apply in_flat_map. exists d1. split; [exact (IHa _ _ _ _ _ E1 E1' d1 H1)|].
      apply in_map_iff. exists d2. split; [reflexivity|exact (IHb _ _ _ _ _ E2 E2' d2 H2)].
  Qed.

  (** a finite cell of the ANY table decodes to something *)
  Lemma decode_any_nonempty (t : tree) : cells_any t -> allowed_model t -> sets_model t -> forall s k asyn oA,
    val (TCA t (s, k)) <> PInf -> UDG GA t s k asyn = UG.Ok oA -> exists d, In d oA.
  Proof.
    induction t as [i|i a IHa b IHb]; intros HA HAS HS s k asyn oA NE EA.
    - cbn [DC.udecode_g] in EA. pose proof (HA _ (or_introl eq_refl) s k) as Ga. cbn [EV.TreeNode_id utab_o] in Ga, NE.
      rewrite Ga in EA.
      destruct (uassign_eqb (s, k) (leafsp i, false)); cbn in EA, NE; [|congruence].
      inversion EA. eexists. now left.
    - specialize (IHa (fun u Hu => HA u (post_a i a b u Hu)) (fun u Hu => HAS u (post_a i a b u Hu)) (fun u Hu => HS u (post_a i a b u Hu))).
      specialize (IHb (fun u Hu => HA u (post_b i a b u Hu)) (fun u Hu => HAS u (post_b i a b u Hu)) (fun u Hu => HS u (post_b i a b u Hu))).
      pose proof (HA _ (post_t i a b) s k) as Ga. cbn [EV.TreeNode_id] in Ga.
      remember (EV.TreeNode_node i a b) as t eqn:Et.
      assert (It : In t (post t)) by (subst t; apply post_t).
      assert (Ia : In a (post t)) by (subst t; apply post_a, TM.self_post).
      assert (Ib : In b (post t)) by (subst t; apply post_b, TM.self_post).
      assert (Eot : ot t = ONode (ot a) (ot b)) by (subst t; reflexivity).
      pose proof (fun u Hu => TM.utab_o_model MP.ucell_o_sim S c RALL extended leafsp syn total lev AS' LS t Hh (lev_sameset S) HAS
                          (fun v Hv => proj1 (proj2 (HS v Hv))) u Hu) as Mo.
      destruct (Mo t It (s, k)) as [Vt [Nt St]]. specialize (St eq_refl).
      destruct (utab_o_any_all S c leafsp lev AS' LS t (s, k)) as [Ev [Ee Es]].
      change (uspfs_table S c RALL extended (ot t) (UA t)) with (tabM (ot t)) in Vt, Nt, St.
      (* a tag of the cell *)
      assert (NT : tags (TCA t (s, k)) <> []).
      { intros E0. apply Ee, Nt in E0. rewrite Ev, Vt in NE.
        pose proof (udecode_nonempty S c RALL extended total Hh RALL_not_none (ot t) [] (s, k) NE) as ND.
        destruct (udecode (tabM (ot t)) (UA t) (s, k) []) as [|x dx] eqn:D; [congruence|].
        assert (Hx : In x (udecode (tabM (ot t)) (UA t) (s, k) [])) by (rewrite D; now left).
        rewrite Eot in Hx. apply udecode_node in Hx as [l0 [r0 [_ [_ [H0 _]]]]]. rewrite <- Eot, E0 in H0. destruct H0. }
      destruct (tags (TCA t (s, k))) as [|[l r] tl] eqn:Etags; [congruence|]. clear NT.
      assert (Hlr : In (l, r) (tags (TCA t (s, k)))) by (rewrite Etags; now left).
      pose proof (proj1 (St _) (Es _ (or_introl eq_refl))) as Hlr2. rewrite Eot in Hlr2.
      destruct (utag_facts S c RALL extended total Hh (ot a) (ot b) (s, k) l r RALL_not_none Hlr2) as [_ [_ [_ [V [F _]]]]].
      rewrite V in F. apply ext_add_not_PInf_r in F.
      pose proof (ext_add_not_PInf_l _ _ F) as Fa. pose proof (ext_add_not_PInf_r _ _ F) as Fb.
      assert (Fa' : val (TCA a l) <> PInf).
      { rewrite (proj1 (utab_o_any_all S c leafsp lev AS' LS a l)), (proj1 (Mo a Ia l)). exact Fa. }
      assert (Fb' : val (TCA b r) <> PInf).
      { rewrite (proj1 (utab_o_any_all S c leafsp lev AS' LS b r)), (proj1 (Mo b Ib r)). exact Fb. }
      rewrite Et in EA. cbn [DC.udecode_g] in EA. apply LK.rcat_in in EA as [OkA IA].
      assert (Hi : In (tag_ca (l, r)) (ord_infos (tags (GA i s k)))).
      { apply (proj2 (ord_same _ _)). rewrite Ga. cbn [emap tags]. now apply in_map. }
      destruct (OkA _ Hi) as [aA EaA]. pose proof EaA as EaA'. cbv beta in EaA'.
      apply per_tag in EaA' as [dl [dr [E1 [E2 ->]]]].
      destruct l as [l kl], r as [r kr]. cbn [fst snd] in E1, E2.
      destruct (IHa l kl _ dl Fa' E1) as [d1 H1]. destruct (IHb r kr _ dr Fb' E2) as [d2 H2].
      eexists. apply IA. eexists. eexists. split; [exact Hi|]. split; [exact EaA|].
      unfold DC.prod3. apply in_flat_map. exists d1. split; [exact H1|]. apply in_map_iff. exists d2. split; [reflexivity|exact H2].
  Qed.
End AnyModel.
Print Assumptions decode_any_all.
Print Assumptions decode_any_nonempty.

(* ------------------------------------------------------------------ *)
(** * The candidates of [_uspfs] under ANY and the result entry *)
Section AnyResult.
  Context {lca node_id : Type} (nid_eqb : node_id -> node_id -> bool).
  Hypothesis nid_eqb_spec : forall a b, reflect (a = b) (nid_eqb a b).
  Notation tree := (EV.TreeNode node_id).
  Notation oids l := (map (@EV.TreeNode_id node_id) l).
  Notation post := (@UG.TreeNode_postorder node_id).
  Notation tid := (@EV.TreeNode_id node_id).
  Variables (lcaobj : lca) (S : stree) (c : costs) (leafsp : node_id -> path) (syn : node_id -> list fam) (O : tree).
  Variables (missing : node_id -> path) (missing_syn : node_id -> list fam) (ord_infos : list ca -> list ca).
  Variables (fam_order sort_synteny_fn : list fam -> list fam).
  Notation ST := (sembed3 S []).
  Notation ot := (otree_of leafsp syn).
  Notation lev := (sids3 (UG.STree_levelorder ST)).
  Variables (extended : bool) (AS : @UG.STree path -> tree -> list (@UG.STree path)).
  Notation AS' := (fun u : tree => sids3 (AS ST u)).
  Hypothesis Hh : nn (c_hgt c).
  Hypothesis ord_same : forall l, sameset (ord_infos l) l.
  Hypothesis fam_perm : forall l, Permutation l (fam_order l).
  Hypothesis sort_spec : forall l, NoDup l -> sort_synteny_fn l = set_of l.
  Variables (LS GS : node_id -> list fam).
  Notation total := (ototal (ot O)).
  Variables GA GL : node_id -> path -> bool -> entry ca.
  Hypothesis HGA : cells_any S c leafsp AS LS GA O.
  Hypothesis HGL : LK.cells_ok S c leafsp AS LS GL O.
  Hypothesis ND : NoDup (oids (post O)).
  Hypothesis HASm : LK.allowed_model S leafsp syn extended AS O.
  Hypothesis Hsets : LK.sets_model leafsp syn total LS GS O.
  Hypothesis Hc : ucoherent c.
  Hypothesis L : leaves_ok S (ot O).
  Notation TCA := (utab_o S c RANY leafsp lev AS' LS).
  Notation TCL := (utab_o S c RALL leafsp lev AS' LS).
  Notation UDG := (DC.udecode_g ord_infos fam_order sort_synteny_fn LS GS).
  Notation tabM := (utab S c RALL extended total (ot O)).
  Notation lt_at := (LK.lt_at nid_eqb missing missing_syn).
  Notation lt_out := (LK.lt_out (lca := lca) nid_eqb O missing missing_syn).
  Notation sid := (@UG.STree_id path).
  Notation dec s := (udecode tabM (annotate_top (ot O)) (s, false) (u_lca (annotate_top (ot O)))).
  Notation MKO := (DC.mk_out lcaobj c leafsp syn O).
  Notation COST := (DC.cost_of3 nid_eqb c leafsp syn O missing missing_syn).
  Notation OCOSTS := (DC.ocosts nid_eqb lcaobj c leafsp syn O missing missing_syn).
  Notation SCANDS G := (DC.species_cands nid_eqb lcaobj c leafsp syn O ord_infos fam_order sort_synteny_fn LS GS missing missing_syn G).
  Notation UCANDS G := (DC.uspfs_cands nid_eqb lcaobj c ST leafsp syn O ord_infos fam_order sort_synteny_fn LS GS missing missing_syn G).
  Notation CM := (uspfs_cands S c RALL extended (ot O)).
  Notation EM := (update ltree_eqb MIN RALL (default_entry MIN) CM).

  (** what is decoded at the root for a root species, from either table *)
  Definition decA (x : @UG.STree path) : list DC.dout :=
    match UDG GA O (sid x) false (LS (tid O)) with UG.Ok o => o | UG.Err _ => [] end.
  Definition decL (x : @UG.STree path) : list DC.dout :=
    match UDG GL O (sid x) false (LS (tid O)) with UG.Ok o => o | UG.Err _ => [] end.

  Lemma any_tags_ok : DC.tags_ok3 GA O /\ DC.leaf_tags_ok GA O.
  Proof.
    split.
    - intros u Hu x k tg Htg. rewrite (HGA u Hu) in Htg. cbn [emap tags] in Htg. apply in_map_iff in Htg as [lr [<- _]].
      cbn [tag_ca UG.ChildrenAssignment_left UG.ChildrenAssignment_right]. eauto.
    - intros i Hi x k _. rewrite (HGA _ Hi). cbn [emap tags utab_o]. now destruct (uassign_eqb _ _).
  Qed.

  Lemma decA_eq x : UDG GA O (sid x) false (LS (tid O)) = UG.Ok (decA x).
  Proof.
    unfold decA. destruct any_tags_ok as [T1 T2].
    destruct (DC.udecode_g_ok ord_infos (fun l m => proj1 (ord_same l m)) fam_order sort_synteny_fn LS GS GA O T1 T2
                (sid x) false (LS (tid O))) as [o ->]. reflexivity.
  Qed.

  Lemma decL_eq x : UDG GL O (sid x) false (LS (tid O)) = UG.Ok (decL x) /\ sameset (map (lt_at O) (decL x)) (dec (sid x)).
  Proof.
    destruct (Hsets O (TM.self_post O)) as [NL [SL _]].
    destruct (LK.decode_model nid_eqb nid_eqb_spec S c leafsp syn missing missing_syn ord_infos fam_order sort_synteny_fn extended AS
                Hh ord_same fam_perm sort_spec total LS GS GL O ND HGL HASm Hsets (sid x, false) (LS (tid O))
                (u_lca (annotate total (ot O))) NL SL) as [outs [Ed [Sd _]]].
    cbn [fst snd] in Ed. unfold decL. rewrite Ed. split; [reflexivity|exact Sd].
  Qed.

  Lemma decA_sub x d : In d (decA x) -> In d (decL x).
  Proof.
    exact (decode_any_all S c leafsp ord_infos fam_order sort_synteny_fn AS ord_same LS GS GA GL O HGA HGL
             (sid x) false (LS (tid O)) (decA x) (decL x) (decA_eq x) (proj1 (decL_eq x)) d).
  Qed.

  Lemma decA_nonempty x : val (TCA O (sid x, false)) <> PInf -> exists d, In d (decA x).
  Proof.
    intros NE.
    exact (decode_any_nonempty S c leafsp syn ord_infos fam_order sort_synteny_fn extended AS Hh ord_same total LS GS GA O
             HGA HASm Hsets (sid x) false (LS (tid O)) (decA x) NE (decA_eq x)).
  Qed.

  Lemma lev_sp s : In s (snodes S) <-> exists x, In x (UG.STree_levelorder ST) /\ sid x = s.
  Proof.
    rewrite <- (lev_sameset S s). unfold sids3. rewrite in_map_iff. split; intros [x [H1 H2]]; exists x; auto.
  Qed.

  (** a pair of dictionaries decoded from the ALL table: a decoded tree of the model, its cost is the cell it is decoded from *)
  Lemma decL_model x d : In x (UG.STree_levelorder ST) -> In d (decL x) ->
    In (sid x) (snodes S) /\ In (lt_at O d) (dec (sid x)) /\
    COST d = Some (ucost c (ot O) (lt_at O d)) /\ ucost c (ot O) (lt_at O d) = val (uread tabM (sid x, false)).
  Proof.
    intros Hx Hd. assert (Hs : In (sid x) (snodes S)) by (apply lev_sp; eauto). split; [exact Hs|].
    assert (Hm : In (lt_at O d) (dec (sid x))) by (apply (proj2 (decL_eq x)); now apply in_map).
    split; [exact Hm|]. split.
    - destruct (udecode_root_valid S c RALL extended (ot O) Hh L (sid x) _ Hm) as [V _].
      unfold DC.cost_of3. change (DC.lt_out nid_eqb O missing missing_syn d) with (lt_at O d).
      exact (total_cost_events c (ot O) _ (uvalid_events S _ (ot O) [] _ V)).
    - exact (proj2 (proj2 (dec_sol S c extended (ot O) Hh Hc L RALL RALL_not_none (sid x) _ Hm))).
  Qed.

  Definition gd (d : DC.dout) : ext * option (@UG.spout_state fam path lca node_id) :=
    (ucost c (ot O) (lt_at O d), Some (MKO d)).
  Definition csA : list (ext * option (@UG.spout_state fam path lca node_id)) :=
    flat_map (fun x => map gd (decA x)) (UG.STree_levelorder ST).

  (** the candidates of the code under ANY: no failure *)
  Lemma any_cands_eq : UCANDS GA = UG.Ok csA.
  Proof.
    unfold DC.uspfs_cands, csA. apply LK.rcat_flat. intros x Hx. unfold DC.species_cands. rewrite (decA_eq x).
    unfold DC.ocosts. rewrite (LK.rcat_flat _ (fun d => [gd d]) (decA x)).
    - apply f_equal. induction (decA x) as [|d l IH]; cbn [flat_map map app]; [reflexivity|now rewrite IH].
    - intros d Hd. destruct (decL_model x d Hx (decA_sub x d Hd)) as [_ [_ [Ec _]]]. rewrite Ec. reflexivity.
  Qed.

  Notation CA := (map (cmap lt_out) csA).

  Lemma In_CA q : In q CA <-> exists x d, In x (UG.STree_levelorder ST) /\ In d (decA x) /\
    q = (ucost c (ot O) (lt_at O d), Some (lt_at O d)).
  Proof.
    unfold csA. rewrite in_map_iff. split.
    - intros [p [<- Hp]]. apply in_flat_map in Hp as [x [Hx Hp]]. apply in_map_iff in Hp as [d [<- Hd]].
      exists x, d. split; [exact Hx|]. split; [exact Hd|]. reflexivity.
    - intros [x [d [Hx [Hd ->]]]]. exists (gd d). split; [reflexivity|]. apply in_flat_map. exists x. split; [exact Hx|].
      now apply in_map.
  Qed.

  (** every candidate the ANY run offers to the result entry is a candidate of the model under ALL *)
  Lemma any_cands_model v o : In (v, o) CA -> In (v, o) CM.
  Proof.
    intros I. apply In_CA in I as [x [d [Hx [Hd E]]]]. inversion E; subst v o.
    destruct (decL_model x d Hx (decA_sub x d Hd)) as [Hs [Hm _]].
    apply in_uspfs_cands. exists (sid x). auto.
  Qed.

  (** the optimum of the model is the cost of a candidate of the ANY run *)
  Lemma any_cands_best : exists r, In (val EM, Some r) CA.
  Proof.
    pose proof (uentry_value_finite S c extended (ot O) Hh Hc L RALL RALL_not_none) as NV.
    destruct (upd_attained ltree_eqb RALL _ NV) as [oy Io].
    destruct (uspfs_cands_some _ _ _ _ _ _ _ Io) as [y ->].
    pose proof Io as Io'. apply in_uspfs_cands in Io' as [s [Hs [Hy Ev]]].
    pose proof (proj2 (proj2 (dec_sol S c extended (ot O) Hh Hc L RALL RALL_not_none s y Hy))) as Cy.
    apply lev_sp in Hs as [x [Hx <-]].
    assert (NE : val (TCA O (sid x, false)) <> PInf).
    { rewrite (proj1 (utab_o_any_all S c leafsp lev AS' LS O (sid x, false))).
      rewrite (proj1 (TM.utab_o_model MP.ucell_o_sim S c RALL extended leafsp syn total lev AS' LS O Hh (lev_sameset S) HASm
                        (fun v Hv => proj1 (proj2 (Hsets v Hv))) O (TM.self_post O) (sid x, false))).
      change (uspfs_table S c RALL extended (ot O) (annotate total (ot O))) with tabM.
      rewrite <- Cy, <- Ev. exact NV. }
    destruct (decA_nonempty x NE) as [d Hd].
    exists (lt_at O d). apply In_CA. exists x, d. split; [exact Hx|]. split; [exact Hd|].
    destruct (decL_model x d Hx (decA_sub x d Hd)) as [_ [_ [_ Cd]]]. now rewrite Ev, Cy, Cd.
  Qed.

  Lemma any_value : val (update ltree_eqb MIN RANY (default_entry MIN) CA) = val EM.
  Proof.
    apply ele_antisym.
    - destruct any_cands_best as [r Hr]. exact (upd_le ltree_eqb RANY _ _ _ Hr).
    - destruct (ext_eqb (val (update ltree_eqb MIN RANY (default_entry MIN) CA)) PInf) eqn:Ep.
      + apply ext_eqb_eq in Ep. rewrite Ep. apply ele_PInf.
      + assert (NV : val (update ltree_eqb MIN RANY (default_entry MIN) CA) <> PInf) by (intros X; rewrite X in Ep; discriminate).
        destruct (upd_attained ltree_eqb RANY _ NV) as [oy Io]. apply any_cands_model in Io.
        exact (upd_le ltree_eqb RALL _ _ _ Io).
  Qed.

  (** (c) the entry under ANY holds exactly one labelled reconciliation, one of those the model holds under ALL *)
  Theorem any_result : exists r, tags (update ltree_eqb MIN RANY (default_entry MIN) CA) = [r] /\ In r (tags EM).
  Proof.
    destruct (entry_tags_any ltree_eqb MIN CA) as [[_ No]|[t [Et It]]]; cbv zeta in *.
    - exfalso. destruct any_cands_best as [r Hr]. apply (No r). now rewrite any_value.
    - exists t. split; [exact Et|]. rewrite any_value in It. apply any_cands_model in It.
      now apply (entry_tags_all ltree_eqb ltree_eqb_spec MIN CM t).
  Qed.
End AnyResult.
Print Assumptions any_cands_eq.
Print Assumptions any_result.

(* ------------------------------------------------------------------ *)
(** * The two entry points under ANY *)
Section Final.
  Context {lca node_id olca : Type} (nid_eqb : node_id -> node_id -> bool).
  Hypothesis nid_eqb_spec : forall a b, reflect (a = b) (nid_eqb a b).
  Notation tree := (EV.TreeNode node_id).
  Notation spout := (@UG.spout_state fam path lca node_id).
  Notation oids l := (map (@EV.TreeNode_id node_id) l).
  Notation post := (@UG.TreeNode_postorder node_id).
  Notation tid := (@EV.TreeNode_id node_id).
  Variables (lcaobj : lca) (S : stree) (c : costs) (leafsp : node_id -> path) (syn : node_id -> list fam) (O : tree).
  Variables (missing : node_id -> path) (missing_syn : node_id -> list fam) (ord_infos : list ca -> list ca).
  Variables (fam_order sort_synteny_fn : list fam -> list fam).
  Variable oeqb : spout -> spout -> bool.
  Variables (olca_of : tree -> olca) (olca_call : olca -> list node_id -> node_id)
            (syn_items : (node_id -> list fam) -> list (node_id * list fam)) (node_order : list node_id -> list node_id).
  Notation ST := (sembed3 S []).
  Notation ot := (otree_of leafsp syn).
  Notation sin := (EV.mk_sin O lcaobj leafsp (stsocc c) syn).
  Notation DIST := (fun (_ : lca) => dist).
  Notation ANC := (fun (_ : lca) => anc).
  Notation SANC := (fun (_ : lca) => sanc).
  Notation COMP := (fun (_ : lca) => comparable).
  Notation LCP := (fun (_ : lca) => lcp).
  Notation LT := (LK.lt_out nid_eqb O missing missing_syn).
  Notation GAIN := (UG.gen_compute_gain_sets (fam := fam) (sp := path) (lca := lca) N.eqb nid_eqb olca_of olca_call syn_items node_order sin).
  Notation LCAS := (UG.gen_compute_lca_sets (fam := fam) (sp := path) (lca := lca) N.eqb nid_eqb sin).
  Notation USPFS rp AS := (UG.gen_uspfs (fam := fam) N.eqb path_eqb nid_eqb ANC LCP DIST (fun _ => ST) olca_of olca_call syn_items fam_order node_order
                       SANC COMP oeqb missing missing_syn ord_infos sort_synteny_fn sin (prc rp) AS).
  Notation WW := (LK.W nid_eqb S c leafsp syn O missing missing_syn ord_infos fam_order sort_synteny_fn oeqb olca_of olca_call syn_items node_order).

  (** [_uspfs] under ANY, generic in the species callback: exactly one output, a solution of the model under ALL *)
  Lemma gen_uspfs_any (extended : bool) (AS : @UG.STree path -> tree -> list (@UG.STree path))
      (LS GS : node_id -> list fam) (lsets gsets : list (node_id * list fam)) :
    nn (c_hgt c) -> (forall l, sameset (ord_infos l) l) -> (forall l, Permutation l (fam_order l)) ->
    (forall l, NoDup l -> sort_synteny_fn l = set_of l) -> NoDup (oids (post O)) ->
    (forall u, In u (post O) -> EV.TreeNode_is_leaf u = false -> allowed_ok S ST AS u) ->
    LK.allowed_model S leafsp syn extended AS O ->
    LK.sets_model leafsp syn (ototal (ot O)) LS GS O ->
    0 <= c_sloss c -> (forall a b : spout, ltree_eqb (LT a) (LT b) = oeqb a b) ->
    ucoherent c -> leaves_ok S (ot O) ->
    GAIN = UG.Ok gsets -> LCAS gsets = UG.Ok lsets -> DC.sets_ok nid_eqb LS GS lsets gsets O ->
    exists o, USPFS RANY AS = UG.Ok [o] /\
      In (LT o) (tags (update ltree_eqb MIN RALL (default_entry MIN) (uspfs_cands S c RALL extended (ot O)))).
  Proof.
    intros Hh Hord Hfo Hso ND HASok HASm Hsets Hs Heq Hc L Eg El Hd.
    destruct (DC.gen_uspfs_of_table nid_eqb nid_eqb_spec lcaobj c RANY ST leafsp syn O ord_infos fam_order sort_synteny_fn LS GS lsets gsets
                oeqb missing missing_syn Hs olca_of olca_call syn_items node_order AS S
                (GM.table_eq nid_eqb nid_eqb_spec lcaobj) ND HASok Eg El Hd) as [tba [_ [_ [Hca [_ Ea]]]]].
    destruct (DC.gen_uspfs_of_table nid_eqb nid_eqb_spec lcaobj c RALL ST leafsp syn O ord_infos fam_order sort_synteny_fn LS GS lsets gsets
                oeqb missing missing_syn Hs olca_of olca_call syn_items node_order AS S
                (GM.table_eq nid_eqb nid_eqb_spec lcaobj) ND HASok Eg El Hd) as [tbl [_ [_ [Hcl _]]]].
    rewrite Ea.
    rewrite (any_cands_eq nid_eqb nid_eqb_spec lcaobj S c leafsp syn O missing missing_syn ord_infos fam_order sort_synteny_fn extended AS
               Hh Hord Hfo Hso LS GS (gsem3 nid_eqb tba) (gsem3 nid_eqb tbl) Hca Hcl ND HASm Hsets Hc L).
    destruct (any_result nid_eqb nid_eqb_spec lcaobj S c leafsp syn O missing missing_syn ord_infos fam_order sort_synteny_fn extended AS
               Hh Hord Hfo Hso LS GS (gsem3 nid_eqb tba) (gsem3 nid_eqb tbl) Hca Hcl ND HASm Hsets Hc L) as [r [Er Ir]].
    match type of Er with tags (update _ _ _ _ (map _ ?cs)) = _ =>
      pose proof (update_emap oeqb ltree_eqb LT Heq MIN RANY cs (default_entry MIN)) as E2 end.
    change (emap LT (default_entry MIN)) with (@default_entry ltree MIN) in E2.
    rewrite E2 in Er. cbn [emap tags] in Er.
    match type of Er with map _ ?l = _ => destruct l as [|o [|o' l']] end; cbn [map] in Er; try discriminate.
    inversion Er as [Eo]. exists o. split; [reflexivity|]. rewrite Eo. exact Ir.
  Qed.

  (** [usreconcile_extended_uspfs] under ANY: the generated code returns exactly one labelled reconciliation; it is one of
      those of the model under ALL, that is an optimal one *)
  Theorem gen_usreconcile_extended_uspfs_any : WW -> ucoherent c ->
    forall E, uspfs S c RALL true (ot O) = Some E ->
    exists o,
      UG.gen_usreconcile_extended_uspfs (fam := fam) N.eqb path_eqb nid_eqb ANC LCP DIST (fun _ => ST) olca_of olca_call syn_items fam_order
        node_order SANC COMP oeqb missing missing_syn ord_infos sort_synteny_fn sin (prc RANY) = UG.Ok [o] /\
      In (LT o) (tags E) /\ uoptimal S c true (ot O) (LT o).
  Proof.
    intros [Hh [Hs [ND [Lv [Hord [Heq [Holca [Hno [Hit [Hfo Hso]]]]]]]]]] Hc E HE.
    rewrite DC.gen_usreconcile_extended_uspfs_eq.
    destruct (LK.stage1_link nid_eqb nid_eqb_spec lcaobj c leafsp syn O olca_of olca_call syn_items node_order ND Holca Hno Hit)
      as [g [r [Eg [Er [Hd Hm]]]]].
    destruct (gen_uspfs_any true (fun (species : @UG.STree path) (_ : tree) => UG.STree_postorder species)
                (LK.TF.LS_of nid_eqb r) (LK.TF.LS_of nid_eqb g) r g Hh Hord Hfo Hso ND
                ltac:(intros u _ _; split; [intros rs; apply post_rs_ok|apply post_nodup])
                ltac:(intros u _ _; exact (post_sameset S)) Hm Hs Heq Hc Lv Eg Er Hd) as [o [Eo Io]].
    exists o. split; [exact Eo|].
    rewrite (uspfs_some S c RALL true (ot O) Hh Lv) in HE. injection HE as <-. split; [exact Io|].
    destruct (uspfs_all_exact S c true (ot O) Hh Hc Lv) as [E' [HE' [_ Ex]]].
    rewrite (uspfs_some S c RALL true (ot O) Hh Lv) in HE'. injection HE' as <-. now apply Ex.
  Qed.

  (** [usreconcile_base_uspfs] under ANY *)
  Theorem gen_usreconcile_base_uspfs_any : WW -> ucoherent c ->
    forall E, uspfs S c RALL false (ot O) = Some E ->
    exists o,
      UG.gen_usreconcile_base_uspfs (fam := fam) N.eqb path_eqb nid_eqb ANC LCP DIST (fun _ => ST) olca_of olca_call syn_items fam_order
        node_order SANC COMP oeqb missing missing_syn ord_infos sort_synteny_fn sin (prc RANY) = UG.Ok [o] /\
      In (LT o) (tags E) /\ uoptimal S c false (ot O) (LT o).
  Proof.
    intros [Hh [Hs [ND [Lv [Hord [Heq [Holca [Hno [Hit [Hfo Hso]]]]]]]]]] Hc E HE.
    destruct (DC.gen_usreconcile_base_uspfs_eq nid_eqb nid_eqb_spec lcaobj c RANY ST leafsp syn O ord_infos fam_order sort_synteny_fn oeqb
                missing missing_syn olca_of olca_call syn_items node_order ND) as [d [Hdd Eb]].
    rewrite Eb.
    destruct (LK.stage1_link nid_eqb nid_eqb_spec lcaobj c leafsp syn O olca_of olca_call syn_items node_order ND Holca Hno Hit)
      as [g [r [Eg [Er [Hd Hm]]]]].
    assert (HAS : forall u, In u (post O) ->
              exists rs, UG.base_species path_eqb nid_eqb ST d u = [rs] /\ In rs (UG.STree_postorder ST) /\
                         UG.STree_id rs = root (lca_rec (ot u))).
    { intros u Hu. pose proof (LK.leaves_ok_sub S leafsp syn O u Lv Hu) as Lu.
      pose proof (lca_root_allowed S false (ot u) Lu (root (lca_rec (ot u))) (or_introl eq_refl)) as V.
      apply snodes_valid, (post_sameset S) in V. destruct (LK.find_sid _ _ V) as [rs [E1 [E2 E3]]].
      exists rs. split; [|auto]. exact (DC.base_species_eq nid_eqb ST d u _ rs (Hdd u Hu) E1). }
    assert (HA1 : forall u, In u (post O) -> EV.TreeNode_is_leaf u = false ->
              allowed_ok S ST (fun (_ : @UG.STree path) (obj : tree) => UG.base_species path_eqb nid_eqb ST d obj) u).
    { intros u Hu _. unfold allowed_ok. destruct (HAS u Hu) as [rs [E1 [H2 _]]]. rewrite E1. split.
      - intros rs' [<-|[]]. now apply post_rs_ok.
      - cbn. constructor; [intros []|constructor]. }
    assert (HA2 : LK.allowed_model S leafsp syn false (fun (_ : @UG.STree path) (obj : tree) => UG.base_species path_eqb nid_eqb ST d obj) O).
    { intros u Hu _. cbv beta. destruct (HAS u Hu) as [rs [E1 [_ H3]]]. rewrite E1. cbn [sids3 map uallowed]. rewrite H3. intros x; tauto. }
    destruct (gen_uspfs_any false (fun (_ : @UG.STree path) (obj : tree) => UG.base_species path_eqb nid_eqb ST d obj)
                (LK.TF.LS_of nid_eqb r) (LK.TF.LS_of nid_eqb g) r g Hh Hord Hfo Hso ND HA1 HA2 Hm Hs Heq Hc Lv Eg Er Hd) as [o [Eo Io]].
    exists o. split; [exact Eo|].
    rewrite (uspfs_some S c RALL false (ot O) Hh Lv) in HE. injection HE as <-. split; [exact Io|].
    destruct (uspfs_all_exact S c false (ot O) Hh Hc Lv) as [E' [HE' [_ Ex]]].
    rewrite (uspfs_some S c RALL false (ot O) Hh Lv) in HE'. injection HE' as <-. now apply Ex.
  Qed.
End Final.
Print Assumptions gen_usreconcile_extended_uspfs_any.
Print Assumptions gen_usreconcile_base_uspfs_any.
Check ucell_o_any_all.
Check utab_o_any_all.
Check decode_any_all.
Check decode_any_nonempty.
Check any_cands_eq.
Check any_result.
Check gen_usreconcile_extended_uspfs_any.
Check gen_usreconcile_base_uspfs_any.

(* ------------------------------------------------------------------ *)
(** * The hypotheses are satisfiable: the instance of [UspfsLink.Ex] with every unit cost 0 (four optimal solutions under ALL):
    under ANY the generated code returns exactly one of them *)
Module ExAny.
  Module X := LK.Ex.
  Module E1 := LK.S1.Example1.
  Notation GEN_EXTZ_ANY := (UG.gen_usreconcile_extended_uspfs (fam := fam) N.eqb path_eqb Nat.eqb (fun _ : unit => anc) (fun _ => lcp) (fun _ => dist)
                         (fun _ => sembed3 X.S0 []) (fun _ => tt) E1.olca_call1 E1.items1 X.fam_order0 E1.order1 (fun _ => sanc) (fun _ => comparable)
                         X.oeqb0 X.miss0 X.msyn0 X.ord0 X.sort0 (EV.mk_sin X.O0 tt X.leafsp0 (stsocc X.cz) X.syn0) (prc RANY)).
  Notation GEN_BASEZ_ANY := (UG.gen_usreconcile_base_uspfs (fam := fam) N.eqb path_eqb Nat.eqb (fun _ : unit => anc) (fun _ => lcp) (fun _ => dist)
                         (fun _ => sembed3 X.S0 []) (fun _ => tt) E1.olca_call1 E1.items1 X.fam_order0 E1.order1 (fun _ => sanc) (fun _ => comparable)
                         X.oeqb0 X.miss0 X.msyn0 X.ord0 X.sort0 (EV.mk_sin X.O0 tt X.leafsp0 (stsocc X.cz) X.syn0) (prc RANY)).
  Notation LT0 := (LK.lt_out Nat.eqb X.O0 X.miss0 X.msyn0).

  Example ucoherent_cz : ucoherent X.cz.
  Proof. unfold ucoherent. cbn. lia. Qed.

  Example instance_zero_any_evaluated :
    (match GEN_EXTZ_ANY with UG.Ok outs => Some (map LT0 outs) | UG.Err _ => None end) = Some [X.solz [] [false]] /\
    (match GEN_BASEZ_ANY with UG.Ok outs => Some (map LT0 outs) | UG.Err _ => None end) = Some [X.solz [] [false]].
  Proof. split; vm_compute; reflexivity. Qed.

  Example instance_zero_any_theorem : exists o, GEN_EXTZ_ANY = UG.Ok [o] /\
    In (LT0 o) [X.solz [] [false]; X.solz [] []; X.solz [false] [false]; X.solz [true] [false]].
  Proof.
    pose proof (gen_usreconcile_extended_uspfs_any Nat.eqb Nat.eqb_spec tt X.S0 X.cz X.leafsp0 X.syn0 X.O0 X.miss0 X.msyn0 X.ord0
                  X.fam_order0 X.sort0 X.oeqb0 (fun _ => tt) E1.olca_call1 E1.items1 E1.order1 X.W_satisfiable_z ucoherent_cz) as M.
    remember (uspfs X.S0 X.cz RALL true (otree_of X.leafsp0 X.syn0 X.O0)) as r eqn:Er. vm_compute in Er. subst r.
    destruct (M _ eq_refl) as [o [E [I _]]]. exists o. split; [exact E|exact I].
  Qed.

  Example instance_zero_base_any_theorem : exists o, GEN_BASEZ_ANY = UG.Ok [o] /\ LT0 o = X.solz [] [false].
  Proof.
    pose proof (gen_usreconcile_base_uspfs_any Nat.eqb Nat.eqb_spec tt X.S0 X.cz X.leafsp0 X.syn0 X.O0 X.miss0 X.msyn0 X.ord0
                  X.fam_order0 X.sort0 X.oeqb0 (fun _ => tt) E1.olca_call1 E1.items1 E1.order1 X.W_satisfiable_z ucoherent_cz) as M.
    remember (uspfs X.S0 X.cz RALL false (otree_of X.leafsp0 X.syn0 X.O0)) as r eqn:Er. vm_compute in Er. subst r.
    destruct (M _ eq_refl) as [o [E [[I|[]] _]]]. exists o. split; [exact E|now rewrite <- I].
  Qed.
End ExAny.
Print Assumptions ExAny.instance_zero_any_evaluated.
Print Assumptions ExAny.instance_zero_any_theorem.
Print Assumptions ExAny.instance_zero_base_any_theorem.

End PartCuspfs.
